"""C06 — injected faults act exactly during their windows and isolate only their target.

1. TLC model checking of specs/faults/FaultsMC.tla (one run per tier): every schedule of up to maxw windows per
   window space (all overlap / nesting / adjacency shapes, both creation orders, cancel modes) with the derived
   workload; the contract invariants hold on all runs with dev = {} and each deviation alone breaks its clause
   (Report action of the same run).  Runs in the background while 2-4 happen.
2. spec -> code: the schedules TLC enumerated (initial states of FaultsMC) are built as real FaultSchedules +
   workloads on a real Simulation / Network / Resource / QueuedResource and run (c06_world.py).
3. code -> spec: those executions plus seeded random schedules beyond the bounds are judged by
   FaultsJudge.tla (contract on the observed logs -> keys) and FaultsTrace.tla (the machine with the code's
   deviations must reproduce the observed logs; a difference is drift).
4. keys of open known findings print KNOWN-FINDING, any other key is a VIOLATION (replay file saved).
"""
from __future__ import annotations

import json
import random

from .. import tlc
from ..common import Check, load_known
from ..probe import quiet_logging
from . import c06_world as W

SPEC = tlc.SPECS / "faults"
PAR = max(1, min(8, tlc.DEFAULT_WORKERS))      # concurrent TLC launches
# short TLC runs: the C2 compiler and a GC thread per core cost more CPU than they save
JVM_SHORT = {"_JAVA_OPTIONS": "-XX:TieredStopAtLevel=1 -XX:CICompilerCount=1 -XX:ParallelGCThreads=2 -Xss16m"}
JVM_LONG = {"_JAVA_OPTIONS": "-XX:ParallelGCThreads=2 -Xss16m"}
INVS = ["InvCrashQuiet", "InvUnaffected", "InvResumes", "InvPartition", "InvLoss", "InvLatency", "InvCapacity",
        "InvTraffic", "InvEndState"]

# deviation -> contract clauses (invariants of Faults.tla) at least one of which it must break
DEVIATIONS = {
    "continuation_ignores_crash": {"InvCrashQuiet"},
    "bool_flag_not_refcount": {"InvCrashQuiet"},
    "queued_worker_ignores_crash": {"InvCrashQuiet"},
    "heal_removes_shared_pairs": {"InvPartition", "InvTraffic"},
    "lat_restore_captured_original": {"InvLatency", "InvTraffic"},
    "loss_restore_captured_original": {"InvLoss", "InvTraffic"},
    "capacity_restore_captured_original": {"InvCapacity"},
    "capacity_restore_adds_delta": {"InvEndState"},
    "cancel_before_start_ineffective": set(INVS),
}

# contract key (what fails, computed by FaultsKeys.tla) -> deviation of the model that produces it
# (documentation of known_findings.json entries; the verdict itself only looks at the key)
KEY_DEV = {
    "process_advances_while_crashed": "continuation_ignores_crash",
    "handler_runs_after_overlapping_window_end": "bool_flag_not_refcount",
    "queued_item_served_while_crashed": "queued_worker_ignores_crash",
    "queued_worker_advances_while_crashed": "queued_worker_ignores_crash",
    "partition_healed_while_window_open": "heal_removes_shared_pairs",
    "latency_restored_while_window_open": "lat_restore_captured_original",
    "loss_restored_while_window_open": "loss_restore_captured_original",
    "capacity_restored_while_window_open": "capacity_restore_captured_original",
    "capacity_not_restored_after_hold_across_activation": "capacity_restore_adds_delta",
    "capacity_not_restored_after_overlapping_windows": "capacity_restore_adds_delta",
    "cancel_before_start_ineffective": "cancel_before_start_ineffective",
}


def as_code_dev():
    """The model of the code as it is: deviations of the open known findings of C06."""
    return sorted({e["deviation"] for e in load_known().get("open", [])
                   if e["property"] == "C06" and e.get("deviation") in DEVIATIONS})


def model_check(chk, tier):
    """One TLC run over all configurations of the tier (FaultsMC!MCQuick / MCThorough): the contract invariants
    must hold on every schedule run with Dev = {}; the runs with one deviation switched on report (action
    Report) which clauses they break, and every deviation must break one of its expected clauses."""
    wd = tlc.workdir("C06_mc")
    cfg = tlc.write_cfg(wd / "mc.cfg", spec="Spec", invariants=INVS,
                        constants={"Dev": "{}", "Configs": "<- MCQuick" if tier == "quick" else "<- MCThorough"})
    res = tlc.run(SPEC / "FaultsMC.tla", cfg, label="C06_mc", timeout=3000,
                  workers=max(1, tlc.DEFAULT_WORKERS // 2), env=JVM_SHORT if tier == "quick" else JVM_LONG)
    chk.add_tlc(f"FaultsMC {'MCQuick' if tier == 'quick' else 'MCThorough'} (Dev={{}} invariants + one run per "
                f"deviation)", res)
    chk.require(res.ok, f"Faults.tla with Dev={{}} violates {res.violated}")
    broken = {}
    for v in res.printed:
        if isinstance(v, tuple) and len(v) == 3 and v[0] == "S" and len(v[1]) == 1:
            broken.setdefault(next(iter(v[1])), set()).add(v[2])
    for dev, invs in DEVIATIONS.items():
        got = broken.get(dev, set())
        chk.require(bool(got & invs), f"deviation {dev} not caught (clauses broken: {sorted(got)})")
        chk.sensitivity[dev] = ",".join(sorted(got))
    return res


def model_schedules(chk, tier):
    """Every schedule TLC enumerates (= the initial states of FaultsMC) as a Python schedule."""
    wd = tlc.workdir("C06_gen")
    cfg = tlc.write_cfg(wd / "gen.cfg", next_="GenNext",
                        constants={"Dev": "{}", "Configs": "<- GenQuick" if tier == "quick" else "<- GenThorough"})
    res = tlc.run(SPEC / "FaultsMC.tla", cfg, label="C06_gen", extra=["-dump", str(wd / "states")],
                  timeout=3000, workers=1, env=JVM_SHORT)
    chk.add_tlc("schedule enumeration (initial states of FaultsMC)", res, count=False,
                note="initial states = schedules handed to the real code")
    out, seen = [], set()
    for n, st in enumerate(tlc.parse_dump(wd / "states.dump")):
        sch = W.sch_from_state(st, flip=n)
        key = json.dumps(sch, sort_keys=True)
        if key not in seen:
            seen.add(key)
            mode = "+".join(sorted({w["k"] for w in sch["wins"]})) or "none"
            out.append((f"model:{mode}", sch))
    (wd / "states.dump").unlink(missing_ok=True)
    return out


def _pool(jobs, width=None):
    """Run TLC launches concurrently (each JVM start costs seconds on a busy machine)."""
    from concurrent.futures import ThreadPoolExecutor
    width = width or max(1, min(len(jobs), PAR))
    with ThreadPoolExecutor(max_workers=width) as ex:
        futs = [ex.submit(fn, *args) for fn, *args in jobs]
        return [f.result() for f in futs]


def validate(traces, dev, label, conform=True):
    """Contract verdicts (FaultsJudge.tla) and model conformance (FaultsTrace.tla, Dev = dev) for all traces.
    Returns verdicts {id: (verdict, pos)}, keys {id: [(key, pos)]}, diffs {id: log}, TLC results."""
    consts_ = {"Dev": "{" + ",".join(f'"{d}"' for d in dev) + "}"}
    chunk = max(40, min(500, -(-len(traces) // 2)))
    parts = [traces[k:k + chunk] for k in range(0, len(traces), chunk)]

    def one(module, part, lab):
        return tlc.validate_traces(SPEC / module, part, label=lab, spec="TSpec", constants=consts_,
                                   chunk=len(part) + 1, timeout=3000, extra_env=JVM_SHORT)

    jobs = [(one, "FaultsJudge.tla", part, f"{label}_j{n}") for n, part in enumerate(parts)]
    if conform:
        jobs += [(one, "FaultsTrace.tla", part, f"{label}_m{n}") for n, part in enumerate(parts)]
    outs = _pool(jobs)
    verdicts, keys, diffs, results = {}, {}, {}, []
    for (fn, module, part, lab), (vd, rs) in zip(jobs, outs):
        results += [(module, r) for r in rs]
        if module == "FaultsJudge.tla":
            verdicts.update(vd)
            for r in rs:
                for v in r.printed:
                    if isinstance(v, tuple) and len(v) == 4 and v[0] == "K":
                        keys.setdefault(v[1], []).append((v[2], v[3]))
        else:
            for tid, (v, _) in vd.items():
                if v != "ACCEPT":
                    diffs[tid] = v[6:]
    for tid, d in diffs.items():
        if verdicts[tid][0] == "ACCEPT":
            verdicts[tid] = ("MODEL:" + d, 0)
    return verdicts, keys, diffs, results


def describe(key, pos, tr):
    n = len(tr["wins"])
    ws = "; ".join(f"{w['k']}{w['tg']}[{w['s']},{w['e'] if w['e'] != W.INF else 'inf'})"
                   + (f" cancelled(mode {w['cm']})" if w["cm"] else "") for w in tr["wins"])
    return f"{key} at log position {pos} under {n} window(s): {ws}"


def judge(chk, traces, meta, label="C06_trace"):
    dev = as_code_dev()
    verdicts, keys, diffs, results = validate(traces, dev, label)
    for module, r in results:
        chk.add_tlc(f"{module[:-4]} batch" + (f" Dev={dev}" if module == "FaultsTrace.tla" else ""), r)
    by_id = {t["id"]: t for t in traces}
    counts = {}
    for tid, (verdict, pos) in verdicts.items():
        tr = by_id[tid]
        for key, p in keys.get(tid, []):
            counts[key] = counts.get(key, 0) + 1
            k = key[2:] if key.startswith("U:") else key
            chk.violation(k, describe(k, p, tr), {"meta": meta[tid], "schedule": W_sch(tr), "key": k})
        if tid in diffs:
            chk.note_drift(f"trace {tid} ({meta[tid]['origin']}): log {diffs[tid]} differs from the model")
    return verdicts, keys, counts


def W_sch(tr):
    return {k: tr[k] for k in ("C", "L0", "H", "wins", "groups", "jobs", "probes", "holds")}


def run(tier, seed, replay=None):
    quiet_logging()
    chk = Check("C06", tier, seed)
    rng = random.Random(seed)
    chk.require(len(W.TICKS) >= 2, "no tick size survives the float round trips")
    if replay:
        return run_replay(chk, replay)
    from concurrent.futures import ThreadPoolExecutor
    bg = ThreadPoolExecutor(max_workers=1)
    mc_future = bg.submit(model_check, chk, tier)         # runs while the real executions are made and judged

    traces, meta = [], {}

    def execute(sch, origin, T, loop):
        tid = len(traces) + 1
        w = W.run_schedule(sch, T, loop, form_seed=rng.randrange(1 << 30))
        traces.append(w.trace(tid))
        meta[tid] = {"origin": origin, "tick_ns": T, "loop": loop, "error": w.err}
        chk.impl_steps += len(w.act) + len(w.obs) + len(w.msgs) + len(w.hlog) + len(w.snk)
        if w.err:
            chk.note_drift(f"trace {tid} ({origin}): real run raised {w.err}")

    import time as _t
    t0 = _t.time()
    phases = {}
    scheds = model_schedules(chk, tier)
    phases["enumerate_schedules"] = round(_t.time() - t0, 1)
    chk.extra["model_schedules_total"] = len(scheds)
    cap = 120 if tier == "quick" else 1000
    chosen = scheds if len(scheds) <= cap else rng.sample(scheds, cap)
    chk.exhaustive = len(chosen) == len(scheds)
    for i, (origin, sch) in enumerate(chosen):
        execute(sch, origin, W.TICKS[i % len(W.TICKS)], "control" if i % 3 == 2 else "fast")
        chk.replays += 1
    n_rand = 120 if tier == "quick" else 1000
    for i in range(n_rand):
        execute(W.random_schedule(rng), "random", W.TICKS[i % len(W.TICKS)], "control" if i % 4 == 3 else "fast")

    phases["real_runs"] = round(_t.time() - t0 - phases["enumerate_schedules"], 1)
    t1 = _t.time()
    verdicts, keys, counts = judge(chk, traces, meta)
    phases["trace_validation"] = round(_t.time() - t1, 1)
    t1 = _t.time()
    mc_future.result()
    bg.shutdown()
    phases["waiting_for_model_check"] = round(_t.time() - t1, 1)
    chk.extra["phase_wall_s"] = phases
    chk.impl_traces = len(traces)
    chk.extra["contract_keys_seen"] = counts
    chk.extra["accepted_traces"] = sum(1 for v in verdicts.values() if v[0] == "ACCEPT")
    for t in traces[:1] + traces[-1:]:
        chk.sample({"trace": t, "meta": meta[t["id"]], "verdict": verdicts[t["id"]]}, cap=4)
    chk.assumptions = [
        "instants are K*T or K*T +/- 1 ns and delays whole multiples of T, with T chosen so that the "
        "repository's float conversions are exact (checked at start-up by pure float arithmetic)",
        "a window is [start, end]: the contract demands the effect strictly inside, its absence strictly "
        "outside, and nothing at the two edge instants themselves (the code's own order at an edge is only "
        "compared with the model, as drift)",
        "a process in flight at the crash instant may or may not continue after the restart (the statement "
        "does not say); only activity strictly inside a window is a violation",
        "cancelled windows (before activation) do not exist for the contract; cancelling after activation is "
        "not exercised (the statement is silent)",
        "packet loss windows use rate 1.0 so that the fate of a probe message is deterministic; RandomPartition "
        "(no fixed windows) is not exercised",
        "same-instant order of events is their creation order (C01)",
    ]
    chk.explanation = ("TLC enumerates every schedule of the bounded window spaces and checks the contract on the "
                       "model's logs; the same schedules and random ones are run on the real FaultSchedule / "
                       "Simulation and judged by the TLA+ trace spec")
    return chk.finish()


def run_replay(chk, path):
    d = json.loads(open(path).read())
    rp = d["replay"]
    m = rp["meta"]
    w = W.run_schedule(rp["schedule"], m["tick_ns"], m.get("loop", "fast"), form_seed=0)
    tr = w.trace(1)
    verdicts, keys, counts = judge(chk, [tr], {1: m}, label="C06_replay")
    chk.impl_traces = 1
    print(f"replay verdict: {verdicts[1]} keys: {keys.get(1)}")
    return chk.finish()
