"""C08 — queueing pipelines never lose, duplicate, misorder or strand work (DESIGN.md section 5).

TLC: specs/queue/QueuePipe.tla (Queue + QueueDriver + worker on the engine heap) and PoliciesMC.tla
(policy sequence machines) with the contract of QueueContract.tla as invariants; Dev = {} must pass,
every deviation alone must be caught.  spec -> code: every terminal behaviour of the bounded as-code
model and every maximal policy history is executed on the real objects and compared record by record;
TLC counterexamples of the deviations are replayed on the real code.  code -> spec: recorded
executions of real Simulations (scenarios beyond the bounds, all policies, topologies, industrial
variants) are judged by QueueTrace.tla.
"""
from __future__ import annotations

import json
import random
import time
from concurrent.futures import ThreadPoolExecutor

from .. import tlc
from ..common import Check, load_known
from ..probe import quiet_logging
from . import c08_world as W

SPEC = tlc.SPECS / "queue"
# several TLC processes run side by side: keep each JVM's helper threads few
# (-Xss: the trace spec folds long logs with recursive operators)
JVM_ENV = {"JAVA_TOOL_OPTIONS": "-XX:ParallelGCThreads=2 -XX:CICompilerCount=2 -Xss256m"}
INF = W.INF
PIPE_INVS = ["InvPartition", "InvOnce", "InvLimit", "InvNoIdleWait", "InvNoLoss", "InvServerWithinLimit",
             "InvOrder", "InvCapacity"]
# hold even with every deviation of the pinned code switched on (nothing lost or duplicated, Server within limit)
ASCODE_INVS = ["InvPartition", "InvOnce", "InvNoLoss", "InvServerWithinLimit"]
POL_INVS = ["InvOrder", "InvFairShare", "InvCapacity", "InvConservation", "InvFlows"]
PIPE_DEVS = {  # deviation -> (invariants that may report it, small configuration exhibiting it)
    "poll_once_per_notify": ({"InvNoIdleWait"}, dict(kinds=("server",), limits=(2,), caps=(INF,), nitems=(2,),
                                                     ticks=(0,), hops=(0,), svcs=(1,))),
    "poll_ignores_inflight": ({"InvLimit"}, dict(kinds=("shifted",), limits=(1,), caps=(INF,), nitems=(3,),
                                                 ticks=(0, 1), hops=(0,), svcs=(1,))),
    "capacity_raise_no_wake": ({"InvNoIdleWait"}, dict(kinds=("shifted",), limits=(0,), caps=(INF,), nitems=(2,),
                                                       ticks=(0, 2), hops=(0,), svcs=(1,), shts=(1,), shls=(1,))),
    "set_limit_no_wake": ({"InvNoIdleWait"}, dict(kinds=("server",), limits=(1,), caps=(INF,), nitems=(2,),
                                                  ticks=(0,), hops=(0,), svcs=(2,), dyns="OneRaise")),
    "shifted_ignores_policy": ({"InvOrder", "InvCapacity"}, dict(kinds=("shifted",), limits=(1,), caps=(1, INF),
                                                                 pols=("lifo",), nitems=(3,), ticks=(0,), hops=(0,),
                                                                 svcs=(1,))),
}
POL_DEVS = {"prio_unstable": "InvOrder", "fair_no_rotate": "InvFairShare", "cap_off_by_one": "InvCapacity",
            "expired_not_counted": "InvConservation"}
# known-finding keys (what fails) -> deviation of QueuePipe.tla that explains it
KEY_DEV = {
    "driver_polls_once_per_wakeup": "poll_once_per_notify",
    "double_poll_overadmits_non_rejecting_worker": "poll_ignores_inflight",
    "capacity_raise_does_not_wake_driver": "capacity_raise_no_wake",
    "set_limit_raise_does_not_wake_driver": "set_limit_no_wake",
    "empty_policy_replaced_by_fifo": "shifted_ignores_policy",
}


def S(xs):
    return "{" + ",".join(f'"{x}"' if isinstance(x, str) else str(x) for x in xs) + "}"


def as_code_dev():
    """Deviations the pinned code is known to have (open known findings of C08)."""
    return sorted({e["deviation"] for e in load_known().get("open", [])
                   if e["property"] == "C08" and e.get("deviation")})


def pipe_consts(dev=(), keeplog=False, kinds=("server",), limits=(1, 2), caps=(1, INF), pols=("fifo",),
                nitems=(3,), ticks=(0, 1), hops=(0, 1, 2), svcs=(0, 1), prios=(0,), flows=(1,), shts=(0,), shls=(0,),
                dyns="NoDyn"):
    return {"Dev": S(dev), "PDev": "{}", "KeepLog": "TRUE" if keeplog else "FALSE", "Kinds": S(kinds),
            "Limits": S(limits), "Caps": S(caps), "Pols": S(pols), "NItems": S(nitems), "Ticks": S(ticks),
            "Hops": S(hops), "Svcs": S(svcs), "Prios": S(prios), "Flows": S(flows), "ShiftTs": S(shts),
            "ShiftLs": S(shls), "Dyns": f"<- {dyns}"}


def pol_consts(pdev=(), maxops=5, nf=3, params="MCAll", weights="MCWeights"):
    return {"PDev": S(pdev), "MaxOps": maxops, "MaxP": 2, "NF": nf, "MaxNow": 2,
            "ParamSet": f"<- {params}", "WSet": f"<- {weights}"}


# ---------------------------------------------------------------------------
# TLC jobs, run concurrently (each in its own work directory)

class Job:
    def __init__(self, name, module, consts, invs=(), props=(), spec=None, workers=1, dump=False, timeout=3000,
                 count=True, note="", expect=None):
        self.name, self.module, self.consts, self.invs, self.props = name, module, consts, list(invs), list(props)
        self.spec, self.workers, self.dump, self.timeout = spec, workers, dump, timeout
        self.count, self.note, self.expect = count, note, expect
        self.label = "C08_" + "".join(c if c.isalnum() else "_" for c in name)
        self.res = None
        self.err = None

    def run(self):
        try:
            wd = tlc.workdir(self.label)
            cfg = tlc.write_cfg(wd / "mc.cfg", spec=self.spec, constants=self.consts, invariants=self.invs,
                                properties=self.props)
            extra = ["-dump", str(wd / "states")] if self.dump else None
            self.res = tlc.run(SPEC / self.module, cfg, label=self.label, workers=self.workers,
                               timeout=self.timeout, extra=extra, env=JVM_ENV)
        except Exception as ex:     # noqa: BLE001 - reported by the caller as a machinery error
            self.err = ex
        return self

    @property
    def dump_path(self):
        return tlc.WORK / self.label / "states.dump"


def run_jobs(jobs, parallel):
    with ThreadPoolExecutor(max_workers=parallel) as ex:
        list(ex.map(lambda j: j.run(), jobs))
    for j in jobs:
        if j.err is not None:
            raise j.err


def model_check(chk: Check, tier):
    total = max(2, tlc.DEFAULT_WORKERS)
    big, mid = max(1, total // 3), max(1, total // 6)
    quick = tier == "quick"
    ascode = as_code_dev()
    jobs = []
    # --- the design holds without deviations -------------------------------------------------
    if quick:
        jobs.append(Job("pipe server Dev={} N=3", "QueuePipe.tla", pipe_consts(), PIPE_INVS, workers=big))
    else:
        jobs.append(Job("pipe server Dev={} N=3 ticks 0..2 svc 0..2", "QueuePipe.tla",
                        pipe_consts(caps=(1, INF), ticks=(0, 1, 2), svcs=(0, 1, 2)), PIPE_INVS, workers=big,
                        timeout=7000))
        jobs.append(Job("pipe server Dev={} N=3 cap 2", "QueuePipe.tla",
                        pipe_consts(caps=(2,), svcs=(0, 1, 2)), PIPE_INVS, workers=mid, timeout=7000))
        jobs.append(Job("pipe server Dev={} N=4", "QueuePipe.tla",
                        pipe_consts(nitems=(4,), hops=(0, 2), caps=(2, INF)), PIPE_INVS, workers=big, timeout=7000))
        jobs.append(Job("pipe server liveness (Settles)", "QueuePipe.tla",
                        pipe_consts(nitems=(2,), caps=(1, INF)), [], props=["Settles"], spec="FairSpec", workers=1))
    jobs.append(Job("pipe shifted Dev={} N=3", "QueuePipe.tla",
                    pipe_consts(kinds=("shifted",), limits=(0, 1, 2), caps=(INF,), hops=(0, 1), svcs=(1,),
                                ticks=(0, 1, 2), shts=(0, 1, 2), shls=(0, 2) if quick else (0, 1, 2)),
                    PIPE_INVS, workers=mid))
    jobs.append(Job("pipe lifo/prio Dev={} N=3", "QueuePipe.tla",
                    pipe_consts(kinds=("server",) if quick else ("server", "shifted"), pols=("lifo", "prio"),
                                prios=(0, 1), hops=(0, 1), svcs=(1,), caps=(2,) if quick else (2, INF), limits=(1, 2)),
                    PIPE_INVS, workers=mid))
    # --- each deviation alone is caught ------------------------------------------------------
    for dev, (invs, kw) in PIPE_DEVS.items():
        jobs.append(Job(f"pipe Dev={{{dev}}}", "QueuePipe.tla", pipe_consts(dev=[dev], keeplog=True, **kw), PIPE_INVS,
                        count=False, note="sensitivity run, must violate", expect=invs))
    # --- the code as it is: nothing is lost or duplicated; terminal behaviours for the replay ----
    n_gen = 2 if quick else 3
    jobs.append(Job("pipe as-code server (behaviours)", "QueuePipe.tla",
                    pipe_consts(dev=ascode, keeplog=True, nitems=(n_gen,), caps=(1, INF), svcs=(0, 1, 2) if quick else (0, 1)),
                    ASCODE_INVS, workers=mid, dump=True, note="terminal states = behaviours replayed on the code"))
    jobs.append(Job("pipe as-code shifted (behaviours)", "QueuePipe.tla",
                    pipe_consts(dev=ascode, keeplog=True, kinds=("shifted",), limits=(0, 1, 2), caps=(1, INF),
                                pols=("fifo", "lifo"), nitems=(n_gen,), hops=(0, 1), svcs=(1,), ticks=(0, 1, 2),
                                shts=(0, 1) if quick else (0, 1, 2), shls=(0, 2)),
                    ASCODE_INVS, workers=mid, dump=True, note="terminal states = behaviours replayed on the code"))
    # --- policy machines -----------------------------------------------------------------------
    jobs.append(Job("policies PDev={}", "PoliciesMC.tla", pol_consts(maxops=5 if quick else 6), POL_INVS, workers=mid))
    for dev, inv in POL_DEVS.items():
        jobs.append(Job(f"policies PDev={{{dev}}}", "PoliciesMC.tla",
                        pol_consts(pdev=[dev], maxops=5, params="MCFair" if dev.startswith("fair") else "MCBasic"),
                        POL_INVS, count=False, note="sensitivity run, must violate", expect={inv}))
    jobs.append(Job("policies histories", "PoliciesMC.tla", pol_consts(maxops=4 if quick else 5), [], dump=True,
                    count=False, note="maximal histories replayed on the real policy objects"))
    run_jobs(jobs, parallel=max(2, min(8, total // 2)))
    out = {}
    for j in jobs:
        chk.add_tlc(j.name, j.res, count=j.count, note=j.note)
        if j.expect is None:
            chk.require(j.res.ok, f"{j.name}: violates {j.res.violated} (the model itself is wrong)")
        else:
            dev = j.name[j.name.index("{") + 1:j.name.index("}")]
            chk.require(j.res.violated in j.expect, f"deviation {dev} not caught (got {j.res.violated})")
            chk.sensitivity[dev] = j.res.violated
        out[j.name] = j
    return out


# ---------------------------------------------------------------------------
# trace validation

def trace_cfg(wd, dev):
    empty = "{}"
    return tlc.write_cfg(wd / "trace.cfg", spec="TSpec", constants={
        "Dev": S(dev), "KeepLog": "TRUE", "PDev": empty, "Kinds": empty, "Limits": empty, "Caps": empty,
        "Pols": empty, "NItems": empty, "Ticks": empty, "Hops": empty, "Svcs": empty, "Prios": empty,
        "Flows": empty, "ShiftTs": empty, "ShiftLs": empty, "Dyns": empty})


def validate(traces, dev, label, parallel=4):
    """-> ({id: (verdict, pos, mverdict, mpos, qverdict, qpos)}, [TLCResult])"""
    if not traces:
        return {}, []
    nchunk = max(1, min(parallel, (len(traces) + 199) // 200))
    size = (len(traces) + nchunk - 1) // nchunk
    parts = [traces[k:k + size] for k in range(0, len(traces), size)]

    def one(args):
        k, part = args
        lab = f"{label}_{k}"
        wd = tlc.workdir(lab)
        cfg = trace_cfg(wd, dev)
        f = wd / "traces.json"
        slim = [{kk: v for kk, v in t.items() if kk not in ("wk", "meta")} for t in part]
        f.write_text(json.dumps(slim, separators=(",", ":")))
        res = tlc.run(SPEC / "QueueTrace.tla", cfg, label=lab, workers=1, timeout=7000, env=dict(JVM_ENV, TRACE_FILE=str(f)))
        got, parts3 = {}, {"V": {}, "M": {}, "Q": {}}
        for v in res.printed:
            if isinstance(v, tuple) and len(v) == 4 and v[0] in parts3:
                parts3[v[0]][v[1]] = (v[2], v[3])
        for t in part:
            i = t["id"]
            if i in parts3["V"] and i in parts3["M"] and i in parts3["Q"]:
                got[i] = parts3["V"][i] + parts3["M"][i] + parts3["Q"][i]
        miss = [t["id"] for t in part if t["id"] not in got]
        if miss:
            raise tlc.TLCFailure(f"{lab}: no verdict for traces {miss[:3]} (see {wd / 'tlc.out'})")
        f.unlink()
        return got, res

    verdicts, results = {}, []
    with ThreadPoolExecutor(max_workers=len(parts)) as ex:
        for got, res in ex.map(one, list(enumerate(parts))):
            verdicts.update(got)
            results.append(res)
    return verdicts, results


# ---------------------------------------------------------------------------
# naming a contract failure by what fails (known findings are matched by this key, never by property)

def classify(tr, verdict, pos, model_agrees=False):
    """Key of a contract failure = what fails.  `model_agrees`: the QueuePipe machine with the known
    deviations reproduced the whole observed log (rule R4), so the failure is one the model predicts
    and only has to be attributed to the deviation that produces this clause."""
    clause = verdict[5:]
    log = tr["log"]
    wk = tr.get("wk", "")
    prev = log[:pos - 1]
    if clause in ("idle_wait", "stranded") and prev:
        T = prev[-1][2]
        at_T = [(k, r) for k, r in enumerate(prev) if r[2] == T]
        lim = tr["lim0"]
        raised_at = None
        for k, r in enumerate(prev):
            if r[0] == "lim" and r[4] > lim and r[2] == T:
                raised_at = k
            lim = r[4]
        pops_T = [k for k, r in at_T if r[0] == "pop"]
        if raised_at is not None and not any(k > raised_at for k in pops_T):
            # the limit went up at this instant while items were queued and nothing was dequeued afterwards
            # (ShiftedServer shift change / DynamicConcurrency.set_limit on a Server: two different sites)
            return ("set_limit_raise_does_not_wake_driver" if wk == "server_dyn"
                    else "capacity_raise_does_not_wake_driver")
        pops = [k for k, r in enumerate(prev) if r[0] == "pop"]
        if pops:
            k = pops[-1]
            item, t_pop = prev[k][1], prev[k][2]
            s_idx = next((kk for kk in range(k + 1, len(prev))
                          if prev[kk][0] == "sta" and prev[kk][1] == item and prev[kk][2] == t_pop), None)
            if s_idx is not None:
                later = prev[s_idx + 1:]
                woken = any(r[0] in ("fin", "pop0", "rjq") or r[5] == 0 or (r[0] == "lim") for r in later)
                if not woken and prev[s_idx][5] >= 1:
                    # the driver dequeued one item, it began service with work still queued and capacity left,
                    # and since then nothing that wakes the driver happened (no completion, the queue never
                    # ran empty): it polls once per wake-up and never again after a start
                    return "driver_polls_once_per_wakeup"
        if model_agrees:
            return "driver_polls_once_per_wakeup"
        return clause
    if clause == "limit" and wk != "server" and pos >= 1:
        item = log[pos - 1][1]
        transit, n_s, lim, pops_at = set(), 0, tr["lim0"], {}
        hit = None
        for r in prev:
            lim = r[4]
            if r[0] == "pop":
                if r[1] == item:
                    # free slots when the item was taken from the queue, and earlier dequeues at that instant
                    hit = (lim - n_s - len(transit), pops_at.get(r[2], 0))
                    break
                transit.add(r[1])
                pops_at[r[2]] = pops_at.get(r[2], 0) + 1
            elif r[0] == "sta":
                transit.discard(r[1])
                n_s += 1
            elif r[0] == "fin":
                n_s -= 1
            elif r[0] in ("rjq", "req"):
                transit.discard(r[1])
        if hit is not None and hit[0] <= 0 and hit[1] >= 1:
            # a second poll of the same instant dequeued the item although the slot it was issued for had
            # already been given to the delivery in flight (has_capacity ignores polls / deliveries in flight)
            return "double_poll_overadmits_non_rejecting_worker"
        if model_agrees:
            return "double_poll_overadmits_non_rejecting_worker"
        return clause
    if clause in ("order", "capacity", "fair_share", "reject_not_counted", "conservation",
                  "dequeued_item_not_waiting") and wk in ("shifted", "reneging"):
        prm = tr["prm"]
        plain = prm["kind"] == "fifo" and prm["cap"] >= INF and prm["thr"] >= INF
        pops = [r[1] for r in log if r[0] == "pop"]
        pushed = [r[1] for r in log if r[0] == "psh"]
        fifo_like = pops == pushed[:len(pops)] and not any(r[0] == "rej" for r in log)
        if not plain and fifo_like:
            # configured policy never consulted: the component behaves as an unbounded FIFO
            return "empty_policy_replaced_by_fifo"
    if clause in ("conservation", "capacity", "reject_not_counted", "dropped_item_not_waiting", "order", "fair_share"):
        # policy-level clause: name the policy whose bookkeeping / order fails
        return f"{clause}:{tr['prm']['kind']}"
    return clause


# ---------------------------------------------------------------------------
# generators of real executions

def sc_from_state(st):
    s = st["sc"]
    return {"wk": s["wk"], "lim": s["lim"], "prm": dict(s["prm"]), "W": list(s["W"]),
            "arr": [dict(t=a["t"], h=a["h"], s=a["s"], p=a["p"], f=a["f"]) for a in s["arr"]],
            "sh": {"t": s["sh"]["t"], "l": s["sh"]["l"]}, "dyn": [dict(d) for d in s["dyn"]], "rt": s["rt"],
            "endt": s["endt"]}


POLICY_KINDS = ("fifo", "lifo", "prio", "deadline", "fair", "wfair")


def random_scenario(rng, k):
    """Scenario beyond the bounds of the model-checked configurations: more items, ticks, hops, limits,
    every policy, balking, forwarders that re-use the event object, set_limit calls, shift changes."""
    wk = "shifted" if k % 3 == 0 else "server"
    kind = ALL_KINDS[(k // 3) % len(ALL_KINDS)] if k % 2 else rng.choice(("fifo", "fifo", "lifo", "prio"))
    nf = rng.randint(1, 3) if kind in ("fair", "wfair") else 1
    n = rng.randint(2, 8)
    burst = rng.random() < 0.6
    tmax = rng.choice((0, 1, 2, 4))
    s_all = rng.randint(0, 3)
    arr = []
    for _ in range(n):
        t = rng.choice((0, tmax)) if burst else rng.randint(0, tmax)
        p = (t + rng.randint(0, 4)) if kind == "deadline" else rng.randint(0, 2) if kind == "prio" else 0
        arr.append(dict(t=t, h=rng.choice((0, 0, 1, 2, 3)), s=s_all if wk == "shifted" else rng.randint(0, 3),
                        p=p, f=rng.randint(1, nf)))
    prm = {}
    cap = rng.choice((1, 2, 3, INF, INF))
    if kind == "fair":
        cap = INF
        prm = dict(pfc=rng.choice((1, 2, INF)), mxf=rng.choice((2, 3, INF)))
    if kind == "wfair":
        prm = dict(pfc=rng.choice((1, 2, INF, INF)))
    if kind in ("fifo", "prio") and rng.random() < 0.25:
        prm = dict(thr=rng.randint(1, 3), bm=rng.choice((0, 1, 2)))
    Wt = [rng.choice((1, 2, 3, 0)) for _ in range(nf)] if kind == "wfair" else [1] * nf
    lim = rng.randint(1, 3)
    sh, dyn = (0, 0), ()
    if wk == "shifted":
        lim = rng.randint(0, 3)
        if rng.random() < 0.6:
            sh = (rng.randint(1, 4), rng.randint(0, 3))
    elif k % 7 == 3:
        dyn = sorted((rng.randint(0, 4), rng.randint(1, 4)) for _ in range(rng.randint(1, 3)))
    return W.mk_sc(wk=wk, lim=lim, kind=kind, cap=cap, arr=arr, sh=sh, dyn=dyn, rt=1 if rng.random() < 0.25 else 0,
                   W=Wt, **prm)


ALL_KINDS = POLICY_KINDS + W.UNMODELLED


def overload_policy_case(rng, kind):
    """Sustained overload over simulated time on a bare policy: every tick 2-4 pushes against about one
    pop, for 8-30 ticks (a standing queue: CoDel enters and stays in its dropping state, RED's average
    climbs past its thresholds, AdaptiveLIFO stays congested), then the queue is drained over time."""
    nf = rng.randint(2, 3) if kind in ("fair", "wfair") else 1
    prm = dict(kind=kind, cap=rng.choice((INF, INF, 8, 20)), pfc=INF, mxf=INF, thr=INF, bm=0)
    if kind == "fair":
        prm["cap"] = INF
    Wt = [rng.randint(1, 3) for _ in range(nf)] if kind == "wfair" else [1] * nf
    ops = []
    now = 0
    for _ in range(rng.randint(8, 30)):
        for _ in range(rng.randint(2, 4)):
            ops.append(("psh", now + rng.randint(1, 6) if kind == "deadline" else rng.randint(0, 2), rng.randint(1, nf)))
        for _ in range(rng.choice((0, 1, 1, 1, 2))):
            ops.append(("pop",))
        ops.append(("tick",))
        now += 1
    for _ in range(rng.randint(0, 12)):
        ops.append(("pop",))
        if rng.random() < 0.7:
            ops.append(("tick",))
    return prm, Wt, ops


def overload_scenario(rng, kind):
    """Server at 2-4x overload for clearly longer than CoDel's interval (2 ticks): limit 1-2, service 1-2
    ticks, 2-4 arrivals per tick for 6-14 ticks."""
    lim = rng.randint(1, 2)
    svc = rng.randint(1, 2)
    rate = rng.randint(2, 4) * lim
    nf = rng.randint(2, 3) if kind in ("fair", "wfair") else 1
    arr = []
    for t in range(rng.randint(6, 14)):
        for _ in range(max(1, rate // svc) if rng.random() < 0.8 else 1):
            arr.append(dict(t=t, h=rng.choice((0, 0, 1)), s=svc, f=rng.randint(1, nf),
                            p=(t + rng.randint(2, 8)) if kind == "deadline" else rng.randint(0, 2) if kind == "prio" else 0))
    Wt = [rng.randint(1, 3) for _ in range(nf)] if kind == "wfair" else [1] * nf
    return W.mk_sc(wk="server", lim=lim, kind=kind, cap=rng.choice((INF, INF, 10)), arr=arr, W=Wt)


def raise_while_busy_scenario(rng):
    """ShiftedServer: a shift adds workers while the old crew is busy and a backlog is queued."""
    lim = rng.randint(1, 2)
    svc = rng.randint(2, 4)
    n = lim + rng.randint(1, 4)
    arr = [dict(t=rng.choice((0, 0, 1)), h=rng.choice((0, 0, 1)), s=svc) for _ in range(n)]
    return W.mk_sc(wk="shifted", lim=lim, arr=arr, sh=(rng.randint(1, svc), lim + rng.randint(1, 2)),
                   kind=rng.choice(("fifo", "fifo", "lifo")))


def random_policy_case(rng):
    kind = rng.choice(ALL_KINDS if rng.random() < 0.3 else POLICY_KINDS)
    nf = rng.randint(1, 4) if kind in ("fair", "wfair") else 1
    prm = dict(kind=kind, cap=rng.choice((1, 2, 3, 5, INF, INF)), pfc=INF, mxf=INF, thr=INF, bm=0)
    if kind == "fair":
        prm["cap"] = INF
        prm["pfc"] = rng.choice((1, 2, 3, INF))
        prm["mxf"] = rng.choice((1, 2, 3, INF))
    if kind == "wfair":
        prm["pfc"] = rng.choice((1, 2, INF, INF))
    if kind in ("fifo", "lifo", "prio", "deadline") and rng.random() < 0.3:
        prm["thr"] = rng.randint(0, 3)
        prm["bm"] = rng.choice((0, 1, 2))
    Wt = [rng.choice((1, 1, 2, 3, 0)) for _ in range(nf)] if kind == "wfair" else [1] * nf
    ops = []
    for _ in range(rng.randint(4, 26)):
        r = rng.random()
        if r < 0.55:
            ops.append(("psh", rng.randint(0, 4) if kind in ("prio", "deadline") else 0, rng.randint(1, nf)))
        elif r < 0.9 or kind not in ("deadline", "codel"):
            ops.append(("pop",))
        else:
            ops.append(("tick",))
    return prm, Wt, ops


# ---------------------------------------------------------------------------

def run(tier, seed, replay=None):
    quiet_logging()
    chk = Check("C08", tier, seed)
    rng = random.Random(seed)
    quick = tier == "quick"
    ascode = as_code_dev()
    if replay:
        return run_replay(chk, replay, ascode)
    t0 = time.time()
    jobs = model_check(chk, tier)
    chk.extra["wall_model_check_s"] = round(time.time() - t0, 1)
    return real_runs(chk, tier, rng, jobs, ascode)


def real_runs(chk, tier, rng, jobs, ascode):
    quick = tier == "quick"

    traces, meta = [], {}

    def add(tr, origin, regen, err=None):
        tid = len(traces) + 1
        tr["id"] = tid
        traces.append(tr)
        meta[tid] = dict(origin=origin, regen=regen)
        chk.impl_steps += len(tr["log"])
        if err:
            chk.violation(f"exception:{err.split(':')[0]}", f"real code raised {err}", {"regen": regen})
        return tid

    # ---- spec -> code: every terminal behaviour of the bounded as-code model ----------------------
    t0 = time.time()
    behaviours = []
    for name in ("pipe as-code server (behaviours)", "pipe as-code shifted (behaviours)"):
        if name not in jobs:
            continue
        j = jobs[name]
        for st in tlc.parse_dump(j.dump_path, must_contain="fin |-> TRUE"):
            behaviours.append((sc_from_state(st), [list(r) for r in st["m"]["log"]]))
        j.dump_path.unlink(missing_ok=True)
    chk.extra["model_behaviours_total"] = len(behaviours)
    cap = 500 if quick else len(behaviours)
    chosen = behaviours if len(behaviours) <= cap else rng.sample(behaviours, cap)
    chk.exhaustive = len(chosen) == len(behaviours)
    matched = 0
    for k, (sc, mlog) in enumerate(chosen):
        tick = (10 ** 9, 3 * 10 ** 9, 3600 * 10 ** 9)[k % 3]
        tr, err = W.run_scenario(sc, tick_ns=tick)
        add(tr, "model", ["scenario", sc, tick], err)
        olog = [r[:6] for r in tr["log"] if r[0] not in ("snk", "end")]
        if olog == mlog:
            matched += 1
        else:
            first = next((i for i, (a, b) in enumerate(zip(olog, mlog)) if a != b), min(len(olog), len(mlog)))
            chk.note_drift(f"behaviour of QueuePipe.tla differs from the code at record {first + 1}: "
                           f"model={mlog[first:first + 1]} code={olog[first:first + 1]} scenario={sc}")
        chk.replays += 1
    chk.extra["replay_state_matched"] = matched
    chk.extra["replay_total"] = len(chosen)

    # TLC counterexamples of the deviations, executed on the real code
    cex = {}
    for dev in PIPE_DEVS:
        j = jobs.get(f"pipe Dev={{{dev}}}")
        if j is not None and j.res.trace:
            sc = sc_from_state(j.res.trace[0][1])
            tr, err = W.run_scenario(sc)
            cex[add(tr, f"counterexample:{dev}", ["scenario", sc, 10 ** 9], err)] = dev
            chk.replays += 1

    # policy histories of the model on the real policy objects
    pj = jobs.get("policies histories")
    maxops = 4 if quick else 5
    hist_total = hist_match = 0
    pol_cases = []
    if pj is not None:
        for st in tlc.parse_dump(pj.dump_path, must_contain=f"n = {maxops}"):
            pol_cases.append(st)
        pj.dump_path.unlink(missing_ok=True)
    capp = 300 if quick else min(5000, len(pol_cases))
    chosen_p = pol_cases if len(pol_cases) <= capp else rng.sample(pol_cases, capp)
    for st in chosen_p:
        prm = dict(st["prm"])
        Wt = list(st["W"])
        ops = [("psh", h[1], h[2]) if h[0] == "psh" else (h[0],) for h in st["hist"]]
        tr, results = W.run_policy_ops(prm, Wt, ops)
        hist_total += 1
        if [tuple(r) for r in results] == [tuple(h) for h in st["hist"]]:
            hist_match += 1
        else:
            chk.note_drift(f"policy history differs: prm={prm} W={Wt} model={st['hist']} code={results}")
        add(tr, "model-policy", ["policy", prm, Wt, ops, 0])
        chk.replays += 1
    chk.extra["policy_histories_total"] = len(pol_cases)
    chk.extra["policy_histories_replayed"] = hist_total
    chk.extra["policy_histories_matched"] = hist_match
    chk.extra["wall_spec_to_code_s"] = round(time.time() - t0, 1)

    # ---- code -> spec: executions beyond the bounds -------------------------------------------------
    t0 = time.time()
    n_sc = 600 if quick else 6000
    for k in range(n_sc):
        sc = random_scenario(rng, k)
        tick = (10 ** 9, 2 * 10 ** 9, 60 * 10 ** 9)[k % 3]
        end_tick = rng.randint(2, 10) if k % 5 == 4 else None
        weights = [rng.randint(1, 2) for _ in sc["arr"]] if (k % 11 == 5 and sc["wk"] == "server" and not sc["dyn"]) else None
        if weights:
            sc["lim"] = rng.randint(2, 4)
        sd = rng.randrange(10 ** 6)
        tr, err = W.run_scenario(sc, tick_ns=tick, end_tick=end_tick, seed=sd, weights=weights)
        add(tr, "random-scenario", ["scenario", sc, tick, end_tick, sd, weights], err)
    n_pol = 400 if quick else 5000
    for k in range(n_pol):
        prm, Wt, ops = random_policy_case(rng)
        sd = rng.randrange(10 ** 6)
        tr, _ = W.run_policy_ops(prm, Wt, ops, seed=sd)
        add(tr, "random-policy", ["policy", prm, Wt, ops, sd])
    # sustained overload over simulated time: bare policies with a clock, and Server pipelines
    n_ov = 4 if quick else 40
    for k in range(n_ov * len(ALL_KINDS)):
        kind = ALL_KINDS[k % len(ALL_KINDS)]
        prm, Wt, ops = overload_policy_case(rng, kind)
        sd = rng.randrange(10 ** 6)
        tr, _ = W.run_policy_ops(prm, Wt, ops, seed=sd)
        add(tr, "overload-policy", ["policy", prm, Wt, ops, sd])
    n_ovp = 2 if quick else 20
    for k in range(n_ovp * len(ALL_KINDS)):
        kind = ALL_KINDS[k % len(ALL_KINDS)]
        sc = overload_scenario(rng, kind)
        sd = rng.randrange(10 ** 6)
        tr, err = W.run_scenario(sc, seed=sd)
        add(tr, "overload-pipeline", ["scenario", sc, 10 ** 9, None, sd, None], err)
    for k in range(20 if quick else 300):
        sc = raise_while_busy_scenario(rng)
        tr, err = W.run_scenario(sc)
        add(tr, "shift-raise-while-busy", ["scenario", sc, 10 ** 9, None, 0, None], err)
    n_topo = 50 if quick else 600
    for k in range(n_topo):
        sd = rng.randrange(10 ** 9)
        trs, err, _ = W.run_topology(random.Random(sd))
        for tr in trs:
            add(tr, "topology", ["topology", sd], err)
    n_st = 30 if quick else 400
    for k in range(n_st):
        for fn in W.STATIONS:
            sd = rng.randrange(10 ** 9)
            tr, err = fn(random.Random(sd))
            add(tr, f"station:{fn.__name__}", ["station", fn.__name__, sd], err)
    chk.extra["wall_real_runs_s"] = round(time.time() - t0, 1)

    t0 = time.time()
    judge(chk, traces, meta, ascode, cex)
    chk.extra["wall_trace_validation_s"] = round(time.time() - t0, 1)
    for t in (traces[0], traces[len(traces) // 2], traces[-1]):
        chk.sample({"trace": {k: v for k, v in t.items() if k != "sc" or t["hassc"]}, "meta": meta[t["id"]]})
    finish_notes(chk)
    return chk.finish()


def judge(chk, traces, meta, ascode, cex=None, second_pass=True):
    cex = cex or {}
    verdicts, results = validate(traces, ascode, "C08_trace" if second_pass else "C08_trace2",
                                 parallel=max(1, min(8, tlc.DEFAULT_WORKERS // 2)))
    for r in results:
        chk.add_tlc("QueueTrace batch", r, note="trace validation: contract on the observed log + model comparison")
    if second_pass:
        chk.impl_traces += len(traces)
    by_origin, confirmed = {}, {}
    drift_n = 0
    for tr in traces:
        tid = tr["id"]
        v, pos, mv, mpos, qv, qpos = verdicts[tid]
        m = meta[tid]
        o = by_origin.setdefault(m["origin"].split(":")[0], {"traces": 0, "accept": 0, "prop": 0, "drift": 0})
        o["traces"] += 1
        if v == "ACCEPT":
            o["accept"] += 1
        else:
            o["prop"] += 1
            key = classify(tr, v, pos, model_agrees=(tr["hassc"] == 1 and qv == "OK"))
            dev = KEY_DEV.get(key)
            # a known finding explains the failure only if the implementation model (with the known
            # deviations) agreed with the code up to the failing record
            if dev is not None and key in chk.known_open and tr["hassc"] == 1 and qv != "OK" and qpos <= pos:
                key = v[5:] + "_unmodelled"
            chk.violation(key, f"{v} at record {pos} of a {m['origin']} execution "
                               f"(component {tr.get('wk')}, policy {tr['prm']['kind']})",
                          {"regen": m["regen"], "verdict": [v, pos], "trace": tr})
            if tid in cex:
                confirmed[cex[tid]] = key
        for what, p in ((mv, mpos), (qv, qpos)):
            if what != "OK" and second_pass:
                o["drift"] += 1
                drift_n += 1
                chk.note_drift(f"trace {tid} ({m['origin']}): {what} at record {p}; regen={m['regen']}")
    if not second_pass:
        chk.extra["by_origin_pass2"] = by_origin
        return
    chk.extra["by_origin"] = by_origin
    chk.extra["counterexamples_confirmed_on_code"] = confirmed
    chk.extra["drift_traces"] = drift_n
    # Second pass: an execution whose first failure is the known waiting-next-to-a-free-slot defect is judged
    # again with clause (c) switched off, so that the rest of it is still checked for the other clauses.
    again, meta2 = [], {}
    for tr in traces:
        v, pos = verdicts[tr["id"]][:2]
        if v in ("PROP:idle_wait", "PROP:stranded") and tr["idle"] == 1:
            key = classify(tr, v, pos, model_agrees=(tr["hassc"] == 1 and verdicts[tr["id"]][4] == "OK"))
            if key in KEY_DEV and key in chk.known_open:
                t2 = dict(tr, idle=0, id=len(again) + 1)
                again.append(t2)
                meta2[t2["id"]] = dict(origin=meta[tr["id"]]["origin"] + "+pass2", regen=meta[tr["id"]]["regen"])
    if again:
        judge(chk, again, meta2, ascode, second_pass=False)


def finish_notes(chk):
    chk.assumptions = [
        "items are identified by an id carried in event.context['metadata']; observation points are harness-side "
        "instance wrappers (queue handler, worker adapter, resource handler) and a recording proxy around the "
        "installed QueuePolicy; nothing in /repo is edited",
        "ticks are whole seconds, so float second <-> nanosecond conversions are exact (float truncation is C07's topic)",
        "Server discarding an already accepted request when acquire() fails after the dequeue counts as "
        "'rejected-and-counted' (requests_rejected), as the statement allows",
        "clause (b) is judged when service begins, against the larger of the limit in force then and at the dequeue "
        "(a limit lowered in between is read in favour of the code); work already in service when a limit drops is not judged",
        "clause (c) is judged at every clock advance between two observed records and at the end of the run; for the "
        "deadline policy only items that are still valid at the next instant count as waiting",
        "fair share is read as: between two services of a backlogged flow g, another flow f is served at most weight(f) times",
        "BatchProcessor waits for a batch by design: clause (c) is not applied to it; WeightedConcurrency runs are "
        "judged on (a), (b), (d), (e) only (the driver asks has_capacity() for weight 1)",
    ]
    chk.explanation = (
        "TLC explores QueuePipe.tla (Queue/QueueDriver/worker on the engine heap; all arrival patterns of <=3-4 items "
        "over 2-3 ticks through 0-2 extra hops, service times 0-2, limits 1-2 (0-2 with one shift change), capacities "
        "1/2/unbounded, FIFO/LIFO/priority) and PoliciesMC.tla (all call sequences of length <=5-6 for FIFO, LIFO, "
        "stable priority, deadline, fair, weighted fair, balking) against the contract; each deviation alone is caught. "
        "All terminal behaviours of the as-code model and all maximal policy histories are executed on the real objects "
        "and compared record by record; thousands of recorded real executions beyond the bounds are judged by QueueTrace.tla.")


def regen_trace(regen):
    kind = regen[0]
    if kind == "scenario":
        sc, tick = regen[1], regen[2]
        end_tick = regen[3] if len(regen) > 3 else None
        sd = regen[4] if len(regen) > 4 else 0
        weights = regen[5] if len(regen) > 5 else None
        return W.run_scenario(sc, tick_ns=tick, end_tick=end_tick, seed=sd, weights=weights)[0]
    if kind == "policy":
        prm, Wt, ops, sd = regen[1:5]
        return W.run_policy_ops(prm, Wt, [tuple(o) for o in ops], seed=sd)[0]
    if kind == "topology":
        return W.run_topology(random.Random(regen[1]))[0]
    if kind == "station":
        fn = {f.__name__: f for f in W.STATIONS}[regen[1]]
        return fn(random.Random(regen[2]))[0]
    raise ValueError(kind)


def run_replay(chk, path, ascode):
    data = json.loads(open(path).read())
    rp = data["replay"]
    got = regen_trace(rp["regen"])
    trs = got if isinstance(got, list) else [got]
    if "trace" in rp and isinstance(got, list):
        # topology: pick the component whose recorded log matches the saved one best
        trs = [t for t in trs if t["prm"] == rp["trace"]["prm"] and t["lim0"] == rp["trace"]["lim0"]] or trs
    traces, meta = [], {}
    for tr in trs:
        tr["id"] = len(traces) + 1
        traces.append(tr)
        meta[tr["id"]] = dict(origin="replay", regen=rp["regen"])
        chk.impl_steps += len(tr["log"])
    judge(chk, traces, meta, ascode)
    finish_notes(chk)
    return chk.finish()
