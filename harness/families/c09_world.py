"""C09 real-code side: worker processes (acquire; hold; release) inside a real Simulation.

A *scenario* is a plain dict (json-able, so it can be stored as a replay):
  {"prim": class name, "kind": "fifo"|"rwlock"|"bulkhead"|"try", "cap": C, "qmax": Q, "max_wait": ticks|None,
   "tick_ns": ns per tick, "order": permutation of worker indices (scheduling order of the start events),
   "workers": [{"arr": tick, "rounds": [{"pre": ticks, "a": amount, "m": "x"|"r"|"w", "holds": [ticks..]}]}]}
`run_scenario` executes it and returns the recorded trace in the vocabulary of
specs/capacity/CapacityTrace.tla plus meta information (grant instants, abort reason).

Observation uses public API only: the primitives' public counters, `SimFuture.is_resolved`, return values,
`sim.control.on_event / on_time_advance` hooks, and harness-defined entities.  Nothing in /repo is touched.
A spin guard aborts a run whose blocked waiters are re-delivered at a frozen clock.
"""
from __future__ import annotations

from happysimulator.core.entity import Entity
from happysimulator.core.event import Event
from happysimulator.core.simulation import Simulation
from happysimulator.core.temporal import Instant

MAX_DELIVERIES = 60000


class SpinAbort(Exception):
    pass


class Overrun(Exception):
    pass


REJECT = object()


def delay_s(k: int, tick_ns: int) -> float:
    """float seconds that the engine converts to exactly k*tick_ns nanoseconds"""
    if k == 0:
        return 0.0
    d = k * tick_ns / 1e9
    if int(d * 1_000_000_000) != k * tick_ns:
        d = (k * tick_ns + 0.5) / 1e9
        assert int(d * 1_000_000_000) == k * tick_ns
    return d


def _delegate(it, after_first):
    """`yield from it`, calling after_first() once the synchronous head of `it` has run."""
    try:
        y = next(it)
    except StopIteration as e:
        after_first()
        return e.value
    after_first()
    while True:
        s = yield y
        try:
            y = it.send(s)
        except StopIteration as e:
            return e.value


# ---------------------------------------------------------------------------
# adapters: one per primitive class

class _Ad:
    kind = "fifo"
    pl = False            # primitive-level grant observable?
    polling = False       # generator-based acquire (may poll)

    def __init__(self, world, scen):
        self.w = world
        self.cap = scen["cap"]

    def entities(self):
        return [self.prim]

    def scan(self):
        pass


class ResourceAd(_Ad):
    pl = True

    def __init__(self, world, scen):
        super().__init__(world, scen)
        from happysimulator.components.resource import Resource
        self.prim = Resource("prim", capacity=self.cap)
        self.pending = []     # [rid, future]

    def counters(self):
        return self.prim.available, self.prim.waiters

    def _call(self, a):
        return self.prim.acquire(a)

    def acquire(self, wk, a, m):
        fut = self._call(a)
        blk = 0 if fut.is_resolved else 1
        rid = self.w.req(wk, a, m, blk)
        if blk:
            self.pending.append([rid, fut])
        else:
            self.w.grant(rid)
        g = yield fut
        return g

    def release(self, wk, h, a, m):
        h.release()
        if wk.cur.get("dbl"):      # Grant.release is documented as idempotent
            self.w.rec("rel", wk.rid)
            self.w.ad.scan()
            h.release()
            self.w.rec("xrel", wk.rid)

    def scan(self):
        if not self.pending:
            return
        keep = []
        for rid, fut in self.pending:
            if fut.is_resolved:
                self.w.grant(rid)
            else:
                keep.append([rid, fut])
        self.pending = keep


class PreemptibleAd(ResourceAd):
    def __init__(self, world, scen):
        _Ad.__init__(self, world, scen)
        from happysimulator.components.industrial.preemptible_resource import PreemptibleResource
        self.prim = PreemptibleResource("prim", capacity=self.cap)
        self.pending = []

    def counters(self):
        return self.prim.available, -1      # no public waiter count

    def _call(self, a):
        return self.prim.acquire(amount=a, priority=0.0, preempt=False)


class SemaphoreAd(_Ad):
    polling = True

    def __init__(self, world, scen):
        super().__init__(world, scen)
        from happysimulator.components.sync.semaphore import Semaphore
        self.prim = Semaphore("prim", initial_count=self.cap)

    def counters(self):
        return self.prim.available, self.prim.waiters

    def _gen(self, a, m):
        return self.prim.acquire(a)

    def acquire(self, wk, a, m):
        n0 = self.prim.waiters

        def after():
            self.w.req(wk, a, m, 1 if self.prim.waiters > n0 else 0)
        yield from _delegate(self._gen(a, m), after)
        return True

    def release(self, wk, h, a, m):
        self.prim.release(a)


class MutexAd(SemaphoreAd):
    def __init__(self, world, scen):
        _Ad.__init__(self, world, scen)
        from happysimulator.components.sync.mutex import Mutex
        assert self.cap == 1
        self.prim = Mutex("prim")

    def counters(self):
        return (0 if self.prim.is_locked else 1), self.prim.waiters

    def _gen(self, a, m):
        return self.prim.acquire()

    def release(self, wk, h, a, m):
        self.prim.release()


class RWLockAd(SemaphoreAd):
    kind = "rwlock"

    def __init__(self, world, scen):
        _Ad.__init__(self, world, scen)
        from happysimulator.components.sync.rwlock import RWLock
        self.prim = RWLock("prim", max_readers=scen.get("max_readers"))

    def counters(self):
        p = self.prim
        return self.cap - p.active_readers - (self.cap if p.is_write_locked else 0), p.waiters

    def _gen(self, a, m):
        return self.prim.acquire_write() if m == "w" else self.prim.acquire_read()

    def release(self, wk, h, a, m):
        if m == "w":
            self.prim.release_write()
        else:
            self.prim.release_read()


class TryAd(_Ad):
    kind = "try"
    pl = True

    def __init__(self, world, scen):
        super().__init__(world, scen)
        from happysimulator.components.server import concurrency as c
        prim = scen["prim"]
        if prim == "FixedConcurrency":
            self.prim = c.FixedConcurrency(self.cap)
        elif prim == "DynamicConcurrency":
            self.prim = c.DynamicConcurrency(self.cap, min_limit=1, max_limit=self.cap + 2)
        else:
            self.prim = c.WeightedConcurrency(self.cap)

    def entities(self):
        return []

    def counters(self):
        return self.prim.available, 0

    def acquire(self, wk, a, m):
        ok = self.prim.acquire(a)
        rid = self.w.req(wk, a, m, 0 if ok else 2)
        if not ok:
            return REJECT
        self.w.grant(rid)
        return True
        yield  # pragma: no cover  (makes this a generator)

    def release(self, wk, h, a, m):
        self.prim.release(a)


ADAPTERS = {"Resource": ResourceAd, "PreemptibleResource": PreemptibleAd, "Semaphore": SemaphoreAd,
            "Mutex": MutexAd, "RWLock": RWLockAd, "FixedConcurrency": TryAd, "DynamicConcurrency": TryAd,
            "WeightedConcurrency": TryAd}
KIND_OF = {"Resource": "fifo", "PreemptibleResource": "fifo", "Semaphore": "fifo", "Mutex": "fifo",
           "RWLock": "rwlock", "FixedConcurrency": "try", "DynamicConcurrency": "try",
           "WeightedConcurrency": "try", "Bulkhead": "bulkhead"}
POLLING_PRIMS = ("Semaphore", "Mutex", "RWLock", "Barrier", "Condition")


# ---------------------------------------------------------------------------

class Worker(Entity):
    def __init__(self, idx, world, spec):
        super().__init__(f"w{idx}")
        self.idx = idx
        self.world = world
        self.spec = spec
        self.state = "idle"
        self.rid = 0
        self.req_delivery = -1

    def handle_event(self, event):
        return self.body()

    def body(self):
        W = self.world
        for rnd in self.spec["rounds"]:
            if rnd.get("pre"):
                yield W.delay(rnd["pre"])
            a, m = rnd["a"], rnd["m"]
            self.cur = rnd
            h = yield from W.ad.acquire(self, a, m)
            if h is REJECT:
                self.state = "idle"
                continue
            W.got(self)
            for d in rnd["holds"]:
                yield W.delay(d)
            W.ad.release(self, h, a, m)
            self.state = "idle"
            if not (rnd.get("dbl") and W.ad.pl):
                W.rec("rel", self.rid)
            W.ad.scan()
        return None


class World:
    """Counted primitives driven by worker processes."""

    def __init__(self, scen):
        self.scen = scen
        self.tick_ns = scen["tick_ns"]
        self.log = []
        self.nreq = 0
        self.total_req = sum(len(w["rounds"]) for w in scen["workers"])
        self.dirty = False
        self.streak = 0
        self.delivery_no = 0
        self.gt = {}            # rid -> tick of grant
        self.granted = set()
        self.req_of = {}        # rid -> (worker idx, round)
        self.abort = None
        self.err = None
        self.ad = ADAPTERS[scen["prim"]](self, scen)
        self.kind = self.ad.kind
        self.workers = [Worker(i, self, w) for i, w in enumerate(scen["workers"])]
        self.sim = None

    # -- recording ---------------------------------------------------------
    def delay(self, k):
        return delay_s(k, self.tick_ns)

    def tick(self):
        ns = self.sim._clock.now.nanoseconds
        q, r = divmod(ns, self.tick_ns)
        return q if r == 0 else -7

    def rec(self, op, rid=0, a=0, m="x", flag=0, mark=True):
        av, nw = self.ad.counters()
        if op == "q" and self.log and self.log[-1][0] == "q":
            return
        self.log.append([op, rid, a, m, flag, av, nw])
        if mark:
            self.dirty = True

    def req(self, wk, a, m, flag):
        self.nreq += 1
        rid = self.nreq
        wk.rid = rid
        wk.state = "wait" if flag != 2 else "idle"
        wk.req_delivery = self.delivery_no
        self.req_of[rid] = wk.idx
        self.rec("req", rid, a, m, flag)
        if flag == 2:
            self.gt[rid] = -1
        return rid

    def grant(self, rid):
        if rid not in self.granted:
            self.granted.add(rid)
            self.gt[rid] = self.tick()
        self.rec("grant", rid)

    def widx_of(self, rid):
        return self.req_of[rid]

    def got(self, wk):
        wk.state = "hold"
        if wk.rid not in self.granted:
            self.granted.add(wk.rid)
            self.gt[wk.rid] = self.tick()
        self.rec("got", wk.rid)

    # -- hooks ---------------------------------------------------------------
    def _on_event(self, ev):
        tgt = ev.target
        is_poll = isinstance(tgt, Worker) and tgt.state == "wait" and tgt.req_delivery != self.delivery_no
        self.ad.scan()
        if self.dirty:
            self.rec("d")
            self.streak = 0
        elif is_poll:
            self.rec("poll", tgt.rid, mark=False)
            self.streak += 1
            if self.streak > 2 * self.total_req + 4:
                raise SpinAbort()
        elif self.streak:
            self.rec("d")
            self.streak = 0
        self.dirty = False
        self.delivery_no += 1
        if self.delivery_no > MAX_DELIVERIES:
            raise Overrun()

    def _on_time(self, t):
        self.ad.scan()
        self.rec("q", mark=False)
        self.streak = 0

    # -- run -----------------------------------------------------------------
    def build(self):
        ents = self.ad.entities() + list(self.workers)
        self.sim = Simulation(entities=ents)
        for i in self.scen.get("order") or range(len(self.workers)):
            w = self.scen["workers"][i]
            self.sim.schedule(Event(time=Instant(w["arr"] * self.tick_ns), event_type="go",
                                    target=self.workers[i]))
        self.sim.control.on_event(self._on_event)
        self.sim.control.on_time_advance(self._on_time)

    def run(self):
        self.build()
        try:
            self.sim.run()
            self.ad.scan()
            self.rec("q", mark=False)
            self.rec("end", mark=False)
        except SpinAbort:
            self.abort = "spin"
        except Overrun:
            self.abort = "overrun"
        except Exception as ex:      # the real code raised
            self.err = f"{type(ex).__name__}: {ex}"
        return self

    def trace(self, tid):
        return {"id": tid, "kind": self.kind, "cap": self.scen["cap"], "qmax": self.scen.get("qmax", 0),
                "nr": max(self.nreq, 1), "pl": self.ad.pl, "full": getattr(self, "full", True), "log": self.log}


# ---------------------------------------------------------------------------
# Bulkhead: requests are events, the holder is the protected target's handler

class _Backend(Entity):
    def __init__(self, world):
        super().__init__("backend")
        self.world = world

    def handle_event(self, event):
        W = self.world
        md = event.context["metadata"]
        idx = md["widx"]
        rid = W.rid_of[idx]
        W.bhmap[md.get("_bh_request_id")] = rid
        if rid not in W.granted:
            W.granted.add(rid)
            W.gt[rid] = W.tick()
        W.rec("got", rid)
        for d in W.scen["workers"][idx]["rounds"][0]["holds"]:
            yield W.delay(d)
        return None


class _BhAd:
    kind = "bulkhead"
    pl = False
    polling = False

    def __init__(self, world, scen):
        from happysimulator.components.resilience.bulkhead import Bulkhead
        self.backend = _Backend(world)
        mw = scen.get("max_wait")
        self.prim = Bulkhead("prim", target=self.backend, max_concurrent=scen["cap"],
                             max_wait_queue=scen.get("qmax", 0),
                             max_wait_time=None if mw is None else delay_s(mw, scen["tick_ns"]))

    def counters(self):
        return self.prim.max_concurrent - self.prim.active_count, self.prim.queue_depth

    def scan(self):
        pass


class BulkheadWorld(World):
    def __init__(self, scen):
        self.scen = scen
        self.tick_ns = scen["tick_ns"]
        self.log = []
        self.nreq = 0
        self.total_req = len(scen["workers"])
        self.dirty = False
        self.streak = 0
        self.delivery_no = 0
        self.gt = {}
        self.granted = set()
        self.abort = None
        self.err = None
        self.ad = _BhAd(self, scen)
        self.kind = "bulkhead"
        self.rid_of = {}
        self.bhmap = {}
        self.enq_id = {}
        self.waiting = []       # rids queued, in order
        self.sim = None
        self._snap = self._stats()

    def widx_of(self, rid):
        return next(i for i, r in self.rid_of.items() if r == rid)

    def _stats(self):
        s = self.ad.prim.stats
        return (s.accepted_requests, s.queued_requests, s.rejected_requests, s.timed_out_requests)

    def _on_event(self, ev):
        bh = self.ad.prim
        if ev.target is bh:
            before, after = self._snap, self._stats()
            md = ev.context.get("metadata", {})
            et = ev.event_type
            if et == "req":
                self.nreq += 1
                rid = self.nreq
                self.rid_of[md["widx"]] = rid
                if after[2] > before[2]:
                    flag = 2
                    self.gt[rid] = -1
                elif after[1] > before[1]:
                    flag = 1
                    self.enq_id[after[0] + after[1]] = rid
                    self.waiting.append(rid)
                else:
                    flag = 0
                self.rec("req", rid, 1, "x", flag)
            elif et == "_bh_response":
                for _ in range(after[3] - before[3]):      # lazily expired queue entries
                    if self.waiting:
                        self.rec("tmo", self.waiting.pop(0))
                rid = self.bhmap.get(md.get("request_id"))
                if rid is not None:
                    self.rec("rel", rid)
                    if after[0] > before[0] and self.waiting:
                        self.waiting.pop(0)
            elif et == "_bh_timeout":
                if after[3] > before[3]:
                    rid = self.enq_id.get(md.get("request_id"))
                    if rid in self.waiting:
                        self.waiting.remove(rid)
                    self.rec("tmo", rid or 0)
            self._snap = after
        if self.dirty:
            self.rec("d")
        self.dirty = False
        self.delivery_no += 1
        if self.delivery_no > MAX_DELIVERIES:
            raise Overrun()

    def build(self):
        self.sim = Simulation(entities=[self.ad.prim, self.ad.backend])
        for i in self.scen.get("order") or range(len(self.scen["workers"])):
            w = self.scen["workers"][i]
            self.sim.schedule(Event(time=Instant(w["arr"] * self.tick_ns), event_type="req",
                                    target=self.ad.prim, context={"metadata": {"widx": i}}))
        self.sim.control.on_event(self._on_event)
        self.sim.control.on_time_advance(self._on_time)


def run_scenario(scen):
    cls = BulkheadWorld if scen["prim"] == "Bulkhead" else World
    return cls(scen).run()


# ---------------------------------------------------------------------------
# Connection pool

POOL_TICK_NS = 10**8       # 0.1 s: the pool's poll interval for timeouts >= 1 s


class _Target(Entity):
    def handle_event(self, event):
        return None


class PoolWorker(Entity):
    def __init__(self, idx, world, spec):
        super().__init__(f"c{idx}")
        self.idx = idx
        self.world = world
        self.spec = spec

    def handle_event(self, event):
        return self.body()

    def body(self):
        W = self.world
        pool = W.pool
        rounds = self.spec["rounds"]
        for k, rnd in enumerate(rounds):
            if rnd.get("pre"):
                yield W.delay(rnd["pre"])
            n0 = pool.pending_requests
            it = pool.acquire()
            try:
                y = next(it)
            except StopIteration as e:
                conn = e.value
                rid = W.req(0)
            else:
                flag = 1 if pool.pending_requests > n0 else 3
                rid = W.req(flag)
                try:
                    while True:
                        s = yield y
                        y = it.send(s)
                except StopIteration as e:
                    conn = e.value
                except TimeoutError:
                    W.rec("tmo", rid)
                    continue
                if flag == 3:
                    W.rec("made", rid)
                else:
                    W.claim(conn.id, rid)
                    W.rec("got", rid)
            W.gt[rid] = W.tick()
            for d in rnd["holds"]:
                yield W.delay(d)
            evs = W.release(rid, conn)
            if evs:
                if k == len(rounds) - 1:
                    return evs
                yield 0.0, evs
        return None


class PoolWorld:
    """scenario: {"prim": "ConnectionPool", "max": M, "lat": ticks, "timeout": ticks (>= 10), "idle": ticks,
                  "order": .., "workers": [{"arr", "rounds": [{"pre", "holds"}]}]}   (tick = 0.1 s)"""

    def __init__(self, scen):
        from happysimulator.components.client.connection_pool import ConnectionPool
        from happysimulator.distributions.constant import ConstantLatency
        self.scen = scen
        self.tick_ns = POOL_TICK_NS
        self.log = []
        self.nreq = 0
        self.dirty = False
        self.delivery_no = 0
        self.gt = {}
        self.abort = None
        self.err = None
        self.in_release = False
        self.handoffs = []
        self.pending_hand = {}     # conn id -> indices [rel record, hand record] awaiting their claimant
        self.target = _Target("target")
        self.pool = ConnectionPool("pool", target=self.target, min_connections=0,
                                   max_connections=scen["max"],
                                   connection_timeout=delay_s(scen["timeout"], self.tick_ns),
                                   idle_timeout=delay_s(scen["idle"], self.tick_ns),
                                   connection_latency=ConstantLatency(delay_s(scen["lat"], self.tick_ns)),
                                   on_acquire=self._on_acquire)
        self.workers = [PoolWorker(i, self, w) for i, w in enumerate(scen["workers"])]
        self._total = 0
        self.sim = None

    def delay(self, k):
        return delay_s(k, self.tick_ns)

    def tick(self):
        return self.sim._clock.now.nanoseconds // self.tick_ns

    def counters(self):
        p = self.pool
        return p.active_connections, p.idle_connections, p.total_connections, p.pending_requests

    def rec(self, op, rid=0, flag=0, mark=True):
        if op == "q" and self.log and self.log[-1][0] == "q":
            return
        self.log.append([op, rid, flag, *self.counters()])
        if mark:
            self.dirty = True

    def req(self, flag):
        self.nreq += 1
        self.rec("req", self.nreq, flag)
        return self.nreq

    def _on_acquire(self, conn):
        if self.in_release:
            self.handoffs.append(conn.id)

    def release(self, rid, conn):
        self.in_release = True
        self.handoffs = []
        try:
            evs = self.pool.release(conn)
        finally:
            self.in_release = False
        self.rec("rel", rid, 0)
        for cid in self.handoffs:
            self.rec("hand", 0)
            self.pending_hand[cid] = (len(self.log) - 2, len(self.log) - 1)
        return evs

    def claim(self, cid, rid):
        idx = self.pending_hand.pop(cid, None)
        if idx is not None:
            self.log[idx[0]][2] = rid
            self.log[idx[1]][1] = rid

    def _on_event(self, ev):
        if ev.target is self.pool and ev.event_type == "_pool_idle_timeout":
            t = self.pool.total_connections
            if t < self._total:
                self.rec("idlex")
        self._total = self.pool.total_connections
        if self.dirty:
            self.rec("d")
        self.dirty = False
        self.delivery_no += 1
        if self.delivery_no > MAX_DELIVERIES:
            raise Overrun()

    def _on_time(self, t):
        self.rec("q", mark=False)

    def run(self):
        self.sim = Simulation(entities=[self.pool, self.target, *self.workers])
        for i in self.scen.get("order") or range(len(self.workers)):
            w = self.scen["workers"][i]
            self.sim.schedule(Event(time=Instant(w["arr"] * self.tick_ns), event_type="go",
                                    target=self.workers[i]))
        self.sim.control.on_event(self._on_event)
        self.sim.control.on_time_advance(self._on_time)
        try:
            self.sim.run()
            self.rec("q", mark=False)
            self.rec("end", mark=False)
        except Overrun:
            self.abort = "overrun"
        except Exception as ex:
            self.err = f"{type(ex).__name__}: {ex}"
        return self

    def trace(self, tid, dev=()):
        return {"id": tid, "max": self.scen["max"], "nr": max(self.nreq, 1), "dev": list(dev), "log": self.log}
