"""C20 code -> spec drivers: seeded random / adversarial cases for the real sketches (real hashes).

Every function returns a list of JSON-able cases understood by c20_real.execute.
"""
from __future__ import annotations

from .c20_real import Adaptor

MERGEABLE = ("bloom", "cms", "hll")


# ---------------------------------------------------------------------------
# universes (pairwise non-equal python literals)

def universe(rng, n, flavour):
    if flavour == "str":
        base = [f"k{i}" for i in range(n)]
    elif flavour == "int":
        pool = [-1, -2, 0, 2**61 - 1, 1, 2, 7, 2**31, -(2**40), 10**18, 2**64 + 3, 12345]
        base = pool[:n] if n <= len(pool) else pool + list(range(100, 100 + n - len(pool)))
    elif flavour == "tuple":
        base = [(i, "a" * (i % 3)) for i in range(n)]
    elif flavour == "inttuple":
        base = [(i, -i * i) for i in range(n)]
    else:
        pool = ["", "a", "ab", b"a", 1.5, -2.25, (1, 2), (1, (2, 3)), 3, -1, "k", "é", ("x",), 10**20, b"", 0.1]
        base = pool[:n] if n <= len(pool) else pool + [f"m{i}" for i in range(n - len(pool))]
    rng.shuffle(base)
    return [repr(x) for x in base]


def colliding_universe(kind, p, seed, n, rng):
    """Items searched offline so that they collide under the REAL hash of this configuration:
    about half of them share all hash values with item 1, the rest are arbitrary."""
    probe = Adaptor(kind, p, seed, [])
    # CountMinSketch hashes with builtin hash(): str hashes change per process (PYTHONHASHSEED), which
    # would make the case (and a saved replay) irreproducible -> integers for cms, strings elsewhere
    stable = kind == "cms"
    base = 5000 + rng.randrange(1000) if stable else f"base{rng.randrange(1000)}"
    hv = probe.hash_values(base)
    out = [base]
    j = 0
    want = max(1, n // 2)
    while len(out) <= want and j < 3000:
        cand = 10000 + j if stable else f"c{j}"
        j += 1
        cv = probe.hash_values(cand)
        if kind == "hll":
            hit = cv[0] == hv[0]                  # same register, any run length (max / merge matter)
        elif len(out) % 2:
            hit = cv == hv                        # full collision
        else:
            hit = cv != hv and any(a == b for a, b in zip(cv, hv))   # partial overlap
        if hit:
            out.append(cand)
    while len(out) < n:
        out.append(20000 + len(out) if stable else f"o{len(out)}")
    rng.shuffle(out)
    return [repr(x) for x in out[:n]]


def stream(rng, ni, n, shape, maxw=3):
    """list of (item index 1-based, count)"""
    out = []
    if shape == "zipf":
        w = [1.0 / (r + 1) ** 1.3 for r in range(ni)]
        for _ in range(n):
            out.append((rng.choices(range(1, ni + 1), w)[0], 1))
    elif shape == "uniform":
        out = [(rng.randint(1, ni), 1) for _ in range(n)]
    elif shape == "single":
        x = rng.randint(1, ni)
        out = [(x, 1) for _ in range(n)]
    elif shape == "roundrobin":
        out = [((i % ni) + 1, 1) for i in range(n)]
    elif shape == "weighted":
        out = [(rng.randint(1, ni), rng.choice((1, 1, 2, maxw, 0))) for _ in range(n)]
    elif shape == "heavy":      # one heavy hitter hidden in churn
        h = rng.randint(1, ni)
        for i in range(n):
            out.append((h, 1) if rng.random() < 0.4 else (rng.randint(1, ni), 1))
    elif shape == "heavy_late":  # churn first, heavy item only at the end (must displace counters)
        h = rng.randint(1, ni)
        m = n // 2
        out = [((i % ni) + 1, 1) for i in range(m)] + [(h, rng.choice((1, 2))) for _ in range(n - m)]
    else:
        raise ValueError(shape)
    return out


SHAPES = ("zipf", "uniform", "single", "roundrobin", "weighted", "heavy", "heavy_late")


def dims(kind, rng):
    if kind == "bloom":
        return [rng.choice((1, 2, 3, 5, 8, 8, 16, 64, 65, 130)), rng.choice((1, 2, 2, 3, 7))]
    if kind == "cms":
        return [rng.choice((1, 2, 3, 4, 8)), rng.choice((1, 2, 3, 4))]
    if kind == "hll":
        return [rng.choice((16, 16, 32, 64)), 0]
    if kind == "topk":
        return [rng.choice((1, 2, 2, 3, 4, 5)), 0]
    return [rng.choice((1, 2, 3, 4)), 0]


def _uni(kind, p, seed, ni, rng):
    r = rng.random()
    if kind in MERGEABLE and r < 0.4:
        return colliding_universe(kind, p, seed, ni, rng)
    if kind == "cms":       # process-independent builtin hashes only (see colliding_universe)
        return universe(rng, ni, rng.choice(("int", "inttuple", "int", "inttuple")))
    return universe(rng, ni, rng.choice(("str", "int", "tuple", "mixed")))


# ---------------------------------------------------------------------------
# stream-sketch cases

def split_cases(rng, kind, n_streams, max_len):
    """All split points of a stream into two halves built separately and merged (clause 4)."""
    cases = []
    for _ in range(n_streams):
        p = dims(kind, rng)
        seed = rng.choice((0, 0, 1, 42, 2**32 + 5))
        ni = rng.randint(1, 6)
        U = _uni(kind, p, seed, ni, rng)
        n = rng.randint(0, max_len)
        L = stream(rng, ni, n, rng.choice(SHAPES))
        for i in range(n + 1):
            ops = [["add", 1, x, c] for (x, c) in L[:i]] + [["add", 2, x, c] for (x, c) in L[i:]]
            ops.append(["merge", 1, 2])
            tail = rng.random()
            if tail < 0.3:
                ops.append(["merge", 2, 1])          # nested: b \o (a \o b)
            elif tail < 0.4:
                ops.append(["merge", 1, 1])          # self merge: (a \o b) \o (a \o b)
            elif tail < 0.6 and L:
                x, c = rng.choice(L)
                ops += [["add", 1, x, c], ["merge", 2, 1]]
            cases.append({"kind": kind, "p": p, "seed": seed, "universe": U, "ops": ops,
                          "bare_add": rng.random() < 0.5})
    return cases


def stream_cases(rng, kind, n_cases, max_len):
    """Single-stream guarantees (clauses 1, 2, 3, 6) + interleaved merges for the mergeable kinds."""
    cases = []
    for k in range(n_cases):
        p = dims(kind, rng)
        seed = rng.choice((0, 1, 7, 2**40))
        if kind == "topk":
            ni = p[0] + rng.randint(0, 4)
        else:
            ni = rng.randint(1, 7)
        U = _uni(kind, p, seed, ni, rng)
        shape = SHAPES[k % len(SHAPES)]
        n = rng.randint(0, max_len)
        L = stream(rng, ni, n, shape)
        ops = []
        for (x, c) in L:
            s = 1 if kind in ("topk", "res") or rng.random() < 0.7 else 2
            ops.append(["add", s, x, c])
            if kind in MERGEABLE and rng.random() < 0.08:
                ops.append(["merge", rng.choice((1, 2)), rng.choice((1, 2))])
        if not ops:     # empty stream: a count-0 add inserts nothing, queries on the empty sketch
            ops = [["add", 1, 1, 0]]
            if kind in MERGEABLE:
                ops.append(["merge", 1, 2])
        cases.append({"kind": kind, "p": p, "seed": seed, "universe": U, "ops": ops,
                      "bare_add": bool(k % 2)})
    return cases


def topk_churn_cases(rng, n_cases, max_len):
    """Space-saving under eviction pressure: barely more items than counters, long enough for an
    item to be evicted and to come back several times (where the inherited count/error matter)."""
    cases = []
    for k in range(n_cases):
        kk = rng.choice((1, 2, 2, 3, 3, 4))
        ni = kk + rng.choice((1, 1, 2))
        U = universe(rng, ni, rng.choice(("str", "int", "tuple")))
        n = rng.randint(min(12, max_len), max_len)
        shape = ("uniform", "zipf", "heavy", "weighted", "uniform", "heavy_late")[k % 6]
        L = stream(rng, ni, n, shape, maxw=2)
        cases.append({"kind": "topk", "p": [kk, 0], "seed": 0, "universe": U,
                      "ops": [["add", 1, x, c] for (x, c) in L], "bare_add": bool(k % 2)})
    return cases


def component_cases(rng, kind, n_cases, max_len):
    """The same sketches fed by SketchCollector / TopKCollector inside a real Simulation."""
    cases = []
    for k in range(n_cases):
        p = dims(kind, rng)
        ni = (p[0] + rng.randint(0, 3)) if kind == "topk" else rng.randint(1, 6)
        fl = rng.choice(("str", "int", "mixed"))
        U = universe(rng, ni, "int" if kind == "cms" else fl)
        n = rng.randint(1, max_len)
        L = stream(rng, ni, n, rng.choice(SHAPES))
        t = 0
        ops = []
        for (x, c) in L:
            t += rng.choice((0, 0, 1, 1000, 10**9))         # same-instant bursts and gaps
            if rng.random() < 0.1:
                x = 0                                        # event without a value
            ops.append(["add", 1, x, c, t])
        cases.append({"kind": kind, "p": p, "seed": rng.choice((0, 3)), "universe": U, "ops": ops,
                      "mode": "component", "weighted": rng.random() < 0.7})
    return cases


# ---------------------------------------------------------------------------
# t-digest

def td_data(rng, n, flavour):
    if flavour == "uniform":
        return [rng.random() * 100 for _ in range(n)]
    if flavour == "ints":
        return [float(rng.randint(0, 9)) for _ in range(n)]
    if flavour == "asc":
        return sorted(rng.random() * 10 for _ in range(n))
    if flavour == "desc":
        return sorted((rng.random() * 10 for _ in range(n)), reverse=True)
    if flavour == "const":
        v = rng.choice((0.0, 1.0, -3.5, 0.1, 1e9, 7.0))
        return [v] * n
    if flavour == "twopoint":
        a, b = rng.choice(((0.0, 1.0), (-1.0, 1.0), (5.0, 5.5), (0.0, 1e6)))
        return [a if rng.random() < 0.5 else b for _ in range(n)]
    if flavour == "tail":
        return [rng.expovariate(1.0) ** 3 for _ in range(n)]
    if flavour == "neg":
        return [-(rng.random() * 1000) for _ in range(n)]
    if flavour == "tiny":
        return [rng.random() * 1e-9 for _ in range(n)]
    if flavour == "outlier":
        return [rng.random() for _ in range(max(0, n - 1))] + [1e6]
    raise ValueError(flavour)


TD_FLAVOURS = ("uniform", "ints", "asc", "desc", "const", "twopoint", "tail", "neg", "tiny", "outlier")


def td_cases(rng, n_cases, max_n):
    cases = []
    for k in range(n_cases):
        comp = rng.choice((0.5, 1, 2, 3, 5, 10, 20, 50, 100, 200))
        fl = TD_FLAVOURS[k % len(TD_FLAVOURS)]
        n = rng.choice((1, 2, 3, rng.randint(4, max_n), rng.randint(4, max_n)))
        data = td_data(rng, n, fl)
        ops = []
        for i, v in enumerate(data):
            ops.append(["add", v, rng.choice((1, 1, 1, 2, 5)) if k % 3 == 0 else 1])
            if rng.random() < 0.03:
                ops.append(["q", rng.randrange(10**6)])     # querying flushes: state changes mid-stream
        if k % 4 == 1:
            other = td_data(rng, rng.randint(1, max(1, max_n // 2)), rng.choice(TD_FLAVOURS))
            ops.append(["merge", [[v, 1] for v in other], rng.choice((comp, 10, 100))])
        ops.append(["q", rng.randrange(10**6)])
        cases.append({"kind": "td", "compression": comp, "ops": ops})
    return cases


def td_component_cases(rng, n_cases, max_n):
    cases = []
    for k in range(n_cases):
        data = td_data(rng, rng.randint(1, max_n), TD_FLAVOURS[k % len(TD_FLAVOURS)])
        t = 0
        ops = []
        for v in data:
            t += rng.choice((0, 0, 5, 10**6))
            ops.append(["add", None if rng.random() < 0.05 else v, 1, t])
        cases.append({"kind": "td", "compression": rng.choice((1, 5, 20, 100)), "ops": ops,
                      "mode": "component", "qseed": rng.randrange(10**6)})
    return cases


# ---------------------------------------------------------------------------
# Merkle

KEY_POOLS = (
    ["a", "aa", "ab", "b", "ba", "c", "", "aaa"],
    ["1", "10", "2", "20", "3", "100", "01", "9"],
    ["k0", "k1", "k2", "k3", "k4", "k5", "k6", "k7"],
    ["é", "e", "z", "Z", "_", "~", " ", "中"],
)
VAL_POOL = [repr(v) for v in (1, 2, "1", "v", (1, 2), 1.5, "", 0, -1, b"x")]


def mk_cases(rng, n_cases, max_keys, max_ops):
    cases = []
    for k in range(n_cases):
        keys = list(rng.choice(KEY_POOLS))
        rng.shuffle(keys)
        keys = keys[:rng.randint(1, max_keys)]
        nk = len(keys)
        nv = rng.randint(1, 4)
        vals = rng.sample(VAL_POOL, nv)
        style = k % 6
        A = [rng.randint(0, nv) for _ in range(nk)]
        if style == 0:
            B = list(A)                                        # equal maps
        elif style == 1:
            B = list(A)                                        # one key differs / is missing
            i = rng.randrange(nk)
            B[i] = rng.choice([v for v in range(0, nv + 1) if v != A[i]] or [0])
        elif style == 2:
            B = [0] * nk                                       # one side empty
        elif style == 3:
            cut = rng.randint(0, nk)                           # disjoint key ranges
            A = [rng.randint(1, nv) if i < cut else 0 for i in range(nk)]
            B = [0 if i < cut else rng.randint(1, nv) for i in range(nk)]
        elif style == 4:
            B = list(A)                                        # same keys, extra key at either end
            B[rng.choice((0, nk - 1))] = 0
        else:
            B = [rng.randint(0, nv) for _ in range(nk)]
        ops = []
        for _ in range(rng.randint(0, max_ops)):
            if rng.random() < 0.7:
                ops.append(["put", rng.randint(1, 2), rng.randint(1, nk), rng.randint(1, nv)])
            else:
                ops.append(["del", rng.randint(1, 2), rng.randint(1, nk)])
        cases.append({"kind": "mk", "keys": keys, "vals": vals, "init": [A, B], "ops": ops})
    return cases
