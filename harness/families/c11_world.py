"""C11 helper: real RaftNode clusters under harness control, and the recorder that turns what the
real objects did into RaftTrace.tla steps.

Two embeddings of the same real objects:
  * World      direct drive: real RaftNode + real Network/NetworkLink objects, the harness owns the
               clock, the in-flight message pool (the suspended Network.handle_event generators) and
               the pending timer events; every delivery goes through the real Event.invoke().
  * SimWorld   the same nodes inside an unmodified Simulation (real event loop, real Network routing,
               scripted per-message latencies, FaultSchedule crashes/partitions).
Both produce the step vocabulary documented in specs/raft/RaftTrace.tla.
"""
from __future__ import annotations

import random

from happysimulator.components.consensus.raft import RaftNode, RaftState
from happysimulator.components.network.link import NetworkLink
from happysimulator.components.network.network import Network
from happysimulator.core.clock import Clock
from happysimulator.core.event import Event
from happysimulator.core.temporal import Duration, Instant
from happysimulator.distributions.latency_distribution import LatencyDistribution
from happysimulator.faults.fault import FaultContext
from happysimulator.faults.node_faults import CrashNode

ROLE = {RaftState.FOLLOWER: "F", RaftState.CANDIDATE: "C", RaftState.LEADER: "L"}
MTYPE = {"RaftRequestVote": "RV", "RaftVoteResponse": "RVR", "RaftAppendEntries": "AE",
         "RaftAppendEntriesResponse": "AER"}
ET, HB = "RaftElectionTimeout", "RaftHeartbeat"


class RecordingSM:
    """State machine that records the commands it is asked to apply, and returns the command."""

    def __init__(self):
        self.applied = []

    def apply(self, command):
        self.applied.append(command)
        return command

    def snapshot(self):
        return list(self.applied)

    def restore(self, snapshot):
        self.applied = list(snapshot)


class FixedLatency(LatencyDistribution):
    def __init__(self, seconds=0.001):
        super().__init__(seconds)

    def get_latency(self, current_time):
        return Duration.from_seconds(self._mean_latency)


def node_name(i):
    return f"n{i}"


class Cluster:
    """N real RaftNodes + real Network; projection / message encoding shared by both embeddings."""

    def __init__(self, n, node_cls=RaftNode, **node_kw):
        self.n = n
        self.net = Network(name="net")
        self.sms = {i: RecordingSM() for i in range(1, n + 1)}
        self.nodes = {i: node_cls(name=node_name(i), network=self.net, state_machine=self.sms[i], **node_kw)
                      for i in range(1, n + 1)}
        self.idx = {node_name(i): i for i in range(1, n + 1)}
        allnodes = [self.nodes[i] for i in range(1, n + 1)]
        for nd in allnodes:
            nd.set_peers(allnodes)
        self.fut_op = {}        # id(future) -> op
        self.futs = {}          # op -> future
        self.timers = []        # pending (not yet fired) timer events of all nodes
        self.notes = []         # python-level observations outside the step vocabulary

    # -- projection ---------------------------------------------------------
    def live(self, i, typ):
        nd = self.nodes[i]
        return sum(1 for e in self.timers if e.target is nd and e.event_type == typ and not e.cancelled)

    def _op_of(self, f):
        """op of a pending-future table entry (the future itself, or a tuple/list that carries it)."""
        if id(f) in self.fut_op:
            return self.fut_op[id(f)]
        if isinstance(f, (tuple, list)):
            for x in f:
                if id(x) in self.fut_op:
                    return self.fut_op[id(x)]
        return 0

    def proj(self, i):
        nd = self.nodes[i]
        role = ROLE[nd.state]
        log = nd.log
        ents = [{"i": e.index, "t": e.term, "c": e.command} for e in log.entries_after(0)]
        peers = range(1, self.n + 1)
        if role == "L":
            ni = [0 if p == i else int(nd._next_index.get(node_name(p), 0)) for p in peers]
            mi = [0 if p == i else int(nd._match_index.get(node_name(p), 0)) for p in peers]
        else:
            ni = [0] * self.n
            mi = [0] * self.n
        votes = sorted(self.idx.get(v, 99) for v in nd._votes_received_set) if role == "C" else []
        pend = sorted([k, self._op_of(f)] for k, f in nd._pending_futures.items() if k > 0)
        vf = nd._voted_for
        return {"role": role, "term": nd.current_term, "voted": 0 if vf is None else self.idx.get(vf, 99),
                "log": ents, "ci": log.commit_index, "la": nd._last_applied, "app": list(self.sms[i].applied),
                "votes": votes, "ni": ni, "mi": mi, "et": self.live(i, ET), "hb": self.live(i, HB),
                "pend": pend}

    def encode(self, ev):
        """Network-bound (or forwarded) event -> message record of the spec."""
        md = ev.context["metadata"]
        t = MTYPE[ev.event_type]
        src, dst = self.idx[md["source"]], self.idx[md["destination"]]
        m = {"type": t, "src": src, "dst": dst, "term": md["term"]}
        if t == "RV":
            m["lli"], m["llt"] = md["last_log_index"], md["last_log_term"]
            if md["candidate_id"] != md["source"]:
                self.notes.append("RV candidate_id != source")
        elif t == "RVR":
            m["granted"] = bool(md["vote_granted"])
            if md["from"] != md["source"]:
                self.notes.append("RVR from != source")
        elif t == "AE":
            m["pli"], m["plt"], m["lc"] = md["prev_log_index"], md["prev_log_term"], md["leader_commit"]
            m["ents"] = [{"i": e["index"], "t": e["term"], "c": e["command"]} for e in md["entries"]]
            if md["leader_id"] != md["source"]:
                self.notes.append("AE leader_id != source")
        else:
            m["success"], m["mi"] = bool(md["success"]), md["match_index"]
            if md["from"] != md["source"]:
                self.notes.append("AER from != source")
        return m

    def collect_resolved(self):
        """Futures resolved since the last call -> [[op, index, result]]."""
        out = []
        for op, f in list(self.futs.items()):
            if f.is_resolved:
                v = f.value
                del self.futs[op]
                if isinstance(v, tuple) and len(v) == 2 and isinstance(v[0], int) and isinstance(v[1], int):
                    out.append([op, v[0], v[1]])
                else:
                    out.append([op, -1, -1])
                    self.notes.append(f"future of op {op} resolved with {v!r}")
        return out


def msg_key(m):
    return (m["type"], m["src"], m["dst"], m["term"], m.get("lli"), m.get("llt"), m.get("granted"),
            m.get("pli"), m.get("plt"), m.get("lc"), m.get("success"), m.get("mi"),
            tuple((e["i"], e["t"], e["c"]) for e in m.get("ents", ())))


class World(Cluster):
    """Direct drive.  All environment choices are made by the caller (TLC behaviour or rng)."""

    def __init__(self, n, node_cls=RaftNode):
        rs = random.getstate()
        try:
            super().__init__(n, node_cls)
            self.clock = Clock(Instant.Epoch)
            self.tick = 0
            for a in self.nodes.values():
                for b in self.nodes.values():
                    if a is not b:
                        self.net.add_link(a, b, NetworkLink(name=f"{a.name}>{b.name}", latency=FixedLatency(0.001)))
            self.net.set_clock(self.clock)
            for nd in self.nodes.values():
                nd.set_clock(self.clock)
            self.pool = []          # [msg record, key, suspended Network.handle_event generator]
            self.steps = []
            self.nops = 0
            self.skipped = 0
            ctx = FaultContext(entities={nd.name: nd for nd in self.nodes.values()}, networks={"net": self.net},
                               resources={}, start_time=Instant.Epoch)
            self.fault_events = {i: CrashNode(node_name(i), at=0.0, restart_at=1.0).generate_events(ctx)
                                 for i in self.nodes}
            for i, nd in self.nodes.items():
                self._absorb(i, nd.start(), record=False)
            self.init = [self.proj(i) for i in range(1, n + 1)]
            self.last = {i: self.init[i - 1] for i in self.nodes}
        finally:
            random.setstate(rs)

    # -- plumbing -----------------------------------------------------------
    def _advance(self):
        self.tick += 1
        self.clock.update(Instant(self.tick * 1_000_000))

    def _absorb(self, i, events, record=True):
        """Route what a handler returned: timers stay with the harness, network-bound events enter the
        real Network (partition check + link) and are suspended at the link's delay."""
        out, lost = [], []
        for ev in events or []:
            if ev.target is self.net:
                m = self.encode(ev)
                out.append(m)
                g = self.net.handle_event(ev)
                try:
                    next(g)
                    self.pool.append([m, msg_key(m), g])
                except StopIteration:
                    lost.append(m)          # dropped by the Network itself (partition / no route)
            elif ev.event_type in (ET, HB) and ev.target in self.nodes.values():
                self.timers = [e for e in self.timers if not e.cancelled]
                self.timers.append(ev)
            else:
                self.notes.append(f"unexpected event {ev!r} from n{i}")
        return out, lost

    def _run(self, i, ev, step):
        rs = random.getstate()
        try:
            produced = ev.invoke()
        finally:
            random.setstate(rs)
        out, lost = self._absorb(i, produced)
        post = self.proj(i)
        step.update(n=i, post=post, out=out, res=self.collect_resolved())
        self.steps.append(step)
        self.last[i] = post
        for m in lost:
            self.steps.append({"a": "DR", "m": m})
        self._frame(i)

    def _frame(self, acting):
        for j in self.nodes:
            if j != acting:
                p = self.proj(j)
                if p != self.last[j]:
                    self.steps.append({"a": "F", "n": j, "post": p})
                    self.last[j] = p

    def find(self, m, loose=True):
        key = msg_key(m)
        for k, e in enumerate(self.pool):
            if e[1] == key:
                return k
        if not loose:
            return None
        for pred in (lambda x: (x["type"], x["src"], x["dst"], x["term"]) == (m["type"], m["src"], m["dst"], m["term"]),
                     lambda x: (x["type"], x["src"], x["dst"]) == (m["type"], m["src"], m["dst"])):
            for k, e in enumerate(self.pool):
                if pred(e[0]):
                    return k
        return None

    def _timer(self, i, typ):
        nd = self.nodes[i]
        for e in self.timers:
            if e.target is nd and e.event_type == typ and not e.cancelled:
                return e
        return None

    # -- environment choices ------------------------------------------------
    def fire(self, i, typ):
        """Fire the live election-timeout / heartbeat event of node i (dropped if the node is crashed)."""
        ev = self._timer(i, typ)
        if ev is None:
            self.skipped += 1
            return False
        self._advance()
        self.timers.remove(ev)
        ev.time = self.clock.now
        if getattr(self.nodes[i], "_crashed", False):
            ev.invoke()
            post = self.proj(i)
            self.steps.append({"a": "LT", "n": i, "w": "et" if typ == ET else "hb", "post": post})
            self.last[i] = post
            self._frame(i)
            return True
        self._run(i, ev, {"a": "T" if typ == ET else "H"})
        return True

    def deliver(self, k):
        m, _, g = self.pool.pop(k)
        self._advance()
        try:
            g.send(None)
            self.notes.append("link generator yielded twice")
            return False
        except StopIteration as st:
            fwd = st.value
        if fwd is None:
            self.steps.append({"a": "DR", "m": m})
            return True
        i = m["dst"]
        if fwd.target is not self.nodes[i]:
            self.notes.append("forwarded event targets the wrong entity")
        m2 = self.encode(fwd)
        if getattr(self.nodes[i], "_crashed", False):
            got = fwd.invoke()
            if got:
                self.notes.append("crashed node produced events")
            self.steps.append({"a": "DC", "n": i, "m": m2})
            self._frame(0)
            return True
        self._run(i, fwd, {"a": "D", "m": m2})
        return True

    def drop(self, k):
        m, _, g = self.pool.pop(k)
        g.close()
        self.steps.append({"a": "DR", "m": m})

    def submit(self, i, op=None):
        self._advance()
        if op is None:
            self.nops += 1
            op = self.nops
        nd = self.nodes[i]
        f = nd.submit(op)
        self.fut_op[id(f)] = op
        self.futs[op] = f
        self._keep = getattr(self, "_keep", [])
        self._keep.append(f)
        post = self.proj(i)
        self.steps.append({"a": "S", "n": i, "op": op, "post": post, "out": [], "res": self.collect_resolved()})
        self.last[i] = post
        self._frame(i)
        return op

    def crash(self, i):
        was = self.is_crashed(i)
        self.fault_events[i][0].invoke()
        if self.is_crashed(i) != was:
            self.steps.append({"a": "X", "n": i})
        self._frame(0)

    def restart(self, i):
        was = self.is_crashed(i)
        self.fault_events[i][1].invoke()
        if self.is_crashed(i) != was:
            self.steps.append({"a": "R", "n": i})
        self._frame(0)

    def is_crashed(self, i):
        return bool(getattr(self.nodes[i], "_crashed", False))

    def trace(self, tid):
        return {"id": tid, "init": self.init, "steps": self.steps}


# ---------------------------------------------------------------------------
# the same nodes inside a real Simulation

class ScriptedLatency(LatencyDistribution):
    """Per-message delay read from a script (list of seconds, cycled) or drawn from an rng mix."""

    def __init__(self, draw):
        super().__init__(0.0)
        self.draw = draw

    def get_latency(self, current_time):
        return Duration.from_seconds(max(0.0, float(self.draw())))


def _rec_node_cls():
    class RecNode(RaftNode):
        """RaftNode whose handler calls are reported to the recorder (no behaviour change)."""
        _rec = None

        def handle_event(self, event):
            rec = self._rec
            if rec is not None:
                rec.before(self, event)
            out = super().handle_event(event)
            if rec is not None:
                rec.after(self, event, out)
            return out
    return RecNode


class SimWorld(Cluster):
    """Real Simulation + real Network + real links; records one step per node handler call, crash/restart,
    dropped delivery; sim.control.on_event re-projects all nodes after every processed event."""

    def __init__(self, n, *, latency_draw, loss=0.0, link_factory=None, sim_seed=0, **node_kw):
        self._saved_random = random.getstate()
        random.seed(sim_seed)
        super().__init__(n, _rec_node_cls(), **node_kw)
        for nd in self.nodes.values():
            nd._rec = self
        allnodes = [self.nodes[i] for i in range(1, n + 1)]
        for a in allnodes:
            for b in allnodes:
                if a is not b:
                    if link_factory is not None:
                        link = link_factory(f"{a.name}>{b.name}")
                    else:
                        link = NetworkLink(name=f"{a.name}>{b.name}", latency=ScriptedLatency(latency_draw),
                                           packet_loss_rate=loss)
                    self.net.add_link(a, b, link)
        self.steps = []
        self.down = set()
        self.nops = 0
        self.events_seen = 0
        self.sim = None
        self.init = None
        self.last = None

    def build(self, duration, fault_schedule=None, extra_entities=()):
        from happysimulator.core.simulation import Simulation
        ents = [self.net, *[self.nodes[i] for i in range(1, self.n + 1)], *extra_entities]
        self.sim = Simulation(duration=duration, entities=ents, fault_schedule=fault_schedule)
        for i in range(1, self.n + 1):
            for ev in self.nodes[i].start():
                self.timers.append(ev)
                self.sim.schedule(ev)
        self.init = [self.proj(i) for i in range(1, self.n + 1)]
        self.last = {i: self.init[i - 1] for i in self.nodes}
        self.sim.control.on_event(self._on_event)
        return self.sim

    def close(self):
        random.setstate(self._saved_random)

    # -- recorder callbacks ---------------------------------------------------
    def before(self, node, event):
        if event.event_type in (ET, HB):
            self.timers = [e for e in self.timers if e is not event and not e.cancelled]

    def after(self, node, event, out):
        i = self.idx[node.name]
        et = event.event_type
        outs = []
        for ev in (out if isinstance(out, list) else [out] if out is not None else []):
            if ev.target is self.net:
                outs.append(self.encode(ev))
            elif ev.event_type in (ET, HB):
                self.timers.append(ev)
        post = self.proj(i)
        if et == ET:
            step = {"a": "T"}
        elif et == HB:
            step = {"a": "H"}
        elif et in MTYPE:
            step = {"a": "D", "m": self.encode(event)}
        else:
            self.notes.append(f"node handled unknown event type {et}")
            return
        step.update(n=i, post=post, out=outs, res=self.collect_resolved())
        self.steps.append(step)
        self.last[i] = post

    def _on_event(self, event):
        self.events_seen += 1
        tgt = event.target
        et = event.event_type
        if et.startswith("fault."):
            # crash/pause windows may overlap (the node stays down until the last one ends): record the
            # transitions of the flag Event.invoke really looks at, not the fault events
            for j, nd in self.nodes.items():
                now_down = bool(getattr(nd, "_crashed", False))
                if now_down != (j in self.down):
                    self.steps.append({"a": "X" if now_down else "R", "n": j})
                    (self.down.add if now_down else self.down.discard)(j)
        elif getattr(tgt, "name", None) in self.idx and tgt is self.nodes[self.idx[tgt.name]] \
                and getattr(tgt, "_crashed", False):
            i = self.idx[tgt.name]
            if et in (ET, HB):
                self.timers = [e for e in self.timers if e is not event]
                post = self.proj(i)
                self.steps.append({"a": "LT", "n": i, "w": "et" if et == ET else "hb", "post": post})
                self.last[i] = post
            elif et in MTYPE:
                self.steps.append({"a": "DC", "n": i, "m": self.encode(event)})
        # frame: nothing but the recorded steps may change a node
        for j in self.nodes:
            p = self.proj(j)
            if p != self.last[j]:
                self.steps.append({"a": "F", "n": j, "post": p})
                self.last[j] = p

    def submit(self, i, op=None):
        """Called from inside a simulation event (client)."""
        if op is None:
            self.nops += 1
            op = self.nops
        f = self.nodes[i].submit(op)
        self.fut_op[id(f)] = op
        self.futs[op] = f
        self._keep = getattr(self, "_keep", [])
        self._keep.append(f)
        post = self.proj(i)
        self.steps.append({"a": "S", "n": i, "op": op, "post": post, "out": [], "res": self.collect_resolved()})
        self.last[i] = post
        return op

    def trace(self, tid):
        return {"id": tid, "init": self.init, "steps": self.steps}
