"""C20 — sketches keep one-sided guarantees and merge like the union of their inputs.

Pipeline (BUILDER_GUIDE):
  1. TLC model checking of specs/sketch/Sketches.tla (one run per sketch kind, ALL hash tables of the
     bounded dimensions are initial states) and specs/sketch/Merkle.tla (all pairs of maps);
     Dev={} must pass, every deviation alone must violate its named contract invariant.
  2. spec -> code: state graphs dumped by TLC are toured (every edge), each path is executed on the
     real classes with the model's hash table injected (instance-level `_hash` override, scripted
     reservoir RNG), projections state-checked against the graph nodes.
  3. code -> spec: seeded adversarial drivers run the real classes with their real hashes (logged),
     directly and through SketchCollector / TopKCollector / QuantileEstimator in a real Simulation.
  All executions of 2 and 3 are recorded and judged by TLC with specs/sketch/SketchTrace.tla.
"""
from __future__ import annotations

import json
import os
import random
import time
from concurrent.futures import ThreadPoolExecutor

from .. import tlc
from ..common import Check, load_known
from ..probe import quiet_logging
from . import c20_drivers as drv
from .c20_real import RealError, execute

PROP = "C20"
SPEC = tlc.SPECS / "sketch"
SK_INVS = ["InvBloomNoFalseNeg", "InvCmsNeverUnder", "InvTopKBounded", "InvTopKHeavy", "InvMergeIsConcat",
           "InvResHolds", "InvResFromStream"]
MK_INVS = ["InvMerkleEmptyIffEqual", "InvMerkleCovers"]
HLL_REAL_REGS = 16          # HyperLogLog needs precision >= 4


_KNOWN_DEV = None


def as_code_dev():
    """Deviations of open known findings of C20 (read once per process; the file may be rewritten
    concurrently by other builders' `harness.kf add-open`, hence the retry)."""
    global _KNOWN_DEV
    if _KNOWN_DEV is None:
        for attempt in range(20):
            try:
                known = load_known()
                break
            except ValueError:
                time.sleep(0.2)
        else:
            known = load_known()
        _KNOWN_DEV = sorted({e["deviation"] for e in known.get("open", [])
                             if e["property"] == PROP and e.get("deviation")})
    return list(_KNOWN_DEV)


def devset(dev):
    return "{" + ",".join(f'"{d}"' for d in dev) + "}"


def sk_consts(kind, ni, p1, p2, max_total, max_w, merge=True, dev=()):
    return {"Kind": f'"{kind}"', "NI": ni, "P1": p1, "P2": p2, "MaxTotal": max_total, "MaxW": max_w,
            "AllowMerge": "TRUE" if merge else "FALSE", "Dev": devset(dev)}


# name -> (module, constants, invariants)            quick envelope
def mc_configs(tier):
    q = tier == "quick"
    cfg = {
        "bloom": ("Sketches.tla", sk_consts("bloom", 3, 2 if q else 3, 2, 3 if q else 4, 2)),
        "cms": ("Sketches.tla", sk_consts("cms", 3, 2, 2, 3 if q else 5, 2)),
        "hll": ("Sketches.tla", sk_consts("hll", 3, 2, 2, 3 if q else 5, 2)),
        "topk1": ("Sketches.tla", sk_consts("topk", 3, 1, 0, 8 if q else 10, 2)),
        "topk2": ("Sketches.tla", sk_consts("topk", 3, 2, 0, 10 if q else 13, 2)),
        "topk3": ("Sketches.tla", sk_consts("topk", 4, 3, 0, 9 if q else 11, 2)),
        "res1": ("Sketches.tla", sk_consts("res", 2, 1, 0, 6 if q else 8, 2)),
        "res2": ("Sketches.tla", sk_consts("res", 3, 2, 0, 6 if q else 7, 2)),
        "merkle": ("Merkle.tla", {"NK": 4, "NV": 2, "Dev": "{}"}),
    }
    if not q:
        cfg.update({
            "bloom_k3": ("Sketches.tla", sk_consts("bloom", 2, 4, 3, 4, 2)),
            "cms_d3": ("Sketches.tla", sk_consts("cms", 3, 2, 3, 4, 2)),
            "cms_w3": ("Sketches.tla", sk_consts("cms", 2, 3, 2, 6, 3)),
            "hll_r3": ("Sketches.tla", sk_consts("hll", 3, 2, 3, 4, 2)),
            "topk2_4items": ("Sketches.tla", sk_consts("topk", 4, 2, 0, 11, 3)),
            "topk4": ("Sketches.tla", sk_consts("topk", 5, 4, 0, 10, 2)),
            "res3": ("Sketches.tla", sk_consts("res", 3, 3, 0, 7, 2)),
            "merkle5": ("Merkle.tla", {"NK": 5, "NV": 2, "Dev": "{}"}),
            "merkle4v3": ("Merkle.tla", {"NK": 4, "NV": 3, "Dev": "{}"}),
        })
    return cfg


# deviation -> (configuration used for the sensitivity run, contract invariant that must fail)
DEVIATIONS = {
    "bloom_add_skips_last_hash": ("bloom", "InvBloomNoFalseNeg"),
    "bloom_merge_and": ("bloom", "InvBloomNoFalseNeg"),
    "bloom_merge_stale_nset": ("bloom", "InvMergeIsConcat"),
    "cms_merge_max": ("cms", "InvCmsNeverUnder"),
    "cms_conservative_update": ("cms", "InvMergeIsConcat"),
    "cms_merge_drops_total": ("cms", "InvMergeIsConcat"),
    "hll_merge_overwrite": ("hll", "InvMergeIsConcat"),
    "hll_add_no_max": ("hll", "InvMergeIsConcat"),
    "topk_error_not_inherited": ("topk2", "InvTopKBounded"),
    "topk_evict_resets_count": ("topk2", "InvTopKBounded"),
    "topk_evict_max": ("topk2", "InvTopKHeavy"),
    "topk_evict_min_guaranteed": ("topk2", "InvTopKBounded"),
    "res_capacity_off_by_one": ("res2", "InvResHolds"),
    "res_replace_appends": ("res2", "InvResHolds"),
    "merkle_leaf_range_self": ("merkle", "InvMerkleCovers"),
    "merkle_diff_stops_after_left": ("merkle", "InvMerkleCovers"),
}


SMALL_JVM = {"_JAVA_OPTIONS": "-XX:TieredStopAtLevel=1 -XX:ParallelGCThreads=2"}   # short runs: no C2 warm-up
BIG_JVM = {"_JAVA_OPTIONS": "-XX:ParallelGCThreads=4"}


def _tlc(label, module, constants, invariants, workers, view=None, timeout=1500, dump_dot=None, small=False):
    wd = tlc.workdir(label)
    cfg = tlc.write_cfg(wd / "mc.cfg", constants=constants, invariants=invariants, view=view)
    return tlc.run(SPEC / module, cfg, label=label, timeout=timeout, workers=workers, dump_dot=dump_dot,
                   env=SMALL_JVM if small else BIG_JVM)


SIM_NUM, SIM_DEPTH = 20000, 24


def _tlc_sim(label, consts, seed):
    wd = tlc.workdir(label)
    cfg = tlc.write_cfg(wd / "sim.cfg", constants=consts, invariants=SK_INVS + ["InvRef"])
    return tlc.run(SPEC / "Sketches.tla", cfg, label=label, timeout=600, workers=4, simulate=f"num={SIM_NUM}",
                   depth=SIM_DEPTH, seed=seed + 1, env=BIG_JVM)


def model_check(chk, tier, pool, seed=0):
    """Submit all clean + sensitivity runs to the pool; returns a function that collects them."""
    cfgs = mc_configs(tier)
    w_clean = max(2, tlc.DEFAULT_WORKERS // 4)
    jobs = []
    for name, (module, consts) in cfgs.items():
        sk = module == "Sketches.tla"
        invs = (SK_INVS + ["InvRef"]) if sk else (MK_INVS + ["InvRangesSane"])
        jobs.append(("clean", name, None, pool.submit(_tlc, f"C20_mc/{name}", module, consts, invs, w_clean,
                                                      "View" if sk else None)))
    for dev, (name, inv) in DEVIATIONS.items():
        module, consts = mc_configs("quick")[name]
        c = dict(consts)
        c["Dev"] = devset([dev])
        sk = module == "Sketches.tla"
        jobs.append(("dev", dev, inv, pool.submit(_tlc, f"C20_mc/dev_{dev}", module, c, SK_INVS if sk else MK_INVS,
                                                  2, "View" if sk else None, 600, None, True)))

    if tier != "quick":
        # deep random behaviours (TLC -simulate) beyond the exhaustive envelope
        sims = {
            "bloom": sk_consts("bloom", 3, 4, 2, 12, 3), "cms": sk_consts("cms", 3, 3, 2, 12, 3),
            "hll": sk_consts("hll", 3, 3, 3, 12, 3), "topk2": sk_consts("topk", 5, 2, 0, 24, 3),
            "topk3": sk_consts("topk", 5, 3, 0, 24, 2), "res": sk_consts("res", 3, 2, 0, 7, 2),
        }
        for name, consts in sims.items():
            jobs.append(("sim", name, consts, pool.submit(_tlc_sim, f"C20_mc/sim_{name}", consts, seed)))

    def collect(runner=None):
        for what, name, inv, fut in jobs:
            res = fut.result()
            if what == "dev" and runner is not None and res.trace:
                # DESIGN 2.3: a TLC counterexample is a candidate; run its history on the real code
                case = cex_case(DEVIATIONS[name][0], res)
                if case is not None:
                    runner.run_case(case, f"cex:{name}")
                    chk.replays += 1
            if what == "sim":
                chk.add_tlc(f"Sketches -simulate num={SIM_NUM} depth={SIM_DEPTH} {name} "
                            + " ".join(f"{k}={v}" for k, v in inv.items() if k != "Dev"), res, count=False,
                            note="random deep behaviours, all contract invariants")
                chk.require(res.ok, f"Sketches.tla [simulate {name}] with Dev={{}} violates {res.violated}")
            elif what == "clean":
                module, consts = cfgs[name]
                chk.add_tlc(f"{module[:-4]} Dev={{}} {name} " + " ".join(f"{k}={v}" for k, v in consts.items()
                                                                         if k != "Dev"), res)
                chk.require(res.ok, f"{module} [{name}] with Dev={{}} violates {res.violated}: the model is wrong")
            else:
                chk.add_tlc(f"sensitivity Dev={{{name}}}", res, count=False, note="must violate " + inv)
                chk.require(res.violated == inv, f"deviation {name} not caught by {inv} (got {res.violated})")
                chk.sensitivity[name] = res.violated
    return collect


# ---------------------------------------------------------------------------
# spec -> code: tours of TLC state graphs

def graph_configs(tier):
    q = tier == "quick"
    dev = as_code_dev()
    g = {
        "bloom": ("Sketches.tla", sk_consts("bloom", 2, 2, 2, 3, 2, dev=dev)),
        "cms": ("Sketches.tla", sk_consts("cms", 2, 2, 2, 3, 2, dev=dev)),
        "hll": ("Sketches.tla", sk_consts("hll", 2, 2, 2, 3, 2, dev=dev)),
        "topk": ("Sketches.tla", sk_consts("topk", 3, 2, 0, 9 if q else 11, 1 if q else 2, dev=dev)),
        "res": ("Sketches.tla", sk_consts("res", 3, 2, 0, 5 if q else 6, 2, dev=dev)),
        "mk": ("Merkle.tla", {"NK": 3, "NV": 2, "Dev": devset(dev)}),
    }
    if not q:
        g["bloom3"] = ("Sketches.tla", sk_consts("bloom", 3, 2, 2, 2, 1, dev=dev))
        g["cms3"] = ("Sketches.tla", sk_consts("cms", 3, 2, 2, 2, 1, dev=dev))
        g["hll3"] = ("Sketches.tla", sk_consts("hll", 3, 2, 2, 2, 1, dev=dev))
        g["topk1"] = ("Sketches.tla", sk_consts("topk", 3, 1, 0, 8, 2, dev=dev))
        g["topk3"] = ("Sketches.tla", sk_consts("topk", 4, 3, 0, 8, 1, dev=dev))
        g["res1"] = ("Sketches.tla", sk_consts("res", 3, 1, 0, 5, 2, dev=dev))
    return g


def _graph(name, module, consts):
    label = f"C20_gen/{name}"
    wd = tlc.workdir(label)
    dot = wd / "graph.dot"
    res = _tlc(label, module, consts, [], 2, "View" if module == "Sketches.tla" else None, 1500, dump_dot=dot,
               small=True)
    g = tlc.parse_dot(dot)
    dot.unlink(missing_ok=True)
    return res, g


UNI = [repr(f"item{i}") for i in range(1, 5)]
MK_KEYS = ["a", "ab", "b", "c", "d"]
MK_VALS = [repr(1), repr("two"), repr((3,))]


def node_proj(kind, st, real_regs=HLL_REAL_REGS):
    """Graph-node sketch state -> the projection format of c20_real.Adaptor.project()."""
    if kind == "bloom":
        return None   # needs the size; handled by caller
    if kind == "cms":
        return {"ctr": [list(r) for r in st["ctr"]], "total": st["total"]}
    if kind == "hll":
        reg = [0] * real_regs
        m = len(st["reg"])
        for i, v in enumerate(st["reg"]):
            reg[hll_map(i + 1, m) - 1] = v
        return {"reg": reg, "total": st["total"]}
    if kind == "topk":
        return {"ctr": [list(c) for c in st["ctr"]], "total": st["total"]}
    return {"res": list(st["res"]), "n": st["n"]}


def hll_map(i, m):
    """model register 1..m -> real register 1..16 (spread over both ends)"""
    return 1 if i == 1 else HLL_REAL_REGS if i == m else i


def path_case(kind, consts, root_state, path):
    """A toured path of the Sketches graph -> an executable case (hash table injected)."""
    ni = consts["NI"]
    p = [consts["P1"], consts["P2"]]
    H = root_state["H"]
    table = None
    if kind in ("bloom", "cms"):
        table = [list(H[x]) for x in range(ni)]
    elif kind == "hll":
        table = [[hll_map(H[x][0], p[0]), H[x][1]] for x in range(ni)]
        p = [HLL_REAL_REGS, 0]
    ops = []
    for label, _dst in path:
        name, args = tlc.parse_action(label)
        if name == "Add":
            ops.append(["add", args[0], args[1], args[2]])
        elif name == "AddRes":
            ops.append(["add", args[0], args[1], len(args[2]), list(args[2])])
        elif name == "Merge":
            ops.append(["merge", args[0], args[1]])
        else:
            raise ValueError(label)
    return {"kind": kind, "p": p, "seed": 0, "universe": UNI[:ni], "table": table, "ops": ops,
            "scripted_rng": kind == "res"}


def mk_path_case(consts, path):
    nk = consts["NK"]
    ops = []
    for label, _dst in path:
        name, args = tlc.parse_action(label)
        ops.append(["put", args[0], args[1], args[2]] if name == "Put" else ["del", args[0], args[1]])
    return {"kind": "mk", "keys": MK_KEYS[:nk], "vals": MK_VALS[:consts["NV"]],
            "init": [[0] * nk, [0] * nk], "ops": ops}


def cex_case(cfg_name, res):
    """The history of a TLC error trace (found with one deviation switched on) as an executable case:
    the same adds / merges / puts (TLC labels the trace states with the action and its parameters),
    hash table of the trace's initial state injected."""
    module, consts = mc_configs("quick")[cfg_name]
    if len(res.trace) < 2 or any("_raw" in st for _a, st in res.trace):
        return None
    path = []
    for act, _st in res.trace[1:]:
        if "(" not in act:
            return None
        path.append((act, None))
    if module == "Merkle.tla":
        return mk_path_case(consts, path)
    return path_case(consts["Kind"].strip('"'), consts, res.trace[0][1], path)


def state_check(chk, kind, consts, graph, path, trace):
    """state-checked replay: projection of the real object after every action = graph node state."""
    matched = 0
    for (label, dst), op, ob in zip(path, trace["ops"], trace["obs"]):
        node = graph.nodes[dst]
        if kind == "mk":
            ok = list(node["A"]) == ob["a"] and list(node["B"]) == ob["b"]
        else:
            st = node["sk"][op["s"] - 1]
            if kind == "bloom":
                want = {"bits": [1 if (i + 1) in st["bits"] else 0 for i in range(consts["P1"])],
                        "nset": st["nset"], "total": st["total"]}
            else:
                want = node_proj(kind, st)
            ok = want == ob["st"]
        if ok:
            matched += 1
        else:
            chk.note_drift(f"replay {kind}: after {label} the real projection differs from the model state")
            break
    return matched


# ---------------------------------------------------------------------------
# trace validation

def validate(traces, dev, label, pool, chunk_steps=8000):
    """Batch validation with SketchTrace.tla (Dev as given); chunks of about `chunk_steps` recorded
    steps run concurrently, each TLC with -workers 1."""
    wd = tlc.workdir(label)
    cfg = tlc.write_cfg(wd / "trace.cfg", spec="Spec", constants={"Dev": devset(dev)})
    parts, cur, steps = [], [], 0
    for t in traces:
        cur.append(t)
        steps += len(t.get("ops", ())) + 2
        if steps >= chunk_steps:
            parts.append(cur)
            cur, steps = [], 0
    if cur:
        parts.append(cur)
    futs = []
    for k, part in enumerate(parts):
        sub = f"{label}/part{k}"
        f = tlc.workdir(sub) / "traces.json"
        f.write_text(json.dumps(part, separators=(",", ":")))
        futs.append((part, f, pool.submit(tlc.run, SPEC / "SketchTrace.tla", cfg, label=sub, workers=1,
                                          timeout=3000, env={"TRACE_FILE": str(f), **BIG_JVM})))
    verdicts, results = {}, []
    for part, f, fut in futs:
        res = fut.result()
        results.append(res)
        for v in res.printed:
            if isinstance(v, tuple) and len(v) == 4 and v[0] == "V":
                verdicts[v[1]] = (v[2], v[3])
        miss = [t["id"] for t in part if t["id"] not in verdicts]
        if miss:
            raise tlc.TLCFailure(f"{label}: no verdict for traces {miss[:3]} (see {tlc.WORK / label})")
        f.unlink(missing_ok=True)
    return verdicts, results


def strip(trace):
    return {k: v for k, v in trace.items() if not k.startswith("_")}


# ---------------------------------------------------------------------------

class Runner:
    def __init__(self, chk):
        self.chk = chk
        self.traces = []
        self.meta = {}

    def run_case(self, case, origin):
        """Execute one case on the real code; returns the list of traces (possibly empty)."""
        tid = len(self.traces) + 1
        try:
            out = execute(case, tid)
        except RealError as ex:
            self.chk.violation(f"exception:{ex.where}:{ex.ex_type}", f"real code raised on a legal call: {ex}",
                               {"case": case, "origin": origin})
            return []
        for t in out:
            self.meta[t["id"]] = {"case": case, "origin": origin,
                                  "raw": t.get("_raw")}
            self.traces.append(strip(t))
            self.chk.impl_steps += len(t.get("ops", ())) or 1
        return out


def classify(verdict, trace):
    """Key of a contract failure = clause + sketch kind (known findings are matched by this key)."""
    return verdict[5:]


def judge(chk, runner, verdicts, pool):
    failing = [tid for tid, v in verdicts.items() if v[0].startswith("PROP:")]
    known_dev = as_code_dev()
    explained = set()
    if failing and known_dev:
        sub = [runner.traces[tid - 1] for tid in failing]
        v2, r2 = validate(sub, known_dev, "C20_trace_dev", pool)
        for r in r2:
            chk.add_tlc(f"SketchTrace Dev={known_dev}", r, count=False)
        explained = {tid for tid in failing if not v2[tid][0].startswith("PROP:")}
    for tid, (v, pos) in sorted(verdicts.items()):
        if v == "ACCEPT":
            continue
        m = runner.meta[tid]
        if v.startswith("PROP:"):
            key = classify(v, runner.traces[tid - 1])
            raw = m.get("raw")
            chk.violation(key, f"{v} at step {pos} of a {runner.traces[tid - 1]['kind']} execution "
                               f"(origin {m['origin']})" + (f" raw={_short(raw)}" if raw else ""),
                          {"case": m["case"], "origin": m["origin"], "verdict": v, "pos": pos,
                           "trace": runner.traces[tid - 1]})
        else:
            chk.note_drift(f"trace {tid} ({runner.traces[tid - 1]['kind']}, {m['origin']}): {v} at step {pos}")


def _short(raw):
    vs, qs = raw["vs"], raw["qs"]
    bad = [(qs[i], vs[i], qs[i + 1], vs[i + 1]) for i in range(len(vs) - 1) if vs[i] > vs[i + 1]][:2]
    out = [(q, v) for q, v in zip(qs, vs) if v < raw["min"] or v > raw["max"]][:2]
    return {"min": raw["min"], "max": raw["max"], "decreasing": bad, "outside": out}


def run(tier, seed, replay=None):
    quiet_logging()
    chk = Check(PROP, tier, seed)
    rng = random.Random(seed)
    quick = tier == "quick"
    pool = ThreadPoolExecutor(max_workers=max(2, min(8, tlc.DEFAULT_WORKERS // 2)))
    runner = Runner(chk)

    if replay:
        data = json.loads(open(replay).read())
        rp = data["replay"]
        runner.run_case(rp["case"], rp.get("origin", "replay"))
        verdicts, results = validate(runner.traces, [], "C20_replay", pool) if runner.traces else ({}, [])
        for r in results:
            chk.add_tlc("SketchTrace replay", r)
        chk.impl_traces = len(runner.traces)
        judge(chk, runner, verdicts, pool)
        return chk.finish()

    # developer switch (mutation experiments): skip the model-checking runs, keep tours + drivers
    nomc = bool(os.environ.get("VERIF_C20_NOMC"))
    # the (short) graph dumps go first into the pool: the tours must not wait behind the model checking
    graph_jobs = {name: pool.submit(_graph, name, module, consts)
                  for name, (module, consts) in graph_configs(tier).items()}
    collect_mc = (lambda runner=None: None) if nomc else model_check(chk, tier, pool, seed)
    if nomc:
        chk.assumptions.append("VERIF_C20_NOMC set: TLC model checking skipped in this run")

    # ---- code -> spec drivers (python side runs while TLC is busy) -----------------------------
    t0 = time.time()
    n = 1 if quick else 8
    for kind in ("bloom", "cms", "hll"):
        for case in drv.split_cases(rng, kind, 10 * n, 10 if quick else 14):
            runner.run_case(case, "driver:split")
        for case in drv.stream_cases(rng, kind, 60 * n, 24 if quick else 40):
            runner.run_case(case, "driver:stream")
        for case in drv.component_cases(rng, kind, 12 * n, 16):
            runner.run_case(case, "driver:component")
    for case in drv.topk_churn_cases(rng, 400 * n, 36 if quick else 60):
        runner.run_case(case, "driver:topk_churn")
    for kind in ("topk", "res"):
        for case in drv.stream_cases(rng, kind, (60 if kind == "topk" else 120) * n, 30 if quick else 60):
            runner.run_case(case, "driver:stream")
        for case in drv.component_cases(rng, kind, 20 * n, 20):
            runner.run_case(case, "driver:component")
    for case in drv.td_cases(rng, 150 * n, 300 if quick else 1500):
        runner.run_case(case, "driver:tdigest")
    for case in drv.td_component_cases(rng, 20 * n, 200):
        runner.run_case(case, "driver:tdigest_component")
    for case in drv.mk_cases(rng, 300 * n, 8, 6):
        runner.run_case(case, "driver:merkle")
    n_driver = len(runner.traces)
    chk.extra["driver_wall_s"] = round(time.time() - t0, 1)

    # ---- spec -> code: tour every edge of the dumped graphs ---------------------------------------
    matched = total_steps = 0
    tour_complete = True
    cap = 600 if quick else 6000
    for name, fut in graph_jobs.items():
        res, g = fut.result()
        module, consts = graph_configs(tier)[name]
        kind = "mk" if module == "Merkle.tla" else consts["Kind"].strip('"')
        chk.add_tlc(f"state graph {name} ({len(g.nodes)} nodes, {g.n_edges()} edges)", res, count=False,
                    note="dumped for the edge tour")
        paths = list(tlc.edge_tour(g, rng=random.Random(seed)))
        if cap is not None and len(paths) > cap:
            paths = random.Random(seed).sample(paths, cap)
            tour_complete = False
        for root, path in paths:
            case = mk_path_case(consts, path) if kind == "mk" else path_case(kind, consts, g.nodes[root], path)
            out = runner.run_case(case, f"model:{name}")
            chk.replays += 1
            if out:
                tr = out[0]
                steps = tr["ops"][1:] if kind == "mk" else tr["ops"]
                sub = dict(tr, ops=steps, obs=tr["obs"][1:] if kind == "mk" else tr["obs"])
                matched += state_check(chk, kind, consts, g, path, sub)
                total_steps += len(path)
        chk.extra[f"tour_{name}"] = {"nodes": len(g.nodes), "edges": g.n_edges(), "paths": len(paths)}
    chk.extra["replay_steps_matched"] = matched
    chk.extra["replay_steps_total"] = total_steps
    chk.exhaustive = tour_complete

    n_before = len(runner.traces)
    collect_mc(runner)
    chk.extra["traces_from_tlc_counterexamples"] = len(runner.traces) - n_before

    verdicts, results = validate(runner.traces, [], "C20_trace", pool)
    for r in results:
        chk.add_tlc("SketchTrace batch (contract + one-step conformance)", r,
                    note="trace validation, one state per recorded step")
    chk.impl_traces = len(runner.traces)
    chk.extra["traces_from_drivers"] = n_driver
    chk.extra["traces_from_model_paths"] = len(runner.traces) - n_driver
    by_kind = {}
    for t in runner.traces:
        by_kind[t["kind"]] = by_kind.get(t["kind"], 0) + 1
    chk.extra["traces_by_kind"] = by_kind
    judge(chk, runner, verdicts, pool)
    pool.shutdown()

    seen = set()
    for t in runner.traces:
        if t["kind"] not in seen and len(t.get("ops", [1])) > 1:
            seen.add(t["kind"])
            chk.sample({"origin": runner.meta[t["id"]]["origin"], "trace": t}, cap=7)
    chk.assumptions += [
        "hash functions are uninterpreted: the model is checked for ALL hash tables of the bounded dimensions; "
        "on the real code the values returned by the real _hash are logged (drivers) or injected (replay)",
        "SHA-256 is collision free (Merkle subtree hash modelled by the covered item sequence)",
        "items are python literals that are pairwise unequal and have distinct repr(); equal-but-differently-"
        "printed items (1 vs 1.0) are outside the statement as read here",
        "t-digest is monitored only, over integers scaled to 1e-6 of the observed range with a guard band of one "
        "unit (floating-point rounding below that is not judged)",
        "TopK.merge, ReservoirSampler.merge and TDigest centroid structure are not constrained by the statement",
    ]
    chk.explanation = (
        "Contract clauses (SketchContract.tla) are evaluated by TLC on the bounded model for every hash table "
        "and on every recorded step of real executions; model operators (SketchOps.tla) are applied to the "
        "previously observed real state and compared with the next observed state (one-step conformance).")
    return chk.finish()
