"""C09 — capacity primitives never over-admit or leak, wake in order, and let time pass.

Parts (DESIGN.md 5/C09, BUILDER_GUIDE.md):
  1. TLC: specs/capacity/Capacity.tla (counted primitives: Resource, Semaphore, Mutex, RWLock, Bulkhead,
     concurrency limiters, PreemptibleResource without preemption), Pool.tla (connection pool) and
     Barrier.tla with Dev={} must satisfy every contract invariant (+ liveness); every deviation alone
     must be caught by the intended invariant.
  2. spec -> code: every scenario of the bounded TLC envelope is executed by worker processes inside a real
     Simulation on every primitive class of that kind; the grant instants must be one of the outcomes TLC
     computed for that scenario (terminal states of the state dump).
  3. code -> spec: those runs plus seeded random / adversarial worker populations beyond the bounds are
     recorded and validated by the trace specs (CapacityTrace / PoolTrace / BarrierTrace).
  4. classification of contract failures against known_findings.json; evidence.
"""
from __future__ import annotations

import json
import random
import re
import time
from concurrent.futures import ThreadPoolExecutor

from .. import tlc
from ..common import Check, load_known
from ..probe import quiet_logging
from . import c09_world as world
from . import c09_extra as extra

SPEC = tlc.SPECS / "capacity"
CAP_INVS = ["InvNoOverAdmit", "InvConservation", "InvAvailBound", "InvFifo", "InvPrompt", "InvTimePasses",
            "InvServed"]
POOL_INVS = ["InvPoolLimit", "InvPoolConservation", "InvPoolBounds", "InvPoolFifo", "InvPoolPrompt",
             "InvPoolServed"]
BARRIER_INVS = ["InvBarrierLimit", "InvBarrierNotEarly", "InvBarrierPrompt", "InvTimePasses", "InvBarrierServed"]
PREEMPT_INVS = ["InvNoOverAdmit", "InvConservation", "InvAvailBound", "InvAllReturned"]
# (deviation, module, invariant that must catch it when it is switched on alone)
DEVIATIONS = [
    ("zero_delay_poll", "Capacity", "InvTimePasses"),
    ("wake_lifo", "Capacity", "InvFifo"),
    ("admit_when_full", "Capacity", "InvNoOverAdmit"),
    ("release_leak", "Capacity", "InvConservation"),
    ("release_no_wake", "Capacity", "InvPrompt"),
    ("pool_counts_after_setup", "Pool", "InvPoolLimit"),
    ("zero_delay_poll", "Barrier", "InvTimePasses"),
    ("barrier_off_by_one", "Barrier", "InvBarrierNotEarly"),
    ("barrier_no_wake", "Barrier", "InvBarrierPrompt"),
    ("preempted_grant_releasable", "Preempt", "InvNoOverAdmit|InvConservation"),
]
POOL_DEVS = {d for d, m, _ in DEVIATIONS if m == "Pool"}
PRIMS_OF_KIND = {"fifo": ["Resource", "Semaphore", "PreemptibleResource", "Mutex"], "rwlock": ["RWLock"],
                 "bulkhead": ["Bulkhead"], "try": ["WeightedConcurrency", "FixedConcurrency", "DynamicConcurrency"]}
TICKS = (10**6, 10**3, 10**9)
# several TLC processes run side by side: keep each JVM's helper threads few
JVM_ENV = {"JAVA_TOOL_OPTIONS": "-XX:ParallelGCThreads=2 -XX:CICompilerCount=2"}


def as_code_dev():
    return sorted({e["deviation"] for e in load_known().get("open", [])
                   if e["property"] == "C09" and e.get("deviation")})


def devset(dev):
    return "{" + ",".join(f'"{d}"' for d in dev) + "}"


def cap_consts(cfgs, *, nw=3, maxarr=1, dev=()):
    return {"NW": nw, "Cfgs": f"<- {cfgs}", "MaxArr": maxarr, "Dev": devset(dev)}


def pool_consts(maxes, *, nw=3, lat=2, npolls=3, maxarr=2, maxhold=2, dev=()):
    return {"NW": nw, "Maxes": "{" + ",".join(str(m) for m in maxes) + "}", "Lat": lat, "PollI": 1,
            "NPolls": npolls, "MaxArr": maxarr, "MaxHold": maxhold, "Dev": devset(dev)}


def barrier_consts(*, nw=4, parties=(1, 2, 3), maxarr=2, dev=()):
    return {"NW": nw, "Parties": "{" + ",".join(str(m) for m in parties) + "}", "MaxArr": maxarr, "Dev": devset(dev)}


def preempt_consts(*, nw=3, caps=(1,), maxprio=1, maxarr=1, holds=(0, 2), dev=()):
    return {"NW": nw, "Caps": "{" + ",".join(map(str, caps)) + "}", "MaxPrio": maxprio, "MaxArr": maxarr,
            "Holds": "{" + ",".join(map(str, holds)) + "}", "Dev": devset(dev)}


PREEMPT_ENVELOPE = dict(nw=3, caps=(1,), maxprio=1, maxarr=1, holds=(2,))
POOL_ENVELOPE = dict(maxes=(1, 2), nw=3, lat=2, maxarr=2, maxhold=2)

# ---------------------------------------------------------------------------
# 1. model checking (TLC processes run side by side)

def mc_jobs(tier):
    """(name, module, constants, invariants, liveness?, dump?, workers)"""
    q = tier == "quick"
    big = max(2, tlc.DEFAULT_WORKERS // 2)
    mid = max(1, tlc.DEFAULT_WORKERS // 4)
    jobs = [
        ("cap_main", "CapacityMC", cap_consts("MCQuick" if q else "MCFull"), CAP_INVS, not q, True, big),
        ("pool_12", "Pool", pool_consts((1, 2), maxhold=1 if q else 2), POOL_INVS, not q, False, mid),
        ("barrier", "Barrier", barrier_consts(), BARRIER_INVS, True, False, 1),
        ("preempt", "Preempt", preempt_consts(**PREEMPT_ENVELOPE), PREEMPT_INVS, True, False, 1 if q else mid),
    ]
    if q:
        jobs.append(("cap_live", "CapacityMC", cap_consts("MCLive"), CAP_INVS, True, False, 1))
    else:
        jobs += [
            ("cap_more", "CapacityMC", cap_consts("MCMore"), CAP_INVS, True, True, big),
            ("cap_wide", "CapacityMC", cap_consts("MCWide", maxarr=2), CAP_INVS, False, False, big),
            ("cap_four", "CapacityMC", cap_consts("MCFour", nw=4, maxarr=1), CAP_INVS, False, False, big),
            ("pool_slow", "Pool", pool_consts((1, 2), lat=3, npolls=4, maxarr=3, maxhold=3), POOL_INVS, False, False,
             mid),
            ("pool_nw4", "Pool", pool_consts((1, 2, 3), nw=4, maxarr=2, maxhold=1), POOL_INVS, False, False, mid),
            ("preempt_cap2", "Preempt", preempt_consts(caps=(1, 2), maxprio=1, holds=(0, 2)), PREEMPT_INVS, False, False,
             big),
            ("preempt_prio3", "Preempt", preempt_consts(caps=(1,), maxprio=2, holds=(0, 2)), PREEMPT_INVS, True, False,
             mid),
            ("barrier_nw5", "Barrier", barrier_consts(nw=5, parties=(2, 3, 4), maxarr=2), BARRIER_INVS, True, False,
             mid),
        ]
    return jobs


LIVENESS = {"Preempt": "EventuallyQuiet"}


def run_tlc_job(job):
    name, module, consts, invs, live, dump, workers, label = job
    wd = tlc.workdir(label)
    cfg = tlc.write_cfg(wd / "mc.cfg", spec="Spec" if live else None, constants=consts, invariants=invs,
                        properties=[LIVENESS.get(module, "EventuallyServed")] if live else [])
    extra = ["-dump", str(wd / "states")] if dump else None
    res = tlc.run(SPEC / f"{module}.tla", cfg, label=label, workers=workers, timeout=2400, extra=extra,
                  heap="3g" if workers > 1 else "1g", env=JVM_ENV)
    return res, wd


def start_model_checking(tier):
    """Submit all TLC jobs; returns (executor, {name: (job, future)})."""
    ex = ThreadPoolExecutor(max_workers=4 if tier == "quick" else 3)
    futs = {}
    for (name, module, consts, invs, live, dump, workers) in mc_jobs(tier):
        job = (name, module, consts, invs, live, dump, workers, f"C09_mc_{name}")
        futs[name] = (job, ex.submit(run_tlc_job, job))
    for dev, module, inv in DEVIATIONS:
        if module == "Pool":
            consts, invs, mod = pool_consts((1,), maxarr=0, maxhold=1, dev=[dev]), POOL_INVS, "Pool"
        elif module == "Preempt":
            consts, invs, mod = preempt_consts(maxarr=1, holds=(2,), dev=[dev]), PREEMPT_INVS, "Preempt"
        elif module == "Barrier":
            consts, invs, mod = barrier_consts(nw=3, parties=(2,), maxarr=1, dev=[dev]), BARRIER_INVS, "Barrier"
        else:
            consts, invs, mod = cap_consts("MCSens", maxarr=0, dev=[dev]), CAP_INVS, "CapacityMC"
        name = f"dev_{module}_{dev}"
        job = (name, mod, consts, invs, False, False, 1, f"C09_{name}")
        futs[name] = (job, ex.submit(run_tlc_job, job))
    return ex, futs


def collect_model_checking(chk, futs):
    """Wait for TLC, self-check the machinery, return {cfg: {scenario_key: set(outcomes)}}."""
    outcomes = {}
    for name, (job, fut) in futs.items():
        res, wd = fut.result()
        _, module, consts, invs, live, dump, _, _ = job
        if name.startswith("dev_"):
            _, mod0, dev = name.split("_", 2)
            chk.add_tlc(f"{module} Dev={{{dev}}}", res, count=False, note="sensitivity run, must violate")
            want = next(i for d, m, i in DEVIATIONS if d == dev and m == mod0)
            chk.require(res.violated in want.split("|"),
                        f"{mod0}: deviation {dev} not caught by {want} (got {res.violated})")
            chk.sensitivity[f"{mod0}:{dev}"] = res.violated
            continue
        chk.add_tlc(f"{module} Dev={{}} {name}" + (" +liveness" if live else ""), res,
                    note=" ".join(f"{k}={v}" for k, v in consts.items()))
        chk.require(res.ok, f"{module}.tla ({name}) with Dev={{}} violates {res.violated}: the model itself is wrong")
        if dump:
            for st in tlc.parse_dump(wd / "states.dump", must_contain="term |-> TRUE"):
                sc = st["sc"]
                c = sc["cfg"]
                ck = (c["kind"], c["cap"], c["qmax"], consts["NW"])
                key = (tuple(sc["amt"]), tuple(sc["mode"]), tuple(sc["arr"]), tuple(sc["hold"]))
                outcomes.setdefault(ck, {}).setdefault(key, set()).add((tuple(st["h"]["gt"]), st["p"]["avail"]))
            (wd / "states.dump").unlink(missing_ok=True)
    return outcomes


# ---------------------------------------------------------------------------
# scenarios

def scen_from_model(prim, ck, key, tick_ns, order=None, max_readers=None):
    amt, mode, arr, hold = key
    kind, cap, qmax, _ = ck
    ws = []
    for i in range(len(amt)):
        a = (cap if mode[i] == "w" else 1) if kind == "rwlock" else amt[i]
        ws.append({"arr": arr[i], "rounds": [{"pre": 0, "a": a, "m": mode[i], "holds": [hold[i]]}]})
    s = {"prim": prim, "kind": kind, "cap": cap, "qmax": qmax, "max_wait": None, "tick_ns": tick_ns,
         "order": order, "workers": ws}
    if kind == "rwlock":
        s["max_readers"] = max_readers
    return s


def random_cap_scenario(rng, prim, spin_prone):
    kind = world.KIND_OF[prim]
    nw = rng.randint(2, 8)
    cap = 1 if prim == "Mutex" else rng.choice((1, 1, 2, 2, 3, 4, 6))
    s = {"prim": prim, "kind": kind, "cap": cap, "qmax": 0, "max_wait": None, "tick_ns": rng.choice(TICKS)}
    if kind == "rwlock":
        mr = rng.choice((None, None, 1, 2, 3))
        s["max_readers"] = mr
        s["cap"] = cap = mr if mr else nw
    if kind == "bulkhead":
        s["qmax"] = rng.choice((0, 1, 1, 2, 3, 8))
        s["max_wait"] = rng.choice((None, None, 1, 2, 4))
    zero = spin_prone and rng.random() < 0.75          # contention at one instant only
    burst = rng.random() < 0.4
    t0 = rng.randint(0, 3)
    ws = []
    for _ in range(nw):
        arr = t0 if (burst or (zero and rng.random() < 0.8)) else rng.randint(0, 6)
        rounds = []
        for _ in range(1 if kind == "bulkhead" else rng.choice((1, 1, 1, 2, 3))):
            if kind == "rwlock":
                m = "w" if rng.random() < 0.4 else "r"
                a = cap if m == "w" else 1
            else:
                m = "x"
                a = 1 if prim in ("Mutex", "Bulkhead", "FixedConcurrency", "DynamicConcurrency") else \
                    min(cap, rng.choice((1, 1, 1, 2, 2, 3, cap)))
            if zero:
                holds = [0] * rng.randint(0, 3)
                pre = 0
            else:
                holds = [rng.choice((0, 0, 1, 1, 2, 3, 5)) for _ in range(rng.randint(1, 2))]
                pre = rng.choice((0, 0, 1, 2))
            rnd = {"pre": pre, "a": a, "m": m, "holds": holds}
            if prim in ("Resource", "PreemptibleResource") and rng.random() < 0.15:
                rnd["dbl"] = True       # release the grant twice (must be a no-op)
            rounds.append(rnd)
        ws.append({"arr": arr, "rounds": rounds})
    s["workers"] = ws
    order = list(range(nw))
    rng.shuffle(order)
    s["order"] = order
    return s


def random_pool_scenario(rng):
    nw = rng.randint(2, 7)
    burst = rng.random() < 0.4
    ws = []
    for _ in range(nw):
        rounds = [{"pre": rng.choice((0, 0, 1, 3)), "holds": [rng.choice((0, 1, 2, 3, 5, 8, 14))]}
                  for _ in range(rng.choice((1, 1, 2)))]
        ws.append({"arr": 0 if burst else rng.randint(0, 8), "rounds": rounds})
    order = list(range(nw))
    rng.shuffle(order)
    return {"prim": "ConnectionPool", "max": rng.choice((1, 1, 2, 2, 3)), "lat": rng.choice((0, 1, 2, 2, 3, 5)),
            "timeout": rng.choice((10, 10, 12, 20)), "idle": rng.choice((2, 5, 1000)), "order": order,
            "workers": ws}


def pool_scenarios_from_model(env):
    """Every scenario of the Pool.tla envelope (arrival / hold vectors), mapped to real parameters."""
    import itertools
    out = []
    nw = env["nw"]
    for mx in env["maxes"]:
        for arr in itertools.product(range(env["maxarr"] + 1), repeat=nw):
            for hold in itertools.product(range(env["maxhold"] + 1), repeat=nw):
                out.append({"prim": "ConnectionPool", "max": mx, "lat": env["lat"], "timeout": 10, "idle": 1000,
                            "order": None,
                            "workers": [{"arr": arr[i], "rounds": [{"pre": 0, "holds": [hold[i]]}]}
                                        for i in range(nw)]})
    return out


# ---------------------------------------------------------------------------
# trace validation helpers

_VLINE = re.compile(r'<<\s*"V",\s*(\d+),\s*"([^"]*)",\s*(-?\d+)(?:,\s*"([^"]*)")?\s*>>')


def _validate_chunk(module, part, label):
    wd = tlc.WORK / label
    wd.mkdir(parents=True, exist_ok=True)
    cfg = tlc.write_cfg(wd / "trace.cfg", spec="Spec")
    f = wd / "traces.json"
    f.write_text(json.dumps(part, separators=(",", ":")))
    res = tlc.run(SPEC / module, cfg, label=label, workers=1, timeout=3000,
                  env={"TRACE_FILE": str(f), **JVM_ENV}, heap="2g")
    verdicts = {}
    for m in _VLINE.finditer(res.stdout):       # TLC wraps long tuples over several lines
        verdicts[int(m.group(1))] = (m.group(2), int(m.group(3)), m.group(4) or "")
    miss = [t["id"] for t in part if t["id"] not in verdicts]
    if miss:
        raise tlc.TLCFailure(f"{label}: no verdict for traces {miss[:3]} (see {wd / 'tlc.out'})")
    f.unlink()
    return verdicts, res


def cap_key(verdict, prim):
    """Name a contract failure by what fails and where (never a catch-all)."""
    clause = verdict[5:]
    if clause == "clock_frozen_by_waiter":
        return f"zero_delay_poll:{prim}"
    return f"{clause}:{prim}"


# ---------------------------------------------------------------------------

BATCH_MODULE = {"cap": "CapacityTrace.tla", "pool": "PoolTrace.tla", "barrier": "BarrierTrace.tla"}
BARRIER_ENVELOPE = dict(nw=4, parties=(1, 2, 3), maxarr=2)


def make_world(scen, known_dev):
    """scenario -> (world object (not yet run), batch name, primitive label)"""
    prim = scen["prim"]
    if prim == "ConnectionPool":
        return world.PoolWorld(scen), "pool", prim
    if prim == "Barrier":
        return extra.BarrierWorld(scen), "barrier", prim
    if prim == "ThreadPool":
        return extra.ThreadPoolWorld(scen), "cap", prim
    if prim == "PreemptibleResource+prio":
        return extra.PreemptWorld(scen), "cap", "PreemptibleResource"
    if prim == "Bulkhead":
        return world.BulkheadWorld(scen), "cap", prim
    return world.World(scen), "cap", prim


def judge(chk, batch, verdict, pos, drift, m, known_dev):
    """Turn one trace verdict into a violation / known finding / drift note."""
    prim = m["prim"]
    if verdict.startswith("PROP:"):
        clause = verdict[5:]
        if batch == "pool":
            explained = [d for d in known_dev if d in POOL_DEVS and clause == "pool_over_max" and drift == ""]
            key = explained[0] if explained else f"{clause}:{prim}"
            desc = f"{verdict} at record {pos} ({prim}, {m['origin']}; model drift: {drift or 'none'})"
        else:
            key = cap_key(verdict, prim)
            desc = f"{verdict} at record {pos} ({prim}, {m['origin']})"
        chk.violation(key, desc, {"scenario": m["scenario"], "verdict": verdict, "pos": pos})
    elif verdict != "ACCEPT":
        chk.note_drift(f"{prim} ({m['origin']}): {verdict} at {pos}; scenario {json.dumps(m['scenario'])[:300]}")
    elif drift:
        chk.note_drift(f"{prim} ({m['origin']}): {drift}; scenario {json.dumps(m['scenario'])[:300]}")


def run(tier, seed, replay=None):
    quiet_logging()
    chk = Check("C09", tier, seed)
    known_dev = as_code_dev()
    if replay:
        return do_replay(chk, replay, known_dev)
    rng = random.Random(seed)
    quick = tier == "quick"
    # classes with the open zero_delay_poll finding: their random populations contend mostly inside one instant
    spin_prone = {k.split(":", 1)[1] for k in chk.known_open if k.startswith("zero_delay_poll:")}
    t0 = time.time()
    phase = {}
    ex, futs = start_model_checking(tier)
    vex = ThreadPoolExecutor(max_workers=max(2, tlc.DEFAULT_WORKERS // 4))
    vfuts = []          # (batch, future)
    traces = {"cap": [], "pool": [], "barrier": []}
    sent = {"cap": 0, "pool": 0, "barrier": 0}
    meta = {}
    ntid = [0]
    per_prim = {}

    def execute(scen, origin):
        w, batch, prim = make_world(scen, known_dev)
        w.run()
        ntid[0] += 1
        tid = ntid[0]
        traces[batch].append(w.trace(tid, known_dev) if batch == "pool" else w.trace(tid))
        meta[tid] = {"origin": origin, "scenario": scen, "abort": w.abort, "prim": prim, "batch": batch}
        per_prim[prim] = per_prim.get(prim, 0) + 1
        chk.impl_steps += len(w.log)
        if w.err:
            chk.violation(f"exception:{w.err.split(':')[0]}:{prim}", f"real code raised {w.err}",
                          {"scenario": scen})
        if w.abort == "overrun":
            chk.note_drift(f"run aborted by the delivery cap: {prim}")
        return w

    def flush(chunk=800):
        """hand the traces recorded so far to TLC (separate processes, in the background)"""
        for batch, ts in traces.items():
            new = ts[sent[batch]:]
            for k in range(0, len(new), chunk):
                part = new[k:k + chunk]
                label = f"C09_trace_{batch}_{len(vfuts)}"
                vfuts.append((batch, vex.submit(_validate_chunk, BATCH_MODULE[batch], part, label)))
            sent[batch] = len(ts)

    # code -> spec, part 1 (while TLC is busy): random / adversarial populations beyond the model's bounds
    n_rand = 70 if quick else 600
    prims = [p for ps in PRIMS_OF_KIND.values() for p in ps]
    for k in range(n_rand):
        for prim in prims:
            execute(random_cap_scenario(rng, prim, prim in spin_prone), "random")
        for _ in range(3):
            execute(random_pool_scenario(rng), "random")
        execute(extra.random_barrier_scenario(rng, "Barrier" in spin_prone), "random")
        execute(extra.random_threadpool_scenario(rng), "random")
        execute(extra.random_preempt_scenario(rng), "random")
    # the bounded envelopes of Pool.tla and Barrier.tla, every scenario (spec -> code for these two models)
    pscens = pool_scenarios_from_model(dict(POOL_ENVELOPE, maxhold=1) if quick else POOL_ENVELOPE)
    if quick and len(pscens) > 400:
        pscens = rng.sample(pscens, 400)
    for s in pscens:
        execute(s, "model")
        chk.replays += 1
    import itertools
    be = BARRIER_ENVELOPE
    for n in be["parties"]:
        for i, arrs in enumerate(itertools.product(range(be["maxarr"] + 1), repeat=be["nw"])):
            execute(extra.barrier_scenario(n, list(arrs), TICKS[i % 3]), "model")
            chk.replays += 1
    pe = PREEMPT_ENVELOPE
    per_w = list(itertools.product(range(1, pe["caps"][0] + 1), range(pe["maxprio"] + 1), (False, True),
                                   range(pe["maxarr"] + 1), pe["holds"]))
    pscs = list(itertools.product(per_w, repeat=pe["nw"]))
    if quick and len(pscs) > 300:
        pscs = rng.sample(pscs, 300)
    for i, ws in enumerate(pscs):
        amt, prio, pre, arr, hold = zip(*ws)
        execute(extra.preempt_scenario_from_model(pe["caps"][0], amt, prio, pre, arr, hold, TICKS[i % 3],
                                                  order=None if i % 2 == 0 else list(reversed(range(pe["nw"]))),
                                                  again=(i % 3 == 0)), "model")
        chk.replays += 1
    phase["random_and_envelope_runs"] = round(time.time() - t0, 1)
    flush()

    # TLC results; spec -> code: every scenario of the Capacity envelope on every primitive class of its kind,
    # grant instants compared with the outcomes TLC computed
    outcomes = collect_model_checking(chk, futs)
    ex.shutdown()
    phase["tlc_done"] = round(time.time() - t0, 1)
    matched = mismatched = skipped = 0
    total_scen = 0
    cap_per = 100 if quick else 1200
    for ck, out in sorted(outcomes.items()):
        kind, cap, qmax, nw = ck
        keys = sorted(out)
        total_scen += len(keys)
        for prim in PRIMS_OF_KIND[kind]:
            if prim == "Mutex" and cap != 1:
                continue
            use = keys
            if prim in ("FixedConcurrency", "DynamicConcurrency"):
                use = [k for k in keys if all(a == 1 for a in k[0])]
            if len(use) > cap_per:
                use = rng.sample(use, cap_per)
            for i, key in enumerate(use):
                mr = None
                if kind == "rwlock":
                    mr = cap if (cap < nw or i % 2) else None
                order = None if i % 2 == 0 else list(reversed(range(nw)))
                scen = scen_from_model(prim, ck, key, TICKS[i % len(TICKS)], order, mr)
                w = execute(scen, f"model:{kind}/cap{cap}/q{qmax}")
                chk.replays += 1
                if w.abort or w.err:
                    skipped += 1
                    continue
                gt = [None] * nw
                for rid, t in w.gt.items():
                    gt[w.widx_of(rid)] = t
                got = (tuple(-1 if g is None else g for g in gt), w.ad.counters()[0])
                if got in out[key]:
                    matched += 1
                else:
                    mismatched += 1
                    chk.note_drift(f"{prim} {ck} scenario {key}: grant instants/avail {got} not among the "
                                   f"model's outcomes {sorted(out[key])[:3]}")
    chk.extra["model_scenarios_total"] = total_scen
    chk.extra["replay_outcome_matched"] = matched
    chk.extra["replay_outcome_mismatched"] = mismatched
    chk.extra["replay_skipped_aborted"] = skipped
    chk.exhaustive = False      # exhaustive inside TLC; the envelope replay is a seeded sample per class
    phase["model_scenarios_run"] = round(time.time() - t0, 1)
    flush()

    # trace validation results (contract oracle + implementation-shaped model following)
    verdicts = {}
    for batch, f in vfuts:
        v, res = f.result()
        verdicts.update(v)
        chk.add_tlc(f"{BATCH_MODULE[batch][:-4]} batch" + (f" (model Dev={known_dev})" if batch == "pool" else ""),
                    res, note="trace validation")
    vex.shutdown()
    phase["traces_validated"] = round(time.time() - t0, 1)
    chk.extra["phase_s"] = phase
    chk.impl_traces = len(meta)
    for tid in sorted(verdicts):
        v, pos, drift = verdicts[tid]
        judge(chk, meta[tid]["batch"], v, pos, drift, meta[tid], known_dev)

    for b in ("cap", "pool", "barrier"):
        if traces[b]:
            chk.sample({"batch": b, "scenario": meta[traces[b][0]["id"]]["scenario"], "trace": traces[b][0]})
    chk.extra["real_runs_per_primitive"] = per_prim
    chk.extra["runs_aborted_by_spin_guard"] = sum(1 for m in meta.values() if m["abort"] == "spin")
    chk.assumptions = [
        "hold times / arrival offsets are multiples of a tick whose float value converts to nanoseconds exactly",
        "a worker holds at most one grant of the primitive at a time; amounts never exceed the capacity",
        "RWLock is judged as a counted resource: capacity = max_readers (or the population when unlimited), a "
        "reader takes 1, a writer takes all",
        "for primitives whose grant is only visible when the acquiring process resumes (Mutex, Semaphore, RWLock, "
        "Bulkhead, Barrier) equalities and arrival order are judged at the end of each instant and at every "
        "re-delivery of a blocked waiter; inequalities at every step",
        "a frozen clock is reported only when more than 2n+2 consecutive engine deliveries at one instant were "
        "re-deliveries of blocked waiters (n = number of requests): then the same deliveries repeat forever",
        "pool: waiting by timed polling (0.1 s) is accepted as 'letting time pass'; arrival order is not demanded "
        "of PreemptibleResource with priorities nor of ThreadPool (counting clauses only)",
    ]
    chk.explanation = ("TLC checks the contract on the implementation-shaped models for all scenarios within the "
                       "bounds and all same-instant delivery orders; every bounded scenario and random larger "
                       "populations run as generator processes inside the real Simulation and are validated by "
                       "the TLA+ trace specs.")
    return chk.finish()


def do_replay(chk, path, known_dev):
    data = json.loads(open(path).read())
    scen = data["replay"]["scenario"]
    w, batch, prim = make_world(scen, known_dev)
    w.run()
    tr = w.trace(1, known_dev) if batch == "pool" else w.trace(1)
    v, _ = _validate_chunk(BATCH_MODULE[batch], [tr], "C09_replay")
    verdict, pos, drift = v[1]
    chk.impl_traces = 1
    print(f"replay: {prim} verdict={verdict} at {pos} drift={drift!r} err={w.err} abort={w.abort}")
    if w.err:
        chk.violation(f"exception:{w.err.split(':')[0]}:{prim}", f"real code raised {w.err}", {"scenario": scen})
    judge(chk, batch, verdict, pos, drift, {"origin": "replay", "scenario": scen, "prim": prim}, known_dev)
    return chk.finish()
