"""C10 helper: real rate-limiter policy objects driven directly with generated Instants.

Everything here talks to the REAL classes of happysimulator/components/rate_limiter/policy.py.
A `Rec` wraps one policy object, performs try_acquire / time_until_available / record_success /
record_failure calls at integer-nanosecond instants and records the trace that
specs/ratelimit/LimiterTrace.tla judges (times relative to the trace's base instant, < 2^31).
"""
from __future__ import annotations

from fractions import Fraction

from happysimulator.components.rate_limiter import (AdaptivePolicy, FixedWindowPolicy, LeakyBucketPolicy,
                                                    SlidingWindowPolicy, TokenBucketPolicy)
from happysimulator.core.temporal import Instant

LIMIT = 1_050_000_000        # largest relative instant used by drivers (ns)
WCAP = 1_000_000_000         # recorded waits are capped here (t + w stays < 2^31)
G = 2                        # guard band (ns) between float and exact arithmetic
E9 = 10 ** 9

FIELDS = dict(pol="", mc=0, g=G, P=1, cc=0, ic=0, W=1, N=1, rmin=0, rmax=0, r0=0, p0=1, step=0, fn=1, fd=2)


def _floor_ns_per_token(rate) -> int:
    return max(1, int(Fraction(E9) / Fraction(rate)))


def _ceil(fr: Fraction) -> int:
    return -((-fr.numerator) // fr.denominator)


def _micro(rate) -> int:
    return int(round(rate * 1e6))


def header(**kw):
    h = dict(FIELDS)
    h.update(kw)
    return h


# ---------------------------------------------------------------------------
# policy factories: (real policy object, trace header)

def mk_tb(*, P=None, rate=None, C=1, I=None):
    """Token bucket.  P = integer ns per token (exact model on) or rate = float tokens/s."""
    if P is not None:
        rate = E9 / P
        pf, cc, mc = P, int(C * P), 1
        ic = cc if I is None else int(I * P)
    else:
        pf = _floor_ns_per_token(rate)
        per = Fraction(E9) / Fraction(rate)
        cc, mc = _ceil(Fraction(C) * per), 0
        ic = cc if I is None else _ceil(Fraction(I) * per)
    pol = TokenBucketPolicy(capacity=C, refill_rate=rate, initial_tokens=I)
    return pol, header(pol="tb", mc=mc, P=pf, cc=cc, ic=ic)


def mk_lb(*, P=None, rate=None):
    if P is not None:
        rate, pf, mc = E9 / P, P, 1
    else:
        pf, mc = _floor_ns_per_token(rate), 0
    return LeakyBucketPolicy(leak_rate=rate), header(pol="lb", mc=mc, P=pf)


def mk_sw(*, W, N):
    return SlidingWindowPolicy(window_size_seconds=W / 1e9, max_requests=N), header(pol="sw", mc=1, W=W, N=N)


def mk_fw(*, W, N):
    return FixedWindowPolicy(requests_per_window=N, window_size=W / 1e9), header(pol="fw", mc=1, W=W, N=N)


FACTORS = {0.5: (1, 2), 0.25: (1, 4), 0.75: (3, 4), 0.9: (9, 10)}


def mk_ad(*, init, mn, mx, step=None, factor=0.5, W=E9):
    pol = AdaptivePolicy(initial_rate=init, min_rate=mn, max_rate=mx, increase_step=step,
                         decrease_factor=factor, window_size=W / 1e9)
    fn, fd = FACTORS[factor]
    st = step if step is not None else init * 0.1
    return pol, header(pol="ad", mc=0, W=W, rmin=_micro(mn), rmax=_micro(mx), r0=_micro(init),
                       p0=_floor_ns_per_token(init), step=_micro(st), fn=fn, fd=fd)


# ---------------------------------------------------------------------------

class Rec:
    """One recorded execution of a real policy object."""

    def __init__(self, pol, hdr, base=0, origin=""):
        self.pol, self.h, self.base, self.origin = pol, hdr, base, origin
        self.ops = []
        self.t = 0
        self.err = None

    def _at(self, t):
        assert t >= self.t, (t, self.t)
        self.t = t
        return Instant(self.base + t)

    def acq(self, t) -> bool:
        ok = bool(self.pol.try_acquire(self._at(t)))
        self.ops.append(["a", t, 1 if ok else 0])
        return ok

    def tua(self, t) -> int:
        w = self.pol.time_until_available(self._at(t)).nanoseconds
        w = max(-1, min(int(w), WCAP))
        self.ops.append(["u", t, w])
        return w

    def feedback(self, t, up: bool):
        now = self._at(t)
        if up:
            self.pol.record_success(now)
        else:
            self.pol.record_failure(now)
        r = self.pol.current_rate
        self.ops.append(["s" if up else "f", t, _micro(r), _floor_ns_per_token(r) if r > 0 else 1])

    def trace(self, tid):
        d = dict(self.h)
        d["id"] = tid
        d["ops"] = self.ops
        return d

    def admitted(self):
        return [o[1] for o in self.ops if o[0] == "a" and o[2] == 1]


# ---------------------------------------------------------------------------
# code -> spec: adversarial random drivers (instants generated relative to the policy's own
# boundaries: k*U, k*U +- 1 ns, t + wait - 1, t + wait, dense same-instant bursts)

UNITS_INT = [1, 2, 3, 7, 10, 333, 1000, 1024, 10 ** 6, 3 * 10 ** 6, 7 * 10 ** 6, 10 ** 7, 3 * 10 ** 7,
             10 ** 8, 125 * 10 ** 6, 2 * 10 ** 8, 3 * 10 ** 8]
RATES_FLOAT = [3.0, 7.0, 0.3 * 7, 0.1 * 3, 11.0, 13.7, 1e3 / 3, 1e6 / 7, 2.5, 0.7 * 9, 99.9, 6.0]
WINDOWS = [3, 7, 10, 1000, 333, 10 ** 6, 10 ** 7, 3 * 10 ** 7, 10 ** 8, 3 * 10 ** 8, 7 * 10 ** 8, 10 ** 9,
           10 ** 8, 10 ** 8, 2 * 10 ** 8, 5 * 10 ** 7]


MAKERS = {}


def make(desc):
    """(policy, header) from a description dict(mk=..., kw=...)."""
    return MAKERS[desc["mk"]](**desc["kw"])


def random_policy(rng, kind):
    """Returns (pol, hdr, unit_ns, base_ns, desc) with desc = dict(mk, kw, base) (re-creatable)."""
    if kind == "tb":
        C = rng.choice([1, 1, 2, 3, 5])
        I = rng.choice([None, None, 0, 1, C])
        if rng.random() < 0.7:
            P = rng.choice(UNITS_INT)
            while C * P > E9:
                C = max(1, C - 1)
            I = None if I is None else min(I, C)
            kw = dict(P=P, C=C, I=I)
        else:
            rate = rng.choice(RATES_FLOAT)
            C = min(C, max(1, int(rate)))      # keep C/rate <= 1 s of credit
            I = None if I is None else min(I, C)
            kw = dict(rate=rate, C=C, I=I)
    elif kind == "lb":
        kw = dict(P=rng.choice(UNITS_INT)) if rng.random() < 0.7 else dict(rate=rng.choice(RATES_FLOAT))
    elif kind in ("sw", "fw"):
        kw = dict(W=rng.choice(WINDOWS), N=rng.choice([1, 1, 2, 3, 4]))
    else:
        init = rng.choice([4, 8, 10, 16, 50, 100, 7, 3])
        W = rng.choice([E9, E9, 5 * 10 ** 8, 25 * 10 ** 7, 10 ** 8])
        mn = rng.choice([1, 2, init, init / 2])
        while mn * W / 1e9 < 1:         # the bucket must be able to hold one token
            mn *= 2
        init = max(init, mn)
        mx = min(200, rng.choice([init, 2 * init, 4 * init]))
        kw = dict(init=init, mn=mn, mx=mx, step=rng.choice([None, 1, 2.5, init]),
                  factor=rng.choice([0.5, 0.25, 0.75, 0.9]), W=W)
    desc = dict(mk=kind, kw=kw)
    pol, h = make(desc)
    U = int(E9 / kw["init"]) if kind == "ad" else (h["W"] if kind in ("sw", "fw") else h["P"])
    r = rng.random()
    if r < 0.5:
        base = 0
    elif r < 0.75:
        base = U * rng.randint(1, 60)
    else:
        base = (rng.choice([10 ** 9, 10 ** 12, 3600 * 10 ** 9, 86400 * 10 ** 9]) // U) * U
    desc["base"] = base
    return pol, h, U, base, desc


def next_time(rng, t, U):
    k = rng.choice([0, 0, 1, 1, 2, 3])
    b = (t // U + k) * U
    cands = [t, t, t + 1, t + 2, b, b + 1, b - 1, t + U, t + U - 1, t + U + 1, t + U // 2,
             t + rng.randint(0, 2 * U), t + rng.randint(0, max(1, U // 3))]
    return max(t, rng.choice(cands))


def drive(rec: Rec, rng, U, kind, max_ops=48):
    """Adversarial op sequence; stops at LIMIT or max_ops."""
    t = rng.choice([0, 0, 1, U // 2, U - 1 if U > 1 else 0])
    ad = kind == "ad"
    while len(rec.ops) < max_ops and t <= LIMIT:
        if ad:
            U = max(1, int(E9 / rec.pol.current_rate))
        t = next_time(rng, t, U)
        if t > LIMIT:
            break
        r = rng.random()
        if ad and r < 0.22:
            rec.feedback(t, rng.random() < 0.5)
            continue
        if r < 0.55:
            n = 1 if rng.random() < 0.7 else rng.randint(2, 6)      # same-instant burst
            for _ in range(n):
                rec.acq(t)
            continue
        w = rec.tua(t)
        if w == 0:
            if rng.random() < 0.92:
                rec.acq(t)
            continue
        if w < 0:
            continue
        c = rng.random()
        if c < 0.35 and t + w - 1 <= LIMIT:
            t = t + w - 1                       # one ns before the promised instant
            rec.acq(t)
            if rng.random() < 0.5 and t + 1 <= LIMIT:
                t += 1
                rec.acq(t)
        elif c < 0.8:
            n = 0                               # drain: wait exactly the returned duration, repeatedly
            while w > 0 and n < 9 and t + w <= LIMIT:
                t += w
                n += 1
                w = rec.tua(t)
            if w == 0:
                rec.acq(t)
        elif c < 0.9 and w > 2:
            t = t + rng.randint(0, w - 1)       # somewhere inside the wait
            if t <= LIMIT:
                rec.acq(t)
    return rec


# ---------------------------------------------------------------------------
# spec -> code: replay a behaviour of specs/ratelimit/Limiters.tla on the real policy

def model_policy(kind, c, S):
    """Real policy for model constants c (ticks) at S ns per tick."""
    if kind == "tb":
        return mk_tb(P=c["P"] * S, C=c["C"], I=c["I"])
    if kind == "lb":
        return mk_lb(P=c["P"] * S)
    if kind == "sw":
        return mk_sw(W=c["W"] * S, N=c["N"])
    if kind == "fw":
        return mk_fw(W=c["W"] * S, N=c["N"])
    # one token = U units, rate r units/tick  ->  r/U tokens per tick
    per_s = E9 / S
    return mk_ad(init=c["RInit"] / c["U"] * per_s, mn=c["RMin"] / c["U"] * per_s, mx=c["RMax"] / c["U"] * per_s,
                 step=c["RStep"] / c["U"] * per_s, factor=0.5, W=c["W"] * S)


def replay_model_path(kind, c, S, steps, origin=""):
    """steps: [(op, tick, model_result)] with op in acq/tua/succ/fail.
    Returns (Rec, matched, compared)."""
    pol, h = model_policy(kind, c, S)
    rec = Rec(pol, h, 0, origin)
    matched = compared = 0
    for op, tick, mres in steps:
        t = tick * S
        if op == "acq":
            ok = rec.acq(t)
            compared += 1
            matched += int(ok == bool(mres))
        elif op == "tua":
            w = rec.tua(t)
            compared += 1
            if mres == 0:
                matched += int(w == 0)
            else:
                matched += int(0 < w <= mres * S + 1)
        elif op == "succ":
            rec.feedback(t, True)
        elif op == "fail":
            rec.feedback(t, False)
    return rec, matched, compared


MAKERS.update(tb=mk_tb, lb=mk_lb, sw=mk_sw, fw=mk_fw, ad=mk_ad)


def rerun(desc, schedule):
    """Re-execute a recorded op schedule [(op, t[, up])] on a fresh real policy (replay files)."""
    pol, h = make(desc)
    rec = Rec(pol, h, desc.get("base", 0), "replay")
    for o in schedule:
        if o[0] == "a":
            rec.acq(o[1])
        elif o[0] == "u":
            rec.tua(o[1])
        else:
            rec.feedback(o[1], o[0] == "s")
    return rec
