"""C13 - membership: no false deaths on a healthy network, real failures are detected, DEAD is not
reported ALIVE again without a higher incarnation, phi never decreases while no heartbeat arrives.

1. TLC: SwimMC.tla (timed model of membership.py, phi abstracted to an envelope) exhaustively for small
   clusters with Dev={} (all contract invariants hold) and once per deviation (must be caught).
2. spec -> code: TLC-generated behaviours (random simulation of the as-code model + the counterexamples of
   the deviation runs) are executed on real MembershipProtocol objects under direct drive (same-instant
   order, delays, shuffles and detector answers taken from the behaviour); projections are compared after
   every action.
3. code -> spec: seeded real Simulations (real Network, scripted delays, CrashNode, injected gossip, real
   phi detectors) and seeded direct-drive executions are recorded and validated by SwimTrace.tla (model
   conformance per handler call + the contract on every observed state); PhiTrace.tla monitors samples of
   the real PhiAccrualDetector.phi.
"""
from __future__ import annotations

import json
import math
import random
import re
from concurrent.futures import ThreadPoolExecutor

from .. import tlc, tlaval
from ..common import Check, load_known
from ..probe import quiet_logging
from . import c13_world as W

SPEC = tlc.SPECS / "swim"
INVS = ["InvAccuracy", "InvCompleteness", "InvNoResurrection", "InvNoOverdue"]
REAL_DEV = "phi_zero_before_first_heartbeat"
KNOWN_KEY = "stopped_before_first_heartbeat_stays_alive"
ALL_STATES = '{"alive","suspect","dead"}'
MC_UNIT_NS = 125_000_000          # one model tick = 0.125 s (binary-exact floats: I=6 -> 0.75 s, half 0.375 s)

CLAUSE_KEY = {"PROP:accuracy": "live_member_marked_dead_on_healthy_network",
              "PROP:resurrection": "dead_member_reported_alive_without_higher_incarnation",
              "PROP:completeness": "stopped_member_still_reported_alive_after_bound",
              "PROP:completeness_never_heard": "stopped_member_never_heard_still_alive",
              "PROP:phi_decreased": "phi_decreased_without_heartbeat"}


def as_code_dev():
    return sorted({e["deviation"] for e in load_known().get("open", [])
                   if e["property"] == "C13" and e.get("deviation")})


def dev_set(devs):
    return "{" + ",".join(f'"{d}"' for d in devs) + "}"


def mc_consts(**kw):
    c = dict(Dev="{}", N=3, I=6, SuspT=4, D=1, Lo=8, Hi=12, K=1, OffStep=0, MaxStop=1, StopBy=13, MaxInj=0,
             InjStates="{}", MaxInc=0, MaxTime=36, MaxSlow=99, AllInit="TRUE", Canon="TRUE")
    c.update(kw)
    return c


# ---------------------------------------------------------------------------
# 1. model checking

def mc_configs(tier):
    """(name, constants, extra invariants).  Every run: all same-instant orders per node, all shuffles, all
    suspicion choices inside the phi envelope, every stop instant <= StopBy."""
    q = [
        # two nodes, nothing reduced: every interleaving of same-instant events, delays 0..1 on every message,
        # stop at any point (also between two events of one instant), one injected gossip update
        ("n2_full", mc_consts(N=2, Canon="FALSE", MaxTime=34, MaxInj=1, InjStates=ALL_STATES, MaxInc=1), []),
        # three nodes: stop of any member at any instant <= 7 (before / just after the first heartbeats),
        # one message of the run delayed
        ("n3_stop", mc_consts(N=3, MaxTime=28, StopBy=7, D=1, MaxSlow=1), []),
        # three nodes, no stop: two delayed messages; the ack always beats the ack timer
        ("n3_slow2", mc_consts(N=3, MaxTime=20, MaxStop=0, MaxSlow=2), ["InvNoSuspTimerOnLive"]),
        # three nodes, gossip from outside (alive / suspect / dead, incarnations 0..1)
        ("n3_gossip", mc_consts(N=3, MaxTime=24, D=0, MaxStop=0, MaxInj=1, InjStates=ALL_STATES, MaxInc=1), []),
    ]
    if tier == "quick":
        return q
    return q + [
        ("n2_long", mc_consts(N=2, Canon="FALSE", MaxTime=46, StopBy=25, MaxInj=1, InjStates=ALL_STATES, MaxInc=1), []),
        ("n3_stop13", mc_consts(N=3, MaxTime=34, D=1, MaxSlow=1), []),
        ("n3_gossip_stop", mc_consts(N=3, MaxTime=26, D=0, StopBy=7, MaxInj=1, InjStates=ALL_STATES, MaxInc=1), []),
        ("n2_gossip2", mc_consts(N=2, Canon="FALSE", MaxTime=40, MaxInj=2, InjStates=ALL_STATES, MaxInc=1), []),
        ("n3_gossip2", mc_consts(N=3, MaxTime=14, D=0, MaxStop=0, MaxInj=2, InjStates=ALL_STATES, MaxInc=1), []),
        ("n3_stagger", mc_consts(N=3, MaxTime=36, D=1, MaxSlow=1, OffStep=2), []),
        ("n3_slow3", mc_consts(N=3, MaxTime=20, MaxStop=0, MaxSlow=3), ["InvNoSuspTimerOnLive"]),
        ("n4_stop", mc_consts(N=4, K=2, MaxTime=28, StopBy=7, D=0, AllInit="FALSE"), []),
    ]


# deviation -> (expected invariant, constants of the smallest configuration that exhibits it)
SENSITIVITY = {
    REAL_DEV: ("InvCompleteness", mc_consts(N=2, Canon="FALSE", MaxTime=30)),
    "ack_keeps_timer": ("InvAccuracy", mc_consts(N=3, MaxTime=40, SuspT=4, Lo=5, MaxStop=0, D=0)),
    "alive_same_incarnation": ("InvNoResurrection", mc_consts(N=2, Canon="FALSE", MaxTime=12, MaxInj=2,
                                                              InjStates=ALL_STATES, MaxInc=1, MaxStop=0)),
    "heartbeat_revives_dead": ("InvNoResurrection", mc_consts(N=2, Canon="FALSE", MaxTime=12, MaxInj=1,
                                                              InjStates=ALL_STATES, MaxInc=1, MaxStop=0)),
}


def _mc_job(job):
    kind, name, consts, invs, workers, timeout = job
    wd = tlc.workdir(f"C13_{kind}_{name}")
    cfg = tlc.write_cfg(wd / "mc.cfg", constants=consts, invariants=invs, view="View")
    return tlc.run(SPEC / "SwimMC.tla", cfg, label=f"C13_{kind}_{name}", timeout=timeout, workers=workers,
                   heap="4g" if kind == "mc" else "2g")


def model_check(chk, tier, pool):
    """Submit all TLC model-checking jobs; returns futures to be harvested later (they run while the
    Python drivers execute the real code)."""
    w = max(2, tlc.DEFAULT_WORKERS // 4)
    futs = []
    for name, consts, extra in mc_configs(tier):
        futs.append(("mc", name, None, pool.submit(_mc_job, ("mc", name, consts, INVS + extra, w, 3000))))
    for dev, (inv, consts) in SENSITIVITY.items():
        c = dict(consts, Dev=dev_set([dev]))
        futs.append(("dev", dev, inv, pool.submit(_mc_job, ("dev", dev, c, INVS, 2, 1500))))
    return futs


def harvest_mc(chk, futs):
    cex = {}
    for kind, name, inv, f in futs:
        res = f.result()
        if kind == "mc":
            chk.add_tlc(f"SwimMC Dev={{}} {name}", res)
            chk.require(res.ok, f"SwimMC.tla {name} with Dev={{}} violates {res.violated}")
        else:
            chk.add_tlc(f"SwimMC Dev={{{name}}}", res, count=False, note="sensitivity run, must violate " + inv)
            chk.require(res.violated == inv, f"deviation {name} not caught (got {res.violated}, expected {inv})")
            chk.sensitivity[name] = res.violated
            cex[name] = res
    return cex


# ---------------------------------------------------------------------------
# 2. spec -> code: behaviours of SwimMC executed on the real objects

def norm(x):
    if isinstance(x, (tuple, list)):
        return [norm(v) for v in x]
    if isinstance(x, dict):
        return {k: norm(v) for k, v in x.items()}
    if isinstance(x, frozenset):
        return sorted(norm(v) for v in x)
    return x


def parse_behaviour_file(path):
    txt = path.read_text()
    out = []
    for part in re.split(r"^STATE_\d+ ==\s*$", txt, flags=re.M)[1:]:
        body = part.split("\n\n")[0]
        body = re.sub(r"^={4,}.*$", "", body, flags=re.M).strip()
        out.append(tlaval.parse_state(body))
    return out


def simulate_behaviours(tier, seed, pool):
    """TLC random simulation of the as-code model (full nondeterminism: no Canon, no slow budget)."""
    dev = dev_set(as_code_dev())
    jobs = [("b3", mc_consts(Dev=dev, N=3, Canon="FALSE", MaxTime=40, MaxInj=2, InjStates=ALL_STATES, MaxInc=1, K=1),
             55 if tier == "quick" else 600),
            ("b4", mc_consts(Dev=dev, N=4, K=2, Canon="FALSE", MaxTime=34, StopBy=10, MaxInj=1, InjStates=ALL_STATES,
                             MaxInc=1, SuspT=5, Lo=7, Hi=13), 0 if tier == "quick" else 250)]
    jobs = [j for j in jobs if j[2] > 0]

    def one(job):
        name, consts, num = job
        wd = tlc.workdir(f"C13_{name}")
        cfg = tlc.write_cfg(wd / "sim.cfg", constants=consts)
        (wd / "beh").mkdir(exist_ok=True)
        res = tlc.run(SPEC / "SwimMC.tla", cfg, label=f"C13_{name}", workers=2, depth=400, seed=seed + 1,
                      simulate=f"file={wd / 'beh' / 'b'},num={num}", timeout=1200, heap="2g")
        behs = []
        for f in sorted((wd / "beh").iterdir()):
            try:
                behs.append(parse_behaviour_file(f))
            except Exception:
                pass
            f.unlink()
        return name, consts, res, behs
    return [pool.submit(one, j) for j in jobs]


TOUR_CONSTS = dict(N=2, Canon="FALSE", MaxTime=34)


def tour_behaviours(tier, rng_seed, pool):
    """Transition tour of the complete 2-node as-code model: the state graph is dumped with `act` in the
    fingerprint (no VIEW), so the destination state of every edge names the action with all its choices;
    root paths covering every edge are replayed on the real objects."""
    consts = mc_consts(Dev=dev_set(as_code_dev()), **TOUR_CONSTS)

    def one():
        wd = tlc.workdir("C13_tour")
        cfg = tlc.write_cfg(wd / "mc.cfg", constants=consts)
        res = tlc.run(SPEC / "SwimMC.tla", cfg, label="C13_tour", timeout=1500, workers=2, dump_dot=wd / "g.dot",
                      heap="2g")
        g = tlc.parse_dot(wd / "g.dot")
        (wd / "g.dot").unlink(missing_ok=True)
        paths = list(tlc.edge_tour(g, rng=random.Random(rng_seed)))
        return consts, res, g, paths
    return pool.submit(one)


def cfg_of_consts(c):
    cfg = W.Cfg(n=c["N"], I=c["I"], S=c["SuspT"], K=c["K"], D=c["D"], unit_ns=MC_UNIT_NS, thr=8.0, Lo=c["Lo"],
                Hi=c["Hi"], scripted=True, offsets=[(i) * c["OffStep"] for i in range(c["N"])])
    assert cfg.half == c["I"] // 2
    return cfg


def _tg_of(world, it):
    md = it["ev"].context.get("metadata", {})
    return world.idx.get(md.get("probe_target") or md.get("suspect"), 0)


def apply_action(w, act):
    """Execute one model action on the real cluster; returns None or why it is not applicable."""
    a = act["a"]
    if a == "adv":
        if w.due():
            return "events still due at the instant the model leaves"
        nt = w.next_time()
        if nt != act["t"]:
            return f"next due instant is {nt}, model says {act['t']}"
        w._set_now(act["t"])
        return None
    if a == "stop":
        w.stop(act["n"])
        return None
    if a == "inj":
        u = act["u"]
        w.inject(act["n"], [(u[0], u[1], u[2])])
        return None
    due = w.due()
    n = act["n"]
    if a == "tick":
        it = next((x for x in due if x["kind"] == "tick" and x["n"] == n), None)
        if it is None:
            return f"no probe tick of node {n} due"
        w.fire(it, sus=set(act["sus"]), shuffle=list(act["ord"]) or None, delays=list(act["ds"]))
        return None
    if a in ("ping", "ack"):
        m = norm(act["m"])
        it = next((x for x in due if x["kind"] == "msg" and x["n"] == n and x["m"] == m), None)
        if it is None:
            return f"message {m} not deliverable to node {n}"
        w.fire(it, delays=list(act["ds"]))
        return None
    if a in ("atmr", "stmr"):
        it = next((x for x in due if x["kind"] == a and x["n"] == n and _tg_of(w, x) == act["tg"]), None)
        if it is None:
            return f"timer {a} of node {n} for peer {act['tg']} not due"
        if a == "atmr":
            w.fire(it, shuffle=list(act["dels"]) or None, delays=list(act["ds"]))
        else:
            w.fire(it)
        return None
    return f"unknown action {a}"


def replay_behaviour(states, consts, rng, horizon, strict=True):
    """Direct drive along a behaviour.  strict: state-checked (projection of every live node compared with the
    model state after every action); otherwise schedule replay (the behaviour's choices are applied as long
    as they are applicable).  On the first inapplicable action / differing projection the rest of the
    execution free-runs under a seeded policy (it stays a legal execution)."""
    cfg = cfg_of_consts(consts)
    orders = [list(s["order"]) for s in states[0]["nd"]]
    w = W.World(cfg, W.Policy(random.Random(rng.random()), sus_bias=0.5), init_orders=orders)
    drift = None
    matched = 0
    try:
        for k, st in enumerate(states[1:], start=1):
            why = apply_action(w, st["act"])
            if why is None and strict:
                for i in range(1, cfg.n + 1):
                    if i in w.stopped:
                        continue
                    want, got = norm(st["nd"][i - 1]), w.proj(i)
                    if want != got:
                        fld = next(f for f in want if want[f] != got.get(f))
                        why = f"node {i} field {fld}: model {want[fld]} code {got.get(fld)}"
                        break
            if why is not None:
                drift = f"step {k} {st['act']['a']}: {why}"
                break
            matched += 1
        if drift is not None:
            w.run_until(horizon)
        else:
            w.record_end(w.now)
    finally:
        w.close()
    return w, drift, matched


# ---------------------------------------------------------------------------
# 3. code -> spec: seeded scenarios on the real code

def pick_cfg(rng, tier, n=None, scripted=False, window_ok=True):
    """A configuration inside the premise (2D < ack timeout) whose completeness bound stays affordable."""
    for _ in range(200):
        nn = n or rng.choice((3, 3, 3, 4, 4, 5, 6))
        if scripted:
            I = rng.choice((6, 8, 10, 12))
            D = rng.randint(0, max(0, (I // 2 - 1) // 2))
            S = rng.choice((1, 2, I // 2, I - 1, I + 1, 2 * I, 3 * I + 1))
            Lo = rng.randint(2, 2 * I)
            Hi = Lo + rng.randint(0, I)
            cfg = W.Cfg(nn, I, S, rng.choice((1, 2, 3)), D, MC_UNIT_NS, Lo=Lo, Hi=Hi,
                        scripted=True, offsets=pick_offsets(rng, nn, I))
            return cfg
        I = rng.choice((200_000, 300_000, 400_000, 500_000, 1_000_000, 250_000))
        thr = rng.choice((0.5, 1.0, 1.0, 2.0, 2.0, 4.0, 8.0, 8.0, 12.0))
        window = None
        if window_ok and rng.random() < 0.25:
            # small detector window + (see pick_stop) a stop after the window has overflowed many times
            nn = n or rng.choice((3, 3, 4))
            thr = rng.choice((0.5, 1.0, 2.0, 4.0))
            window = rng.choice((2, 3, 5, 8))
        half = I // 2
        D = rng.choice((0, 1, half // 50, half // 10, half // 4, (half - 1) // 2))
        S = rng.choice((I * 3 // 10, I * 7 // 10, I + 1, I * 17 // 10, I * 3, I * 6, I * 10))
        try:
            cfg = W.Cfg(nn, I, S, rng.choice((1, 2, 3)), D, 1000, thr=thr, offsets=pick_offsets(rng, nn, I),
                        window=window)
        except ValueError:
            continue
        cap = 40 if tier == "quick" else 90
        if cfg.bound <= cap * I and cfg.healthy():
            return cfg
    raise RuntimeError("no configuration found")


def pick_offsets(rng, n, I):
    r = rng.random()
    if r < 0.5:
        return [0] * n
    if r < 0.75:
        return [(i * I) // n for i in range(n)]
    return [rng.randrange(0, I) for _ in range(n)]


def pick_stop(rng, cfg, tier="quick"):
    r = rng.random()
    i = rng.randint(1, cfg.n)
    I = cfg.I
    if cfg.window and r < 0.85:
        # late stop: every peer has sent several windows' worth of heartbeats (about 2/(n-1) per round), enough
        # for window * rounds(Hi) of accumulated history
        base = max(6, (cfg.window * cfg.Hi * (cfg.n - 1)) // (2 * I))
        cap = 70 if tier == "quick" else 220
        rounds = rng.randint(min(cap, max(4, base // 2)), min(cap, 3 * base))
        return (i, rounds * I + rng.choice((0, 1, cfg.half, rng.randrange(I))))
    if r < 0.25:
        return None
    if r < 0.40:
        return (i, 0)
    if r < 0.60:
        return (i, rng.randint(0, 3 * I))                          # around the first heartbeats
    if r < 0.75:
        return (i, rng.randint(1, 12) * I + rng.choice((0, 0, 1, cfg.half, cfg.D)))   # on / next to a tick instant
    return (i, rng.randint(3 * I, 14 * I))


def pick_inject(rng, cfg, stop, horizon):
    """Gossip from outside.  mode 'benign': alive/suspect about members (never alive about the stopped one after
    its stop); mode 'falsehood': a dead rumour about a live member, then alive rumours with stale and fresh
    incarnations (accuracy / completeness are void from the falsehood on, NoResurrection is not)."""
    r = rng.random()
    out = []
    if r < 0.55:
        return out
    n = cfg.n
    if r < 0.8:
        for _ in range(rng.randint(1, 4)):
            t = rng.randint(0, horizon)
            i = rng.randint(1, n)
            m = rng.choice([x for x in range(1, n + 1) if x != i])
            s = rng.choice(("alive", "suspect", "suspect"))
            if s == "alive" and stop and m == stop[0]:
                s = "suspect"
            out.append((t, i, [(m, s, rng.randint(0, 2))]))
        return out
    i = rng.randint(1, n)
    m = rng.choice([x for x in range(1, n + 1) if x != i])
    if rng.random() < 0.6:
        # right after a probe tick of i: a ping of i (possibly to m) is in flight, its ack will arrive
        k0 = rng.randint(1, max(1, horizon // (2 * cfg.I)))
        t0 = cfg.offsets[i - 1] + k0 * cfg.I + rng.choice((0, 1, max(1, cfg.D // 2), cfg.D))
    else:
        t0 = rng.randint(0, horizon // 2)
    k = rng.randint(0, 1)
    out.append((t0, i, [(m, "dead", k)]))
    for _ in range(rng.randint(0, 4)):
        out.append((rng.randint(t0, horizon), i, [(m, rng.choice(("alive", "alive", "suspect")), rng.randint(0, k + 1))]))
    if rng.random() < 0.5:      # the same rumours reach a second member
        j = rng.choice([x for x in range(1, n + 1) if x not in (i, m)])
        out.append((rng.randint(t0, horizon), j, [(m, "dead", k), (m, "alive", k)]))
    return out


DELAYS = {
    "uniform": lambda D: (lambda r: r.randint(0, D)),
    "edges": lambda D: (lambda r: r.choice((0, D))),
    "max": lambda D: (lambda r: D),
    "grid": lambda D: (lambda r: (D * r.randint(0, 4)) // 4),
    "tiny": lambda D: (lambda r: r.randint(0, max(0, D // 50))),
}


def cfg_to_json(cfg):
    return {"n": cfg.n, "I": cfg.I, "S": cfg.S, "K": cfg.K, "D": cfg.D, "unit_ns": cfg.unit_ns, "thr": cfg.thr,
            "Lo": cfg.Lo, "Hi": cfg.Hi, "scripted": cfg.scripted, "offsets": cfg.offsets, "window": cfg.window}


def cfg_from_json(j):
    return W.Cfg(j["n"], j["I"], j["S"], j["K"], j["D"], j["unit_ns"], thr=j["thr"], Lo=j["Lo"], Hi=j["Hi"],
                 scripted=j["scripted"], offsets=j["offsets"], window=j.get("window"))


def make_recipe(rng, tier, kind):
    cfg = pick_cfg(rng, tier, scripted=(kind == "world_abstract"))
    stop = pick_stop(rng, cfg, tier)
    horizon = (stop[1] + cfg.bound + 3 * cfg.I) if stop else rng.randint(8, 24) * cfg.I
    inject = pick_inject(rng, cfg, stop, horizon) if not cfg.window else []
    return {"kind": kind, "cfg": cfg_to_json(cfg), "stop": stop, "inject": inject, "horizon": horizon,
            "delay": rng.choice(sorted(DELAYS)), "shuffle": rng.choice(("random", "random", "reverse", "sorted", "rotate")),
            "order": rng.choice(("random", "random", "fifo", "lifo")), "sus_bias": rng.choice((0.1, 0.5, 0.9)),
            "seed": rng.randrange(1 << 30)}


def run_recipe(rec):
    """Execute a recipe on the real code; returns the world (steps recorded)."""
    cfg = cfg_from_json(rec["cfg"])
    rng = random.Random(rec["seed"])
    delay = DELAYS[rec["delay"]](cfg.D)
    stop = tuple(rec["stop"]) if rec["stop"] else None
    inject = [(t, i, [tuple(u) for u in ups]) for (t, i, ups) in rec["inject"]]
    if rec["kind"] == "sim":
        w = W.SimWorld(cfg, rng, dict(duration=rec["horizon"], delay=delay, stop=stop, inject=inject,
                                      shuffle=rec["shuffle"]))
        w.run()
        return w
    pol = W.Policy(rng, delay=delay, order=rec["order"], sus_bias=rec["sus_bias"])
    w = W.World(cfg, pol)
    try:
        w.run_until(rec["horizon"], stop=stop, inject=inject)
    finally:
        w.close()
    return w


# -- phi monitor --------------------------------------------------------------------

PHI_SCALE = 10_000
PHI_INF = 1 << 30


def phi_int(v):
    if v != v:
        return -7          # NaN: never >= anything sensible; flagged as a decrease after any sample
    if v == float("inf") or v * PHI_SCALE >= PHI_INF:
        return PHI_INF
    return int(math.floor(v * PHI_SCALE))


def phi_trace(rng, tid):
    """Drive a real PhiAccrualDetector: heartbeats with a random rhythm, phi sampled on an increasing grid in
    between (fine near the last heartbeat, then far out to where erfc underflows)."""
    from happysimulator.components.consensus.phi_accrual_detector import PhiAccrualDetector
    ii = rng.choice((None, 0.05, 0.5, 1.0, 3.0))
    det = PhiAccrualDetector(threshold=rng.choice((1.0, 4.0, 8.0, 16.0)), max_sample_size=rng.choice((3, 10, 200)),
                             min_std=rng.choice((0.1, 0.001, 1.0)), initial_interval=ii)
    base = rng.choice((0.05, 0.5, 1.0, 7.0))
    style = rng.choice(("regular", "jitter", "bursty", "drift"))
    t = rng.choice((0.0, 0.0, 12.5, 1000.0))
    s = []
    US = 10_000             # instants in 0.1 ms (only their order is judged; 32-bit integers in TLC)

    def sample(x):
        s.append({"k": 1, "t": int(round(x * US)), "v": phi_int(det.phi(x))})
    sample(t)                           # before any heartbeat
    for h in range(rng.randint(1, 9)):
        gap = {"regular": base, "jitter": base * rng.uniform(0.2, 2.5), "bursty": base * rng.choice((0.01, 0.02, 3.0)),
               "drift": base * (1 + 0.3 * h)}[style]
        t = t + gap
        det.heartbeat(t)
        s.append({"k": 0, "t": int(round(t * US)), "v": 0})
        x = t
        m = rng.randint(3, 14)
        far = rng.random() < 0.5
        for j in range(m):
            step = base * rng.choice((0.0, 0.001, 0.05, 0.3, 1.0)) if not far or j < m // 2 else base * rng.choice((2.0, 9.0, 40.0))
            x = x + step
            sample(x)
        t = max(t, x)       # the next heartbeat comes after the last sample
    return {"id": tid, "tol": 1, "hi": PHI_INF, "s": s}


def phi_envelope_trace(rng, tid):
    """The analytic envelope the membership model relies on, checked on the real detector after many samples:
    gaps in (0, G], G = (2n-3)I + D as on a healthy network, windows from 2 to 200, up to 1200 heartbeats;
    afterwards is_available() is queried at and beyond last heartbeat + Hi and phi is sampled in between."""
    from happysimulator.components.consensus.phi_accrual_detector import PhiAccrualDetector
    n = rng.choice((3, 4, 5, 6))
    interval = rng.choice((0.2, 0.25, 0.5, 1.0))
    delay = interval * rng.choice((0.0, 0.05, 0.2))
    thr = rng.choice((0.5, 1.0, 2.0, 4.0, 8.0, 12.0))
    window = rng.choice((2, 5, 20, 200, 200))
    g = (2 * n - 3) * interval + delay
    z = W.z_of_threshold(thr)
    hi_s = g + max(z, 0.0) * max(g / 2, W.MIN_STD)
    det = PhiAccrualDetector(threshold=thr, max_sample_size=window, initial_interval=interval)
    US = 10_000
    style = rng.choice(("max", "uniform", "bimodal", "cycle"))
    beats = rng.choice((3, 10, 40, 150, 450, 1200))
    t = rng.choice((0.0, 3.0))
    s = []
    det.heartbeat(t)                    # what start() records
    s.append({"k": 0, "t": int(round(t * US)), "v": 0})
    for h in range(beats):
        gap = {"max": g, "uniform": rng.uniform(0.001, g), "bimodal": rng.choice((0.001, g)),
               "cycle": g if h % (n - 1) == 0 else interval * rng.uniform(0.05, 1.0)}[style]
        t += gap
        det.heartbeat(t)
    s = [{"k": 0, "t": int(round(t * US)), "v": 0}]     # only the last heartbeat matters to the monitor
    slack = 3.0 / US
    for f in (0.3, 0.7):
        x = t + hi_s * f
        s.append({"k": 1, "t": int(round(x * US)), "v": phi_int(det.phi(x))})
    for f in (1.0, 1.5, 4.0):
        x = t + hi_s * f + slack
        s.append({"k": 2, "t": int(math.ceil(x * US)), "v": 1 if det.is_available(x) else 0})
    return {"id": tid, "tol": 1, "hi": int(math.ceil(hi_s * US)) + 1, "beats": beats + 1, "s": s}


def late_default_recipe(rng):
    """Thorough: the protocol's own detectors (window 200) with a stop after the window has overflowed several
    times (3 nodes, 0.2 s interval, low thresholds: about one heartbeat per peer and round)."""
    thr = rng.choice((1.0, 2.0))
    cfg = W.Cfg(3, 200_000, rng.choice((140_000, 600_000)), rng.choice((1, 2)), rng.choice((0, 5_000, 40_000)), 1000,
                thr=thr, offsets=[0, 0, 0])
    rounds = rng.randint(200 * (cfg.Hi // cfg.I + 2), 200 * (cfg.Hi // cfg.I + 5))
    stop = (rng.randint(1, 3), rounds * cfg.I + rng.randrange(cfg.I))
    return {"kind": "sim", "cfg": cfg_to_json(cfg), "stop": stop, "inject": [], "horizon": stop[1] + cfg.bound + 3 * cfg.I,
            "delay": rng.choice(sorted(DELAYS)), "shuffle": "random", "order": "random", "sus_bias": 0.5,
            "seed": rng.randrange(1 << 30)}


def phi_trace_from_sim(w, tid, rng):
    """Samples of the detectors of a finished real Simulation: for one (observer, peer) pair, phi at the
    instants after its last heartbeat on a grid up to the end of the run."""
    i = rng.randint(1, w.n)
    j = rng.choice([x for x in range(1, w.n + 1) if x != i])
    det = w.nodes[i]._members[W.node_name(j)].detector
    lh = det.last_heartbeat
    end = w.cfg.unit_ns * w.scen["duration"] / 1e9
    s = []
    if lh is None:
        lh = 0.0
    else:
        s.append({"k": 0, "t": int(round(lh * 1e6)), "v": 0})
    x = lh
    span = max(end - lh, w.cfg.interval_s)
    for _ in range(40):
        x = x + span * rng.choice((0.0, 0.002, 0.01, 0.05, 0.2))
        s.append({"k": 1, "t": int(round(x * 1e6)), "v": phi_int(det.phi(x))})
    return {"id": tid, "tol": 1, "hi": PHI_INF, "s": s}


# ---------------------------------------------------------------------------

def validate_swim(traces, dev, label, pool=None, chunk_steps=60_000):
    """Batch-validate with SwimTrace.tla; returns {id: (verdict, pos, drift, driftpos)} and the TLC results."""
    chunks, cur, size = [], [], 0
    for t in traces:
        cur.append(t)
        size += len(t["steps"])
        if size >= chunk_steps:
            chunks.append(cur)
            cur, size = [], 0
    if cur:
        chunks.append(cur)

    def one(args):
        k, part = args
        lab = f"{label}_{k}"
        wd = tlc.workdir(lab)
        cfg = tlc.write_cfg(wd / "trace.cfg", spec="Spec", constants={"Dev": dev_set(dev)})
        f = wd / "traces.json"
        f.write_text(json.dumps(part, separators=(",", ":")))
        res = tlc.run(SPEC / "SwimTrace.tla", cfg, label=lab, workers=1, timeout=3000, env={"TRACE_FILE": str(f)},
                      heap="4g")
        f.unlink()
        out = {}
        for v in res.printed:
            if isinstance(v, tuple) and len(v) == 6 and v[0] == "V":
                out[v[1]] = (v[2], v[3], v[4], v[5])
        miss = [t["id"] for t in part if t["id"] not in out]
        if miss:
            raise tlc.TLCFailure(f"{lab}: no verdict for traces {miss[:3]} (see {wd / 'tlc.out'})")
        return out, res
    if pool is None:
        rs = [one(a) for a in enumerate(chunks)]
    else:
        rs = list(pool.map(one, enumerate(chunks)))
    verdicts, results = {}, []
    for out, res in rs:
        verdicts.update(out)
        results.append(res)
    return verdicts, results


def judge_swim(chk, traces, meta, verdicts, dev):
    n_drift = 0
    for tid, (v, pos, dr, dpos) in sorted(verdicts.items()):
        tr = traces[tid]
        if v == "ACCEPT":
            # counterexamples of the deviation runs come from a model that is deliberately not the code:
            # replaying them on the unchanged code must diverge, which is not drift of the as-code model
            if dr and not str(meta[tid].get("origin", "")).startswith("behaviour:cex:"):
                n_drift += 1
                chk.note_drift(f"trace {tid} ({meta[tid].get('origin')}): {dr} at step {dpos}")
            continue
        key = CLAUSE_KEY.get(v, v)
        if v == "PROP:completeness_never_heard" and (REAL_DEV not in dev or not dr or dpos > pos):
            # the peer that still reports ALIVE never received a heartbeat from the stopped member.  While the
            # deviation is listed as open this is the known finding only if the as-code model explains the
            # execution up to the failing step; once it is no longer open the same key is a VIOLATION
            key = KNOWN_KEY
        elif dr and dpos <= pos:
            n_drift += 1
        step = tr["steps"][pos - 1] if 0 < pos <= len(tr["steps"]) else {}
        chk.violation(key, f"{v} at step {pos} (t={step.get('t')}, a={step.get('a')}, node={step.get('n')}) "
                           f"of a {meta[tid].get('origin')} execution; P={tr['P']}"
                           + (f"; model drift {dr} at {dpos}" if dr else ""),
                      {"meta": meta[tid], "trace": tr})
    return n_drift


def run(tier, seed, replay=None):
    quiet_logging()
    chk = Check("C13", tier, seed)
    if replay:
        return run_replay(chk, replay)
    rng = random.Random(seed)
    dev = as_code_dev()
    quick = tier == "quick"
    pool = ThreadPoolExecutor(max_workers=6)
    beh_futs = simulate_behaviours(tier, seed, pool)
    tour_fut = tour_behaviours(tier, seed, pool)
    mc_futs = model_check(chk, tier, pool)

    traces, meta = {}, {}

    def add(world, origin, recipe=None, judge=True):
        tid = len(traces) + 1
        traces[tid] = world.trace(tid, judge=judge)
        meta[tid] = {"origin": origin, "recipe": recipe, "notes": world.notes[:5]}
        chk.impl_steps += len(world.steps)
        for note in world.notes[:3]:
            chk.note_drift(f"{origin} trace {tid}: {note}")
        return tid

    # code -> spec (while TLC runs): real Simulations and seeded direct drive
    n_sim = 60 if quick else 500
    n_wr = 25 if quick else 200
    n_wa = 35 if quick else 300
    phi_traces = []
    for k in range(n_sim):
        rec = make_recipe(rng, tier, "sim")
        w = run_recipe(rec)
        add(w, "simulation", rec)
        if k % 3 == 0:
            phi_traces.append(phi_trace_from_sim(w, len(phi_traces) + 1, rng))
    for k in range(n_wr):
        rec = make_recipe(rng, tier, "world_real")
        add(run_recipe(rec), "direct-drive/real-detector", rec)
    for k in range(n_wa):
        rec = make_recipe(rng, tier, "world_abstract")
        add(run_recipe(rec), "direct-drive/abstract-detector", rec)
    for k in range(400 if quick else 6000):
        phi_traces.append(phi_trace(rng, len(phi_traces) + 1))
    for k in range(150 if quick else 1500):
        phi_traces.append(phi_envelope_trace(rng, len(phi_traces) + 1))
    if not quick:
        for k in range(3):
            rec = late_default_recipe(rng)
            add(run_recipe(rec), "simulation/late-stop", rec)
    # validation of these executions starts now, next to the model-checking jobs
    first = [traces[k] for k in sorted(traces)]
    val1 = pool.submit(validate_swim, first, dev, "C13_trace_a", None, 25_000 if quick else 60_000)
    phi_fut = pool.submit(tlc.validate_traces, SPEC / "PhiTrace.tla", phi_traces, label="C13_phi", spec="Spec")

    # model checking results
    cex = harvest_mc(chk, mc_futs)
    chk.exhaustive = True
    chk.extra["exhaustive_constants"] = {name: {k: v for k, v in c.items() if k != "Dev"} for name, c, _ in mc_configs(tier)}

    # spec -> code
    matched = total = 0
    drifted = 0
    beh_sets = []
    for f in beh_futs:
        name, consts, res, behs = f.result()
        chk.add_tlc(f"SwimMC simulate {name} (Dev=as-code {dev})", res, count=False,
                    note=f"{len(behs)} behaviours generated for replay")
        chk.require(len(behs) > 0, f"TLC simulation {name} produced no behaviour")
        beh_sets.append((name, consts, behs))
    tconsts, tres, g, paths = tour_fut.result()
    chk.add_tlc(f"SwimMC state graph n2 (Dev=as-code {dev}, act in the fingerprint)", tres, count=False,
                note=f"{g.n_edges()} edges, {len(paths)} root paths cover all of them")
    chk.require(g.inits and g.n_edges() > 0, "empty state graph for the transition tour")
    cap = 160 if quick else len(paths)
    chosen = paths if len(paths) <= cap else rng.sample(paths, cap)
    chk.extra["tour"] = {"edges": g.n_edges(), "paths": len(paths), "replayed": len(chosen)}
    beh_sets.append(("tour_n2", tconsts, [[g.nodes[root]] + [g.nodes[dst] for (_lab, dst) in p] for root, p in chosen]))
    for devname, res in cex.items():
        states = [dict(st) for (_a, st) in res.trace if "act" in st]
        if states:
            beh_sets.append((f"cex:{devname}", dict(SENSITIVITY[devname][1]), [states]))
    for name, consts, behs in beh_sets:
        for states in behs:
            if len(states) < 2:
                continue
            w, drift, m = replay_behaviour(states, consts, rng, horizon=consts["MaxTime"],
                                           strict=not name.startswith("cex:"))
            chk.replays += 1
            matched += m
            total += len(states) - 1
            tid = add(w, f"behaviour:{name}", {"kind": "behaviour", "consts": consts,
                                               "acts": [norm(s["act"]) for s in states[1:]],
                                               "orders": [list(s["order"]) for s in states[0]["nd"]]})
            if drift and not name.startswith("cex:"):
                drifted += 1
                chk.note_drift(f"replay of {name} behaviour (trace {tid}): {drift}")
            elif name.startswith("cex:"):
                chk.extra.setdefault("cex_replays", {})[name] = drift or "followed to the end"
    chk.extra["replay_steps_matched"] = matched
    chk.extra["replay_steps_total"] = total
    chk.extra["replay_behaviours_drifted"] = drifted

    # validation of every recorded real execution
    second = [traces[k] for k in sorted(traces) if k > len(first)]
    verdicts, results = validate_swim(second, dev, "C13_trace_b", pool, 25_000 if quick else 60_000)
    v1, r1 = val1.result()
    verdicts.update(v1)
    for r in r1 + results:
        chk.add_tlc(f"SwimTrace batch (Dev=as-code {dev})", r, note="trace validation: one state per recorded step")
    chk.impl_traces = len(traces)
    judge_swim(chk, traces, meta, verdicts, dev)

    pv, pres = phi_fut.result()
    for r in pres:
        chk.add_tlc("PhiTrace batch", r, note="phi monotonicity monitor over real detector samples")
    chk.extra["phi_traces"] = len(phi_traces)
    chk.extra["phi_samples"] = sum(len(t["s"]) for t in phi_traces)
    for tid, (v, pos) in sorted(pv.items()):
        if v == "ACCEPT":
            continue
        if v.startswith("PROP:"):
            chk.violation(CLAUSE_KEY[v], f"{v}: sample {pos} of a real PhiAccrualDetector is below an earlier sample "
                                         f"with no heartbeat in between", {"meta": {"origin": "phi"}, "trace": phi_traces[tid - 1]})
        else:
            chk.note_drift(f"phi trace {tid}: {v}")
    pool.shutdown()

    by_origin = {}
    for m in meta.values():
        o = m["origin"].split(":")[0]
        by_origin[o] = by_origin.get(o, 0) + 1
    chk.extra["traces_by_origin"] = by_origin
    chk.extra["verdicts"] = {}
    for v in verdicts.values():
        chk.extra["verdicts"][v[0]] = chk.extra["verdicts"].get(v[0], 0) + 1
    for tid in list(sorted(traces))[:1]:
        t = traces[tid]
        chk.sample({"meta": meta[tid], "P": t["P"], "first_steps": t["steps"][:6], "verdict": verdicts[tid]})
    nh = [tid for tid, v in verdicts.items() if v[0] == "PROP:completeness_never_heard"]
    if nh:
        t = traces[nh[0]]
        chk.sample({"meta": meta[nh[0]], "P": t["P"], "verdict": verdicts[nh[0]],
                    "failing_step": t["steps"][verdicts[nh[0]][1] - 1]})
    chk.assumptions = [
        "premise made precise: every message is delivered within D ticks and 2*D < ack timeout = int(probe_interval*0.5); "
        "accuracy is not judged once a message was slower or a node was told a falsehood (dead rumour about a live member)",
        "completeness bound: a stopped member is not reported ALIVE from stop + D + Hi + I on, Hi = (2n-3)I + D + "
        "max(z,0)*max(((2n-3)I+D)/2, 0.1 s), z = normal quantile of the phi threshold (derived from the detector's formula "
        "under healthy gaps); only judged when nobody was told 'alive' about the stopped member after its stop",
        "durations are whole ticks whose float-seconds value converts to nanoseconds exactly",
        "TLC model: phi abstracted to an envelope [Lo, Hi]; behaviours replayed with the real detector's threshold answer "
        "forced to the behaviour's choice; the real detector is used unmodified in all Simulation traces",
    ]
    chk.explanation = ("SwimMC.tla exhaustively for 2-3 (thorough: 4) nodes; TLC behaviours and counterexamples replayed on real "
                       "MembershipProtocol objects; real Simulation / direct-drive executions validated by SwimTrace.tla; "
                       "PhiAccrualDetector.phi samples by PhiTrace.tla")
    return chk.finish()


def run_replay(chk, path):
    """Re-execute a saved case on the current code and judge it again."""
    data = json.loads(open(path).read())
    rep = data["replay"]
    metaj = rep.get("meta", {})
    dev = as_code_dev()
    if metaj.get("origin") == "phi":
        pv, _ = tlc.validate_traces(SPEC / "PhiTrace.tla", [dict(rep["trace"], id=1)], label="C13_replay_phi", spec="Spec")
        if pv[1][0].startswith("PROP:"):
            chk.violation(CLAUSE_KEY[pv[1][0]], f"{pv[1][0]} (recorded samples re-judged)", rep)
        return chk.finish()
    rec = metaj.get("recipe")
    if rec and rec.get("kind") in ("sim", "world_real", "world_abstract"):
        w = run_recipe(rec)
    elif rec and rec.get("kind") == "behaviour":
        states = [{"nd": [{"order": o} for o in rec["orders"]]}]
        # re-drive the action list (projections are not compared: only the contract is re-judged)
        cfg = cfg_of_consts(rec["consts"])
        w = W.World(cfg, W.Policy(random.Random(0)), init_orders=rec["orders"])
        try:
            ok = True
            for act in rec["acts"]:
                if apply_action(w, act) is not None:
                    ok = False
                    break
            if not ok:
                w.run_until(rec["consts"]["MaxTime"])
            else:
                w.record_end(w.now)
        finally:
            w.close()
    else:
        print("replay file has no recipe; re-judging the recorded trace")
        w = None
    tr = w.trace(1) if w is not None else dict(rep["trace"], id=1)
    verdicts, _ = validate_swim([tr], dev, "C13_replay")
    judge_swim(chk, {1: tr}, {1: metaj}, verdicts, dev)
    chk.impl_traces = 1
    return chk.finish()
