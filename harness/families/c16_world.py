"""C16 helper: run a client program against a real CachedStore inside a real Simulation and record
one trace step per generator segment (the atomic unit of the event loop) with the observable state.

program = [[ [kind, key, gap], ... ] per client process]; kinds: get put del inv invall flush
cfg     = {K, cap, wt, pol, par{ttl,ss,a1max}, lat{CL,RL,WL,DL} (ticks), tick_ns, pre[K] (initial
           backing values, 0 = absent), seed}
After every client has finished a finale runs alone: flush(), then get(k) for every key.
"""
from __future__ import annotations

from happysimulator.components.datastore.cached_store import CachedStore
from happysimulator.components.datastore.kv_store import KVStore
from happysimulator.core.entity import Entity
from happysimulator.core.event import Event
from happysimulator.core.simulation import Simulation
from happysimulator.core.temporal import Instant

from . import c16_policies as pol9
from .c16_util import Hung, exact_delay, time_limit  # noqa: F401

NS = 1_000_000_000


class _Client(Entity):
    def __init__(self, p, world, script):
        super().__init__(f"client{p}")
        self.p, self.w, self.script = p, world, script
        self.finished = False

    def handle_event(self, event):
        return self.body()

    def body(self):
        w = self.w
        for kind, k, gap in self.script:
            yield exact_delay(gap, w.tick_ns)
            yield from w.do_op(self.p, kind, k)
        self.finished = True


class _Finale(Entity):
    def __init__(self, world):
        super().__init__("finale")
        self.w = world

    def handle_event(self, event):
        return self.body()

    def body(self):
        w = self.w
        w.quiescent_at_finale = (all(c.finished for c in w.clients) and not w.inflight
                                 and (w.warmer is None or w.warmer.is_complete))
        yield from w.do_op(0, "flush", 0, fin=True)
        for k in range(1, w.K + 1):
            yield from w.do_op(0, "get", k)


class CacheWorld:
    def __init__(self, cfg, prog, cache_cls=CachedStore):
        self.cfg, self.prog = cfg, prog
        self.K, self.cap, self.wt = cfg["K"], cfg["cap"], cfg["wt"]
        self.pol_name = cfg["pol"]
        self.tick_ns = cfg["tick_ns"]
        lat = cfg["lat"]
        self.backing = KVStore("db", read_latency=exact_delay(lat["RL"], self.tick_ns),
                               write_latency=exact_delay(lat["WL"], self.tick_ns),
                               delete_latency=exact_delay(lat["DL"], self.tick_ns))
        for k, v in enumerate(cfg["pre"], start=1):
            if v:
                self.backing.put_sync(pol9.key_name(k), v)
        self.policy = pol9.make_policy(self.pol_name, par=cfg["par"], clock=self.tick, seed=cfg.get("seed", 0))
        self.cache = cache_cls("cache", self.backing, self.cap, self.policy,
                               cache_read_latency=exact_delay(lat["CL"], self.tick_ns),
                               write_through=self.wt)
        self.clients = [_Client(p, self, sc) for p, sc in enumerate(prog, start=1)]
        self.finale = _Finale(self)
        # optional CacheWarmer (cache_warming.py) pre-populating the cache while clients run: every get() of
        # the cache, whoever calls it, is driven segment by segment through the recorder
        self.warmer = None
        self._orig_get = self.cache.get
        if cfg.get("warm"):
            from happysimulator.components.datastore.cache_warming import CacheWarmer
            world = self

            def traced_get(name):
                return world.drive_get(-2, pol9.key_num(name), name)
            self.cache.get = traced_get
            self.warmer = CacheWarmer("warmer", self.cache, [pol9.key_name(k) for k in cfg["warm"]["keys"]],
                                      warmup_rate=1.0 / exact_delay(cfg["warm"]["every"], self.tick_ns))
        self.steps = []
        self.nv = 0
        self.noid = 0
        self.inflight = set()
        self.errors = []
        self.skipped = 0
        self.quiescent_at_finale = None
        self.hung = False

    # ------------------------------------------------------------------
    def tick(self):
        return self.cache.now.nanoseconds // self.tick_ns

    def snapshot(self):
        c, K = self.cache, self.K
        keys = [pol9.key_num(x) for x in c.get_cached_keys()]
        dirty = [pol9.key_num(x) for x in c.get_dirty_keys()]
        trk = pol9.tracked(self.pol_name, self.policy)
        q = pol9.project(self.pol_name, self.policy)
        extra = len([x for x in keys if not 1 <= x <= K]) + len([x for x in trk if not 1 <= x <= K])
        raw = c._cache
        return {
            "n": int(c.cache_size),
            "cache": [int(raw.get(pol9.key_name(k), 0) or 0) if k in keys else 0 for k in range(1, K + 1)],
            "dirty": [1 if k in dirty else 0 for k in range(1, K + 1)],
            "trk": [1 if k in trk else 0 for k in range(1, K + 1)],
            "back": [int(self.backing.get_sync(pol9.key_name(k)) or 0) for k in range(1, K + 1)],
            "q1": q[0], "q2": q[1], "q3": q[2], "pn": q[3], "xk": extra,
        }

    def record(self, p, oid, kind, k, v, seg, last, ret, ford, fin):
        st = {"p": p, "o": oid, "kind": kind, "k": k, "v": v, "seg": seg, "last": bool(last),
              "ret": int(ret or 0), "t": int(self.tick()), "ford": ford, "fin": 1 if (fin and last) else 0}
        st.update(self.snapshot())
        self.steps.append(st)

    def do_op(self, p, kind, k, fin=False):
        c = self.cache
        name = pol9.key_name(k)
        if not self.wt:
            # an explicit request to drop unflushed write-back data is outside the statement
            if (kind == "inv" and name in c.get_dirty_keys()) or (kind == "invall" and c.get_dirty_keys()):
                self.skipped += 1
                return None
        self.noid += 1
        oid = self.noid
        v = 0
        ford = []
        if kind == "inv":
            c.invalidate(name)
            self.record(p, oid, kind, k, 0, 1, True, 0, ford, fin)
            return None
        if kind == "invall":
            c.invalidate_all()
            self.record(p, oid, kind, 0, 0, 1, True, 0, ford, fin)
            return None
        if kind == "get":
            gen = self._orig_get(name)
        elif kind == "put":
            self.nv += 1
            v = self.nv
            gen = c.put(name, v)
        elif kind == "del":
            gen = c.delete(name)
        elif kind == "flush":
            ford = [pol9.key_num(x) for x in list(c._dirty_keys)]
            gen = c.flush()
            k = 0
        else:
            raise ValueError(kind)
        self.inflight.add(oid)
        seg = 0
        send = None
        try:
            while True:
                seg += 1
                try:
                    y = next(gen) if seg == 1 else gen.send(send)
                except StopIteration as e:
                    ret = e.value
                    if kind == "del":
                        ret = 1 if ret else 0
                    self.record(p, oid, kind, k, v, seg, True, ret, ford if seg == 1 else [], fin)
                    return ret
                self.record(p, oid, kind, k, v, seg, False, 0, ford if seg == 1 else [], fin)
                send = yield y
        except Hung:
            raise
        except Exception as ex:      # noqa: BLE001 - the real code raised: recorded, not a verdict
            self.errors.append(f"{kind}({k}) seg {seg}: {type(ex).__name__}: {ex}")
            return None
        finally:
            self.inflight.discard(oid)

    def drive_get(self, p, k, name):
        """cache.get() called by somebody else (the CacheWarmer): same recording as do_op('get')."""
        self.noid += 1
        oid = self.noid
        gen = self._orig_get(name)
        self.inflight.add(oid)
        seg, send = 0, None
        try:
            while True:
                seg += 1
                try:
                    y = next(gen) if seg == 1 else gen.send(send)
                except StopIteration as e:
                    self.record(p, oid, "get", k, 0, seg, True, e.value, [], False)
                    return e.value
                self.record(p, oid, "get", k, 0, seg, False, 0, [], False)
                send = yield y
        finally:
            self.inflight.discard(oid)

    # ------------------------------------------------------------------
    def run(self):
        lat = self.cfg["lat"]
        worst = max(lat.values()) * (self.K + 2) + 2
        horizon = max([sum(g for _, _, g in sc) + len(sc) * worst for sc in self.prog] + [0]) + 10
        ents = [self.backing, self.cache, *self.clients, self.finale]
        if self.warmer is not None:
            ents.append(self.warmer)
            horizon += len(self.cfg["warm"]["keys"]) * (self.cfg["warm"]["every"] + worst) + 2
        sim = Simulation(entities=ents)
        if self.warmer is not None:
            sim.schedule(self.warmer.start_warming())
        for cl in self.clients:
            sim.schedule(Event(time=Instant(0), event_type="go", target=cl))
        sim.schedule(Event(time=Instant(horizon * self.tick_ns), event_type="go", target=self.finale))
        try:
            with time_limit(self.cfg.get("limit_s", 5)):
                sim.run()
        except Hung as ex:
            self.hung = True
            self.errors.append(f"simulation did not terminate: {ex}")
        except Exception as ex:      # noqa: BLE001
            self.errors.append(f"simulation: {type(ex).__name__}: {ex}")
        return self

    def trace(self, tid):
        c = self.cfg
        return {"id": tid, "K": self.K, "cap": self.cap, "wt": bool(self.wt), "pol": self.pol_name,
                "par": c["par"], "pre": list(c["pre"]), "steps": self.steps}
