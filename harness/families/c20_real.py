"""C20 real-code side: adaptors around happysimulator.sketching, case execution, trace recording.

A *case* is a JSON-able description of one execution (so that it can be saved as a replay file);
`execute(case)` runs it on the REAL classes and returns the trace dict consumed by
specs/sketch/SketchTrace.tla.  Items of the model are indices 1..ni into `case["universe"]`
(python literals stored by repr).
"""
from __future__ import annotations

import ast
import random

from happysimulator.components.sketching import QuantileEstimator, SketchCollector, TopKCollector
from happysimulator.core.event import Event
from happysimulator.core.simulation import Simulation
from happysimulator.core.temporal import Instant
from happysimulator.sketching.bloom_filter import BloomFilter
from happysimulator.sketching.count_min_sketch import CountMinSketch
from happysimulator.sketching.hyperloglog import HyperLogLog
from happysimulator.sketching.merkle_tree import MerkleTree
from happysimulator.sketching.reservoir import ReservoirSampler
from happysimulator.sketching.tdigest import TDigest
from happysimulator.sketching.topk import TopK

STREAM = ("bloom", "cms", "hll", "topk", "res")
MERGEABLE = ("bloom", "cms", "hll")


class RealError(Exception):
    """The real code raised on a legal call."""

    def __init__(self, where, ex):
        super().__init__(f"{where}: {type(ex).__name__}: {ex}")
        self.where = where
        self.ex_type = type(ex).__name__


def lit(r):
    return ast.literal_eval(r)


class RecRandom(random.Random):
    """random.Random that logs randint() draws (reservoir replacement index)."""

    def __init__(self, seed=None):
        super().__init__(seed)
        self.draws = []

    def randint(self, a, b):
        v = super().randint(a, b)
        self.draws.append(v)
        return v


class ScriptRandom(random.Random):
    """random.Random whose randint() answers come from a script (spec -> code replay)."""

    def __init__(self):
        super().__init__(0)
        self.script = []
        self.draws = []

    def randint(self, a, b):
        v = self.script.pop(0) if self.script else a
        v = min(max(v, a), b)
        self.draws.append(v)
        return v


# ---------------------------------------------------------------------------
# adaptors

class Adaptor:
    """One real sketch + how to project / query it.  `table` (optional) = injected hash values
    per item index (1-based values as in the model)."""

    def __init__(self, kind, p, seed, universe, table=None, script_rng=False):
        self.kind, self.p, self.universe, self.table = kind, p, universe, table
        self.index = {}
        for i, x in enumerate(universe):
            self.index.setdefault(_key(x), i + 1)
        idx = self.idx
        if kind == "bloom":
            o = BloomFilter(size_bits=p[0], num_hashes=p[1], seed=seed)
            if table is not None:
                o._hash = lambda item, i: _inj(table[idx(item) - 1], i, p[0])
        elif kind == "cms":
            o = CountMinSketch(width=p[0], depth=p[1], seed=seed)
            if table is not None:
                o._hash = lambda item, row: _inj(table[idx(item) - 1], row, p[0])
        elif kind == "hll":
            prec = p[0].bit_length() - 1
            assert 1 << prec == p[0]
            o = HyperLogLog(precision=prec, seed=seed)
            self.prec = prec
            if table is not None:
                def h(item):
                    i, r = table[idx(item) - 1]
                    return ((i - 1) << (64 - prec)) | (1 << (64 - prec - r))
                o._hash = h
        elif kind == "topk":
            o = TopK(k=p[0], seed=seed)
        elif kind == "res":
            o = ReservoirSampler(size=p[0], seed=seed)
            o._rng = ScriptRandom() if script_rng else RecRandom(seed)
        else:
            raise ValueError(kind)
        self.o = o
        self.front = None

    def idx(self, item):
        return self.index.get(_key(item), 0)

    # hash values of an item as the model wants them (1-based)
    def hash_values(self, item):
        o = self.o
        if self.kind == "bloom":
            return [o._hash(item, i) + 1 for i in range(o.num_hashes)]
        if self.kind == "cms":
            return [o._hash(item, r) + 1 for r in range(o.depth)]
        if self.kind == "hll":
            v = o._hash(item)
            rest_bits = 64 - self.prec
            rest = v & ((1 << rest_bits) - 1)
            run = rest_bits - rest.bit_length() + 1
            return [(v >> rest_bits) + 1, run]
        return [0]

    def project(self):
        o = self.o
        k = self.kind
        if k == "bloom":
            return {"bits": [(o._bits[i // 64] >> (i % 64)) & 1 for i in range(o.size_bits)],
                    "nset": o._bits_set, "total": o.item_count}
        if k == "cms":
            return {"ctr": [list(r) for r in o._counters], "total": o.item_count}
        if k == "hll":
            return {"reg": list(o._registers), "total": o.item_count}
        if k == "topk":
            return {"ctr": [[self.idx(c.item), c.count, c.error] for c in o._counters.values()],
                    "total": o.item_count}
        return {"res": [self.idx(x) for x in o._reservoir], "n": o.item_count}

    def query(self):
        o = self.o
        k = self.kind
        U = self.universe
        if k == "bloom":
            has = [bool(o.contains(x)) for x in U]
            has2 = [bool(x in o) for x in U]
            return {"has": [a and b for a, b in zip(has, has2)]}
        if k == "cms":
            return {"est": [int(o.estimate(x)) for x in U]}
        if k == "hll":
            return {"card": int(o.cardinality())}
        if k == "topk":
            f = self.front if self.front is not None else o    # TopKCollector exposes the same queries
            rep = []
            for x in U:
                e = o.estimate_with_error(x)
                rep.append([int(f.estimate(x)), int(e.error)])     # the estimate and its reported error
            return {"has": [bool(x in f) for x in U], "rep": rep,
                    "top": [[self.idx(e.item), int(e.count), int(e.error)] for e in f.top()]}
        return {"len": len(o), "sample": [self.idx(x) for x in o.sample()]}


def _inj(row, i, size):
    """Injected hash value (0-based) for hash index i; total: an index the model's table does not
    define (only a modified implementation asks for it) gets some fixed in-range value."""
    if 0 <= i < len(row):
        return row[i] - 1
    return (sum(row) + i) % size


def _key(x):
    # identity of a universe item: type-sensitive so that 1, 1.0 and True stay different items
    return (type(x).__name__, repr(x))


def _guard(where, fn, *a, **kw):
    try:
        return fn(*a, **kw)
    except RealError:
        raise
    except Exception as ex:  # noqa: BLE001 - any exception of the real code is an observation
        raise RealError(where, ex) from ex


# ---------------------------------------------------------------------------
# stream sketches

def execute_stream(case, tid):
    """Run a stream-sketch case on two real sketches; return the trace."""
    kind, p, seed = case["kind"], case["p"], case.get("seed", 0)
    U = [lit(r) for r in case["universe"]]
    table = case.get("table")
    scripted = case.get("scripted_rng", False)
    mk = lambda: Adaptor(kind, p, seed, U, table, scripted)
    sk = {1: mk(), 2: mk()}
    streams = {1: [], 2: []}
    H = [sk[1].hash_values(x) for x in U]
    ops, obs = [], []
    if case.get("mode") == "component":
        return _execute_component(case, tid, U, sk, H)
    for op in case["ops"]:
        name, s = op[0], op[1]
        a = sk[s]
        if name == "add":
            x, c = op[2], op[3]
            item = U[x - 1]
            js = []
            if kind == "res":
                rng = a.o._rng
                rng.draws = []
                if scripted:
                    # the model logs 0 for "no draw"; only draws made while full are consumed
                    rng.script = _script_for(a, op[4])
            if c == 1 and case.get("bare_add", False):
                _guard(f"{kind}.add", a.o.add, item)
            else:
                _guard(f"{kind}.add", a.o.add, item, c)
            if kind == "res":
                js = _js_from_draws(case, op, a)
            streams[s].append((x, c))
            st = _guard(f"{kind}.project", a.project)
            ops.append({"op": "add", "s": s, "x": x, "c": c, "js": js})
            obs.append({"st": st, "q": _guard(f"{kind}.query", a.query), "ref": st})
        elif name == "merge":
            t = op[2]
            other_stream = list(streams[t])
            _guard(f"{kind}.merge", a.o.merge, sk[t].o)
            streams[s] = streams[s] + other_stream
            ref = mk()
            for (x, c) in streams[s]:
                _guard(f"{kind}.add", ref.o.add, U[x - 1], c)
            st = _guard(f"{kind}.project", a.project)
            ops.append({"op": "merge", "s": s, "x": t, "c": 0, "js": []})
            obs.append({"st": st, "q": _guard(f"{kind}.query", a.query),
                        "ref": _guard(f"{kind}.project", ref.project)})
        else:
            raise ValueError(name)
    return {"id": tid, "kind": kind, "p": list(p) + [0] * (2 - len(p)), "ni": len(U), "H": H,
            "ops": ops, "obs": obs}


def _script_for(a, js):
    """Scripted reservoir draws: the model's js has one entry per added copy, 0 while there is room.
    The real code only draws when full, so keep the entries that fall on a full reservoir."""
    o = a.o
    room = o.capacity - len(o)
    return [j for i, j in enumerate(js) if i >= room]


def _js_from_draws(case, op, a):
    """js as the model wants it: one entry per copy added, 0 where the code made no draw."""
    c = op[3]
    draws = list(a.o._rng.draws)
    # copies added while there was room made no draw: they come first
    nodraw = c - len(draws)
    if nodraw < 0:      # more draws than copies: not the modelled algorithm; log what happened
        return draws
    return [0] * nodraw + draws


# ---------------------------------------------------------------------------
# components inside a real Simulation

def _execute_component(case, tid, U, sk, H):
    """ops = [("add", 1, x, c, time_ns)] delivered as events to a collector entity wrapping sketch 1.
    The stream is the order in which the engine finished the events (completion hooks)."""
    kind, p, seed = case["kind"], case["p"], case.get("seed", 0)
    a = sk[1]
    weighted = case.get("weighted", True)
    if kind == "topk":
        col = TopKCollector("col", k=p[0], value_extractor=lambda e: e.context["metadata"].get("v"),
                            count_extractor=(lambda e: e.context["metadata"]["w"]) if weighted else None,
                            seed=seed)
        a.o = col._topk
        a.front = col
    else:
        col = SketchCollector("col", sketch=a.o, value_extractor=lambda e: e.context["metadata"].get("v"),
                              weight_extractor=(lambda e: e.context["metadata"]["w"]) if weighted else None)
    ops, obs = [], []
    sim = Simulation(entities=[col])

    def done(x, c):
        def hook(_when):
            js = []
            if kind == "res":
                js = _js_from_draws(case, ("add", 1, x, c), a)
                a.o._rng.draws = []
            st = a.project()
            q = a.query()
            ops.append({"op": "add", "s": 1, "x": x, "c": c, "js": js})
            obs.append({"st": st, "q": q, "ref": st})
            return None
        return hook

    for op in case["ops"]:
        _, _s, x, c, t_ns = op
        md = {"w": c}
        if x:
            md["v"] = U[x - 1]
        ev = Event(time=Instant(t_ns), event_type="obs", target=col, context={"metadata": md})
        # an event without a value is skipped by the collector: the stream gets add(item 1, count 0);
        # without a weight extractor every event counts once
        ev.add_completion_hook(done(x or 1, (c if weighted else 1) if x else 0))
        sim.schedule(ev)
    if kind == "res":
        a.o._rng.draws = []
    _guard("Simulation.run", sim.run)
    return {"id": tid, "kind": kind, "p": list(p) + [0] * (2 - len(p)), "ni": len(U), "H": H,
            "ops": ops, "obs": obs, "n_events": len(case["ops"])}


# ---------------------------------------------------------------------------
# t-digest (monitored only)

SCALE = 1_000_000
CLAMP = 2_000_000_000


def td_queries(n, rng, extra=()):
    qs = {0.0, 1.0, 0.5, 1e-9, 1 - 1e-9, 0.001, 0.999, 0.01, 0.99}
    qs.update(i / 32 for i in range(33))
    if n:
        step = max(1, n // 40)
        for k in range(0, n + 1, step):
            for d in (-0.5, -1e-7, 0.0, 1e-7, 0.5):
                q = (k + d) / n
                if 0.0 <= q <= 1.0:
                    qs.add(q)
    for _ in range(24):
        qs.add(rng.random())
    qs.update(q for q in extra if 0.0 <= q <= 1.0)
    return sorted(qs)


def execute_td(case, tid0):
    """case: {"kind":"td","compression":c,"ops":[["add",v,count]|["merge",[[v,count],...],c2]|["q",seed]]}
    with mode "component" the adds are events sent to a QuantileEstimator inside a Simulation.
    Returns a list of traces (one per "q" op)."""
    comp = case["compression"]
    traces = []
    values = []            # the exact stream (ghost)
    if case.get("mode") == "component":
        est = QuantileEstimator("q", value_extractor=lambda e: e.context["metadata"].get("v"), compression=comp)
        sim = Simulation(entities=[est])
        for op in case["ops"]:
            if op[0] == "add":
                md = {} if op[1] is None else {"v": op[1]}
                sim.schedule(Event(time=Instant(op[3]), event_type="lat", target=est, context={"metadata": md}))
                if op[1] is not None:
                    values.append(op[1])
        _guard("Simulation.run", sim.run)
        td, qobj = est._tdigest, est
        ops = [["q", case.get("qseed", 0)]]
    else:
        td = qobj = TDigest(compression=comp)
        ops = case["ops"]
    for op in ops:
        if op[0] == "add":
            _guard("tdigest.add", td.add, op[1], op[2])
            values.extend([op[1]] * op[2])
        elif op[0] == "merge":
            other = TDigest(compression=op[2])
            for v, c in op[1]:
                _guard("tdigest.add", other.add, v, c)
                values.extend([v] * c)
            _guard("tdigest.merge", td.merge, other)
        elif op[0] == "q":
            if not values:
                continue
            lo, hi = min(values), max(values)
            span = hi - lo
            unit = max(span, abs(lo), abs(hi), 1e-300) / SCALE

            def sc(v):
                z = round((v - lo) / unit)
                return int(min(max(z, -CLAMP), CLAMP))
            qs = td_queries(len(values), random.Random(op[1]), case.get("extra_q", ()))
            vs_raw = [_guard("tdigest.quantile", qobj.quantile, q) for q in qs]
            traces.append({"id": tid0 + len(traces), "kind": "td", "vs": [sc(v) for v in vs_raw],
                           "lo": 0, "hi": sc(hi), "tol": 1, "e0": sc(vs_raw[0]), "e1": sc(vs_raw[-1]),
                           "n": len(values),
                           "_raw": {"qs": qs, "vs": vs_raw, "min": lo, "max": hi}})
    return traces


# ---------------------------------------------------------------------------
# Merkle trees

def execute_mk(case, tid):
    """case: {"kind":"mk","keys":[str...] (any order), "vals":[repr...], "init":[[vid..],[vid..]],
              "ops":[["put",t,k,v]|["del",t,k]]}   k = 1-based rank in sorted(keys), v = 1-based value id"""
    keys = sorted(case["keys"])
    rank = {k: i + 1 for i, k in enumerate(keys)}
    vals = [lit(r) for r in case["vals"]]
    vid = {_key(v): i + 1 for i, v in enumerate(vals)}

    def build(m):
        return _guard("MerkleTree.build", MerkleTree.build, {keys[i]: vals[v - 1] for i, v in enumerate(m) if v})
    trees = {1: build(case["init"][0]), 2: build(case["init"][1])}

    def content(t):
        out = []
        for k in keys:
            v = t.get(k)
            out.append(0 if v is None else vid.get(_key(v), -1))
        if t.size != sum(1 for v in out if v) or t.keys() != [k for k, v in zip(keys, out) if v]:
            out = [-2] * len(keys)
        return out

    def ranges(a, b):
        d = _guard("MerkleTree.diff", a.diff, b)
        return [[rank.get(r.start, 0), rank.get(r.end, 0)] for r in d]

    def observe():
        return {"a": content(trees[1]), "b": content(trees[2]),
                "d12": ranges(trees[1], trees[2]), "d21": ranges(trees[2], trees[1])}
    ops = [{"op": "build", "s": 1, "x": 1, "c": 0}]
    obs = [observe()]
    for op in case["ops"]:
        t = trees[op[1]]
        if op[0] == "put":
            _guard("MerkleTree.update", t.update, keys[op[2] - 1], vals[op[3] - 1])
            ops.append({"op": "put", "s": op[1], "x": op[2], "c": op[3]})
        else:
            _guard("MerkleTree.remove", t.remove, keys[op[2] - 1])
            ops.append({"op": "del", "s": op[1], "x": op[2], "c": 0})
        obs.append(observe())
    return {"id": tid, "kind": "mk", "nk": len(keys), "init": [list(case["init"][0]), list(case["init"][1])],
            "ops": ops, "obs": obs}


def execute(case, tid):
    """-> list of traces"""
    k = case["kind"]
    if k in STREAM:
        return [execute_stream(case, tid)]
    if k == "td":
        return execute_td(case, tid)
    if k == "mk":
        return [execute_mk(case, tid)]
    raise ValueError(k)
