"""C10 helper: the real RateLimitedEntity (and Inductor / NullRateLimiter / DistributedRateLimiter)
inside a real Simulation, with a recording downstream, a recording policy proxy and a spin guard.

Nothing in /repo is modified: the recorders are harness-side subclasses / wrappers.
"""
from __future__ import annotations

from happysimulator.components.rate_limiter import (DistributedRateLimiter, Inductor, NullRateLimiter,
                                                    RateLimitedEntity)
from happysimulator.core.entity import Entity
from happysimulator.core.event import Event
from happysimulator.core.simulation import Simulation
from happysimulator.core.temporal import Instant

from . import c10_policy as cp

SPIN_LIMIT = 60          # handler invocations of one entity at one instant before the run is aborted


class SpinAbort(Exception):
    pass


class PolicyProxy:
    """Delegates to a real policy and records every call (same vocabulary as c10_policy.Rec)."""

    def __init__(self, pol, base):
        self._pol, self._base = pol, base
        self.ops = []
        self.fwd_ops = []        # what downstream sees: one admit per forwarded request + feedback calls
        self.calls = []          # per-handler scratch: results of try_acquire

    def try_acquire(self, now):
        ok = bool(self._pol.try_acquire(now))
        self.ops.append(["a", now.nanoseconds - self._base, 1 if ok else 0])
        self.calls.append(1 if ok else 0)
        return ok

    def time_until_available(self, now):
        d = self._pol.time_until_available(now)
        self.ops.append(["u", now.nanoseconds - self._base, max(-1, min(int(d.nanoseconds), cp.WCAP))])
        return d

    def feedback(self, now, up):
        if up:
            self._pol.record_success(now)
        else:
            self._pol.record_failure(now)
        r = self._pol.current_rate
        op = ["s" if up else "f", now.nanoseconds - self._base, cp._micro(r),
              cp._floor_ns_per_token(r) if r > 0 else 1]
        self.ops.append(op)
        self.fwd_ops.append(list(op))

    def forwarded(self, now):
        self.fwd_ops.append(["a", now.nanoseconds - self._base, 1])

    def __getattr__(self, name):
        return getattr(self._pol, name)


class Sink(Entity):
    """Recording downstream; optionally feeds success/failure back into an adaptive policy."""

    def __init__(self, base, feedback=None):
        super().__init__("sink")
        self.base = base
        self.got = []            # (id, t_rel)
        self.feedback = feedback  # callable(now) or None

    def handle_event(self, event):
        md = event.context.get("metadata", {})
        self.got.append((md.get("rid", 0), self.now.nanoseconds - self.base))
        if self.feedback is not None:
            self.feedback(self.now)
        return None


class Feeder(Entity):
    """Creates request events from inside the run (their creation index is then larger than that of
    polls created earlier): handles ('feed', [(t_abs, rid), ...]) and emits the requests."""

    def __init__(self, target):
        super().__init__("feeder")
        self.target = target

    def handle_event(self, event):
        out = []
        for t_abs, rid in event.context["metadata"]["batch"]:
            out.append(Event(time=Instant(t_abs), event_type="req", target=self.target,
                             context={"metadata": {"rid": rid}}))
        return out


def _record_step(self, event, result, is_poll):
    """Common recorder for RateLimitedEntity-like entities (public counters only)."""
    st = self.stats
    depth = self.queue_depth
    fid = 0
    poll = 0
    nfwd = 0
    for ev in (result or []):
        if ev.event_type.startswith("forward::"):
            nfwd += 1
            fid = ev.context.get("metadata", {}).get("rid", 0)
        elif "_poll::" in ev.event_type:
            poll = 1
    acq = self._proxy.calls[0] if getattr(self, "_proxy", None) is not None and self._proxy.calls else -1
    rid = 0 if is_poll else event.context.get("metadata", {}).get("rid", 0)
    prev = self._prev
    if nfwd > 1:
        out = "x"
    elif is_poll:
        out = "f" if fid else "n"
    elif fid and fid == rid:
        out = "f"
    elif st.queued - prev[0] == 1:
        out = "q"
    elif st.dropped - prev[1] == 1:
        out = "d"
    else:
        out = "x"
    self._prev = (st.queued, st.dropped)
    self.steps.append(["p" if is_poll else "r", rid, acq, out, fid, poll, st.received, st.forwarded, depth,
                       st.dropped])


class RecRLE(RateLimitedEntity):
    def __init__(self, name, downstream, proxy, queue_capacity):
        super().__init__(name, downstream, proxy, queue_capacity=queue_capacity)
        self._proxy = proxy
        self.steps = []
        self._prev = (0, 0)
        self._spin_t, self._spin_n = None, 0
        self.spun = False

    def handle_event(self, event):
        t = event.time.nanoseconds
        if t == self._spin_t:
            self._spin_n += 1
            if self._spin_n > SPIN_LIMIT + 4 * self.stats.received:
                self.spun = True
                raise SpinAbort()
        else:
            self._spin_t, self._spin_n = t, 1
        self._proxy.calls = []
        is_poll = event.event_type == f"rate_limit_poll::{self.name}"
        result = super().handle_event(event)
        _record_step(self, event, result, is_poll)
        for ev in (result or []):
            if ev.event_type.startswith("forward::"):
                self._proxy.forwarded(ev.time)
        return result


class RecInductor(Inductor):
    def __init__(self, name, downstream, time_constant, queue_capacity):
        super().__init__(name, downstream, time_constant, queue_capacity=queue_capacity)
        self._proxy = None
        self.steps = []
        self._prev = (0, 0)
        self._spin_t, self._spin_n = None, 0
        self.spun = False

    def handle_event(self, event):
        t = event.time.nanoseconds
        if t == self._spin_t:
            self._spin_n += 1
            if self._spin_n > SPIN_LIMIT + 4 * self.stats.received:
                self.spun = True
                raise SpinAbort()
        else:
            self._spin_t, self._spin_n = t, 1
        is_poll = event.event_type == f"inductor_poll::{self.name}"
        result = super().handle_event(event)
        _record_step(self, event, result, is_poll)
        return result


def run_rle(pol, hdr, *, base, arrivals, cap, end, feeder_ids=(), feedback_plan=None, limiter="rle",
            time_constant=0.01):
    """Run one real simulation.  arrivals: sorted list of relative ns instants (request i+1 arrives at
    arrivals[i]); ids in feeder_ids are created inside the run by a Feeder one instant earlier.
    Returns dict(entity trace fields, policy ops, sink log, error)."""
    proxy = PolicyProxy(pol, base) if pol is not None else None
    fb = None
    if feedback_plan is not None and proxy is not None:
        plan = list(feedback_plan)

        def fb(now):
            if plan:
                proxy.feedback(now, plan.pop(0))
    sink = Sink(base, fb)
    if limiter == "rle":
        rl = RecRLE("rl", sink, proxy, cap)
    else:
        rl = RecInductor("rl", sink, time_constant, cap)
    feeder = Feeder(rl)
    sim = Simulation(start_time=Instant(base), end_time=Instant(base + end), entities=[rl, sink, feeder])
    # requests carry a provisional tag; ids in arrival order are assigned afterwards from the order in
    # which the entity actually received them (ties between feeder-created events depend on creation)
    batches = {}
    for i, t in enumerate(arrivals):
        tag = i + 1
        if i in feeder_ids and t > 0:
            tf = max(0, t - 1 - (i % 3) * max(1, t // 7))
            batches.setdefault(tf, []).append((base + t, tag))
        else:
            sim.schedule(Event(time=Instant(base + t), event_type="req", target=rl,
                               context={"metadata": {"rid": tag}}))
    for tf, batch in sorted(batches.items()):
        sim.schedule(Event(time=Instant(base + tf), event_type="feed", target=feeder,
                           context={"metadata": {"batch": batch}}))
    err = None
    try:
        sim.run()
    except SpinAbort:
        pass
    except Exception as ex:  # noqa: BLE001 - any exception of the real code is an observation
        err = f"{type(ex).__name__}: {ex}"
    ops = proxy.ops if proxy is not None else []
    spin = 0
    if rl.spun:
        # explained at policy level iff the last answers were "wait 0" followed by a denied acquire
        tail = ops[-2:]
        explained = (len(tail) == 2 and tail[0][0] == "a" and tail[0][2] == 0 and tail[1][0] == "u"
                     and tail[1][2] == 0) or \
                    (len(tail) == 2 and tail[0][0] == "u" and tail[0][2] == 0 and tail[1][0] == "a"
                     and tail[1][2] == 0)
        spin = 0 if explained else 1
        if explained:          # keep the policy trace short: cut the repetition
            cut = len(ops)
            t_last = ops[-1][1]
            k = next(i for i, o in enumerate(ops) if o[1] == t_last)
            cut = min(len(ops), k + 6)
            ops = ops[:cut]
            if ops and ops[-1][0] == "u" and ops[-1][2] == 0:
                ops = ops[:-1]
    # relabel tags -> arrival order
    amap = {}
    for st in rl.steps:
        if st[0] == "r" and st[1] not in amap:
            amap[st[1]] = len(amap) + 1
    for st in rl.steps:
        st[1] = amap.get(st[1], st[1] and 10 ** 6 + st[1])
        st[4] = amap.get(st[4], st[4] and 10 ** 6 + st[4])
    sink.got = [(amap.get(g, g and 10 ** 6 + g), t) for g, t in sink.got]
    return dict(steps=rl.steps, sink=[g[0] for g in sink.got], sink_t=[g[1] for g in sink.got], ops=ops,
                fwd_ops=proxy.fwd_ops if proxy is not None else [],
                spin=spin, spun=rl.spun, err=err, stats=rl.stats, depth=rl.queue_depth,
                fwd_t=[t.nanoseconds - base for t in rl.forwarded_times])


def entity_trace(tid, res, cap, model=1):
    return {"id": tid, "cap": min(int(cap), 10 ** 9), "model": model, "order": model, "spin": res["spin"],
            "steps": res["steps"], "sink": res["sink"]}


def policy_trace(tid, hdr, res):
    d = dict(hdr)
    d["id"] = tid
    d["ops"] = res["ops"]
    return d


# ---------------------------------------------------------------------------
# pass-through / distributed limiters: accounting clauses only

class _CountSink(Entity):
    def __init__(self):
        super().__init__("sink")
        self.got = []

    def handle_event(self, event):
        self.got.append(event.context.get("metadata", {}).get("rid", 0))
        return None


def run_null(arrivals):
    sink = _CountSink()
    rl = NullRateLimiter("null", sink)
    sim = Simulation(end_time=Instant(max(arrivals) + 10), entities=[rl, sink])
    for i, t in enumerate(arrivals):
        sim.schedule(Event(time=Instant(t), event_type="req", target=rl, context={"metadata": {"rid": i + 1}}))
    sim.run()
    return sink.got


def run_distributed(arrivals, limit, window_ns, latency_s, n_limiters=2):
    from happysimulator.components.datastore import KVStore
    sink = _CountSink()
    store = KVStore(name="kv", read_latency=latency_s, write_latency=latency_s)
    rls = [DistributedRateLimiter(f"d{i}", sink, store, global_limit=limit, window_size=window_ns / 1e9)
           for i in range(n_limiters)]
    sim = Simulation(end_time=Instant(max(arrivals) + 5 * 10 ** 9), entities=[*rls, sink, store])
    for i, t in enumerate(arrivals):
        sim.schedule(Event(time=Instant(t), event_type="req", target=rls[i % n_limiters],
                           context={"metadata": {"rid": i + 1}}))
    sim.run()
    return sink.got, [r.stats for r in rls]
