"""C03 — the same model and seeds give the same run, every time and in every process."""
from __future__ import annotations

import glob
import json
import os
import random
import subprocess
import sys
from concurrent.futures import ThreadPoolExecutor

from .. import tlc
from ..common import Check, REPO, VERIF

SPEC = tlc.SPECS / "determinism"
DEVIATIONS = ["ctor_resets_gctr", "per_heap_counter_restart"]

VARIANTS = {
    "base":  ({"PYTHONHASHSEED": "0"}, []),
    "hash1": ({"PYTHONHASHSEED": "1"}, []),
    "hash2": ({"PYTHONHASHSEED": "4242"}, []),
    "prior": ({"PYTHONHASHSEED": "0"}, ["--prior", "3"]),
    "wall":  ({"PYTHONHASHSEED": "0"}, ["--fakewall"]),
    "hash3prior": ({"PYTHONHASHSEED": "77"}, ["--prior", "5"]),
}

LIB = ["cms_str", "sketches_str", "poisson_queue", "fam_c19_mq", "fam_c19_topic", "cache_policies_str", "seeded_boundary_seeds", "two_sources_tie"]
CORE_FILES = [
    "tests/integration/consensus/test_consensus_raft.py",
    "tests/integration/consensus/test_consensus_paxos.py",
    "tests/integration/storage/test_storage_engine.py",
    "tests/integration/queue_and_resources/test_queue.py",
    "tests/integration/network/test_network_cluster.py",
    "tests/integration/rate_limiting/test_rate_limited_entity.py",
]
SKIP_FILES = {
    # no tests collected / not a model
    "tests/integration/queue_and_resources/test_compare_lifo_fifo.py",
}


def corpus(tier, rng):
    repo = str(REPO)
    integ = sorted(f[len(repo) + 1:] for f in glob.glob(repo + "/tests/integration/**/test_*.py", recursive=True)
                   if "visualization" not in f)
    units = sorted(f[len(repo) + 1:] for f in glob.glob(repo + "/tests/unit/components/**/test_*.py",
                                                         recursive=True))
    integ = [f for f in integ if f not in SKIP_FILES]
    sc = [f"engine:{rng.randint(1, 10**6)}" for _ in range(2 if tier == "quick" else 8)]
    sc += [f"lib:{n}" for n in LIB]
    # the scenario libraries written for C07 (every public component class of every family, hostile
    # parameters) are models too: groups of them run in one child per process variant
    try:
        from .. import scenarios as _sc
        for prefix in ("svc_", "ops_", "data_"):
            cnt = len([n for n in _sc.SCENARIOS if n.startswith(prefix)])
            if not cnt:
                continue
            groups = max(1, min(8, cnt // 10))
            # quick: every group of the service-layer library (forwarding wrappers that stack completion
            # hooks, retries, pools), one random group of the two others; thorough: everything
            ks = range(groups) if (tier != "quick" or prefix == "svc_") else [rng.randrange(groups)]
            sc += [f"libgroup:{prefix}:{k}:{groups}" for k in ks]
    except Exception:
        pass
    if tier == "quick":
        files = [f for f in CORE_FILES if os.path.exists(os.path.join(repo, f))]
        rest = [f for f in integ if f not in files]
        files += rng.sample(rest, min(4, len(rest))) + rng.sample(units, min(4, len(units)))
    else:
        files = integ + units[::2] + units[1::2][: len(units) // 4]
    sc += [f"pytest:{f}" for f in files]
    return sc


def run_child(scenario, variant, outdir, timeout=900):
    env = dict(os.environ)
    env.update(VARIANTS[variant][0])
    env["VERIF_REPO"] = str(REPO)
    env["PYTHONPATH"] = f"{VERIF}:{REPO}"
    out = os.path.join(outdir, f"{_slug(scenario)}.{variant}.json")
    try:
        subprocess.run([sys.executable, "-m", "harness.sim_child", scenario, out, *VARIANTS[variant][1]],
                       cwd=str(VERIF), env=env, capture_output=True, text=True, timeout=timeout)
    except subprocess.TimeoutExpired:
        return None
    try:
        return json.loads(open(out).read())
    except Exception:
        return None


def _slug(s):
    return "".join(c if c.isalnum() else "_" for c in s)[-90:]


def limbs(hexd):
    return [int(hexd[i:i + 7], 16) for i in range(0, 28, 7)]


class Interner:
    def __init__(self):
        self.d = {}

    def __call__(self, s):
        s = str(s)
        if s not in self.d:
            self.d[s] = len(self.d) + 1
        return self.d[s]


def encode_pair(pid, ref, got):
    """ref/got child outputs -> a JSON pair for Replay.tla (strings interned, times ranked jointly)."""
    times = sorted({r[0] for side in (ref, got) for s in side["sims"] for r in s["log"]})
    rank = {t: i for i, t in enumerate(times)}
    it = Interner()

    def side(o):
        sims = []
        for s in o["sims"]:
            st = s.get("stats") or {"sha": "0" * 64}
            sims.append({"n": s["n"], "hash": limbs(s["hash"]), "stats": limbs(st["sha"]),
                         "log": [[rank[r[0]], it(r[1]), it(r[2])] for r in s["log"]]})
        res = json.dumps([o.get("info"), o.get("err")], sort_keys=True, default=str)
        return {"sims": sims, "result": it(res)}
    return {"id": pid, "ref": side(ref), "got": side(got)}


def describe_diff(ref, got, pos):
    si, ri = divmod(pos, 1000)
    si -= 1
    ri -= 1
    try:
        a, b = ref["sims"][si], got["sims"][si]
    except Exception:
        return {"sim": si}
    d = {"sim": si, "record": ri, "n_ref": a["n"], "n_got": b["n"]}
    if 0 <= ri < len(a["log"]) and ri < len(b["log"]):
        d["ref"], d["got"] = a["log"][ri], b["log"][ri]
    elif (a.get("stats") or {}).get("sha") != (b.get("stats") or {}).get("sha"):
        x, y = (a.get("stats") or {}).get("text", ""), (b.get("stats") or {}).get("text", "")
        k = next((j for j in range(min(len(x), len(y))) if x[j] != y[j]), 0)
        d["stats_ref"], d["stats_got"] = x[max(0, k - 100):k + 80], y[max(0, k - 100):k + 80]
    return d


def model_check(chk, tier):
    wd = tlc.workdir("C03_mc")
    big = 4 if tier == "quick" else 5
    c = {"Dev": "{}", "MaxEv": big, "MaxT": 1, "MaxG": 2}
    cfg = tlc.write_cfg(wd / "clean.cfg", spec="Spec", constants=c, invariants=["InvSameOrder"])
    res = tlc.run(SPEC / "EngineDet.tla", cfg, label="C03_mc", timeout=3000)
    chk.add_tlc(f"EngineDet Dev={{}} MaxEv={big}", res)
    chk.require(res.ok, f"EngineDet.tla with Dev={{}} violates {res.violated}")
    for dev in DEVIATIONS:
        c2 = dict(c, Dev='{"%s"}' % dev, MaxEv=3)
        cfg = tlc.write_cfg(wd / f"dev_{dev}.cfg", spec="Spec", constants=c2, invariants=["InvSameOrder"])
        res = tlc.run(SPEC / "EngineDet.tla", cfg, label="C03_mc", timeout=900)
        chk.add_tlc(f"EngineDet Dev={{{dev}}}", res, count=False, note="sensitivity run, must violate")
        chk.require(res.violated == "InvSameOrder", f"deviation {dev} not caught (got {res.violated})")
        chk.sensitivity[dev] = res.violated


def run(tier, seed, replay=None):
    chk = Check("C03", tier, seed)
    rng = random.Random(seed)
    if replay:
        data = json.loads(open(replay).read())["replay"]
        scenarios = [data["scenario"]]
        variants = ["base", data["variant"]]
    else:
        model_check(chk, tier)
        scenarios = corpus(tier, rng)
        variants = ["base", "hash1", "prior", "wall"] if tier == "quick" else list(VARIANTS)
    wd = tlc.workdir("C03_children")
    jobs = [(s, v) for s in scenarios for v in variants]
    workers = int(os.environ.get("VERIF_CHILD_WORKERS", "12"))
    with ThreadPoolExecutor(workers) as ex:
        outs = list(ex.map(lambda j: run_child(j[0], j[1], str(wd)), jobs))
    by = {j: o for j, o in zip(jobs, outs)}
    pairs, meta = [], {}
    usable = 0
    for s in scenarios:
        ref = by[(s, "base")]
        if ref is None or not (ref["sims"] or ref["info"].get("result")):
            chk.note_drift(f"scenario {s}: no reference run (child failed or no simulation)") if ref is None else None
            continue
        usable += 1
        for v in variants[1:]:
            got = by[(s, v)]
            if got is None:
                chk.note_drift(f"scenario {s} variant {v}: child produced no output")
                continue
            pid = len(pairs) + 1
            pairs.append(encode_pair(pid, ref, got))
            meta[pid] = (s, v, ref, got)
            chk.impl_steps += sum(x["n"] for x in got["sims"])
    chk.require(usable > 0, "no scenario produced a reference run")
    verdicts, results = tlc.validate_traces(SPEC / "Replay.tla", pairs, label="C03_replay", chunk=400)
    for r in results:
        chk.add_tlc("Replay batch", r)
    chk.impl_traces = len(pairs) + usable
    for pid, (v, pos) in sorted(verdicts.items()):
        if v == "ACCEPT":
            continue
        s, var, ref, got = meta[pid]
        cls = "hash_seed" if var.startswith("hash") else "earlier_activity" if var == "prior" else \
            "wall_clock" if var == "wall" else var
        d = describe_diff(ref, got, pos)
        rg = (ref.get("info") or {}).get("ranges") or {}
        sub = next((n for n, (a, b) in rg.items() if a <= d.get("sim", -1) < b), None)
        if sub:                      # a grouped run: name the scenario of the group that differs
            s = f"lib:{sub}"
        chk.violation(f"{cls}:{s}", f"{v}: scenario {s} differs between the reference process and variant {var}: {d}",
                      {"scenario": s, "variant": var, "diff": d})
    chk.extra["scenarios"] = scenarios
    chk.extra["variants"] = variants
    chk.extra["simulations_compared"] = sum(len(p["ref"]["sims"]) for p in pairs)
    for p in pairs[:1]:
        s, var, ref, got = meta[p["id"]]
        chk.sample({"scenario": s, "variant": var, "simulations": len(ref["sims"]),
                    "first_records": ref["sims"][0]["log"][:5] if ref["sims"] else []})
    chk.explanation = ("EngineDet.tla (2-copy self-composition of the engine's tie-break) model-checked; every "
                       "scenario (generated engine programs incl. events created before Simulation(), library "
                       "scenarios, repository test files run as models) executed in fresh interpreters differing in "
                       "PYTHONHASHSEED, earlier activity and wall clock; each variant validated step for step by "
                       "Replay.tla against the reference process's recorded behaviour")
    chk.assumptions = [
        "global random / numpy seeds are part of 'the same seeds' and are set identically in every child",
        "a repository test file is a model; statistics = public `stats` of every entity of each Simulation",
        "delivery logs are compared in full through a sha256 digest, the first 400 records field by field",
    ]
    return chk.finish()
