"""C14 helper: run transaction plans against the real TransactionManager over a real KVStore inside a real
Simulation; log every call at its atomic point (vocabulary of specs/storage/Txn.tla / TxnTrace.tla)."""
from __future__ import annotations

from happysimulator.components.datastore.kv_store import KVStore
from happysimulator.components.storage.transaction_manager import IsolationLevel, TransactionManager
from happysimulator.core.entity import Entity
from happysimulator.core.event import Event
from happysimulator.core.simulation import Simulation
from happysimulator.core.temporal import Instant

from .c14_lib import exact_latency

LEVELS = {"ser": IsolationLevel.SERIALIZABLE, "si": IsolationLevel.SNAPSHOT_ISOLATION,
          "rc": IsolationLevel.READ_COMMITTED}
TICK = 1000            # ns; one think-time unit
SLOT = 1_000_000       # ns; spacing of the atomic points when a TLC behaviour is replayed


def kname(k):
    return f"key{k}"


class TxWorld:
    """plans[t-1] = list of steps {k: b|r|w|c|a, key, val, th (ticks to wait first) | at (absolute slot)}"""

    def __init__(self, level, plans, nk, read_ticks=3, write_ticks=5):
        self.level, self.plans, self.nk = level, plans, nk
        self.kv = KVStore("kv", read_latency=exact_latency(read_ticks * TICK),
                          write_latency=exact_latency(write_ticks * TICK))
        self.tm = TransactionManager("tm", self.kv, isolation=LEVELS[level])
        self.ev = []
        self.anomalies = []
        self.clients = [_TxClient(t + 1, self) for t in range(len(plans))]

    def run(self):
        sim = Simulation(entities=[self.kv, self.tm, *self.clients])
        for c in self.clients:
            sim.schedule(Event(time=Instant(0), event_type="go", target=c))
        try:
            sim.run()
        except Exception as ex:                        # noqa: BLE001
            return f"{type(ex).__name__}: {ex}"
        return None

    def final(self):
        out = []
        for k in range(1, self.nk + 1):
            v = self.kv._data.get(kname(k))
            if v is not None:
                out.append([k, v if isinstance(v, int) and not isinstance(v, bool) else -2])
        return out


def _enc(v):
    if v is None:
        return 0
    return v if isinstance(v, int) and not isinstance(v, bool) else -2


class _TxClient(Entity):
    def __init__(self, t, w):
        super().__init__(f"txclient{t}")
        self.t, self.w = t, w

    def handle_event(self, event):
        w, t = self.w, self.t
        tx = None
        for st in w.plans[t - 1]:
            if "at" in st:
                d = st["at"] * SLOT - self.now.nanoseconds
            else:
                d = st["th"] * TICK
            yield (exact_latency(d, mults=(1,)) if d > 0 else 0.0)
            k = st["k"]
            if k == "b":
                w.ev.append(["b", t, 0, 0])            # snapshot version is taken in begin's first segment
                tx = yield from w.tm.begin()
            elif tx is None:
                continue
            elif k == "r":
                v = yield from tx.read(kname(st["key"]))
                w.ev.append(["r", t, st["key"], _enc(v)])   # store lookup = last segment of the read
            elif k == "w":
                w.ev.append(["w", t, st["key"], st["val"]])
                yield from tx.write(kname(st["key"]), st["val"])
            elif k == "c":
                rec = ["c", t, 0, 0]
                w.ev.append(rec)                       # validation + apply happen in commit's first segment
                ok = yield from tx.commit()
                rec[3] = 1 if ok is True else 0
                if ok not in (True, False):
                    w.anomalies.append(f"commit returned {ok!r}")
            elif k == "a":
                w.ev.append(["a", t, 0, 0])
                tx.abort()


def run_plan(level, plans, nk, read_ticks=3, write_ticks=5):
    w = TxWorld(level, plans, nk, read_ticks, write_ticks)
    err = w.run()
    return w, err


def plans_from_events(evs, ntx):
    """A TLC behaviour (events in atomic order) -> per-transaction plans with absolute slots."""
    plans = [[] for _ in range(ntx)]
    for i, e in enumerate(evs, start=1):
        kind, t, key, val = e
        plans[t - 1].append(dict(k=kind, key=key, val=val, at=i))
    return plans


def to_trace(tid, level, nk, ntx, w, dev):
    return {"id": tid, "level": level, "nk": nk, "ntx": ntx, "dev": list(dev), "ev": w.ev, "final": w.final()}
