"""Standalone reproduction of the five C14 defects on the unchanged repository (run: /venv/bin/python harness/families/c14_repro.py).
Not imported by the check."""
import sys; sys.path.insert(0, "/repo")
from happysimulator.core.entity import Entity
from happysimulator.core.event import Event
from happysimulator.core.simulation import Simulation
from happysimulator.core.temporal import Instant
from happysimulator.components.storage.lsm_tree import LSMTree, SizeTieredCompaction, LeveledCompaction
from happysimulator.components.storage.btree import BTree
from happysimulator.components.datastore.kv_store import KVStore
from happysimulator.components.storage.transaction_manager import TransactionManager, IsolationLevel

class Client(Entity):
    """script = [(think_seconds, op, *args), ...]; logs (client, op, args, t_begin_ns, t_end_ns, result)"""
    def __init__(self, name, store, script, log):
        super().__init__(name); self.store, self.script, self.log = store, script, log
    def handle_event(self, event):
        for think, op, *args in self.script:
            yield think
            t0 = self.now.nanoseconds
            r = yield from getattr(self.store, op)(*args)
            self.log.append((self.name, op, args, t0, self.now.nanoseconds, r))

def run(store, scripts):
    log = []
    cs = [Client(f"c{i+1}", store, s, log) for i, s in enumerate(scripts)]
    sim = Simulation(entities=[store, *cs])
    for c in cs:
        sim.schedule(Event(time=Instant(0), event_type="go", target=c))
    sim.run()
    return log

def flush_clears_before_install():
    lsm = LSMTree("db", memtable_size=2, compaction_strategy=SizeTieredCompaction(min_sstables=4), sstable_write_latency=0.002)
    log = run(lsm, [[(0, "put", "a", 1), (0, "put", "b", 2)], [(0.001, "get", "a")]])
    for l in log: print("  ", l)
    g = [l for l in log if l[1] == "get"][0]
    assert g[5] is None        # put(a,1) returned at 10us, get(a) began at 1ms -> None

def compaction_concurrent_install():
    lsm = LSMTree("db", memtable_size=1, compaction_strategy=LeveledCompaction(level_0_max=2), sstable_write_latency=0.002, max_levels=3)
    s1 = [(0, "put", "a", 1), (0, "put", "b", 10), (0, "put", "b", 11), (0, "put", "b", 12), (0, "get", "a")]
    s2 = [(0.0025, "put", "a", 2), (0.02, "get", "a")]
    log = run(lsm, [s1, s2])
    for l in log: print("  ", l)
    assert [l[5] for l in log if l[1] == "get"] == [1, 1]      # put(a,2) returned at 6.51ms; gets at 12ms / 26.5ms return 1

def compaction_concurrent_install_tombstone():
    u = 0.00001
    lsm = LSMTree("db", memtable_size=1, compaction_strategy=SizeTieredCompaction(min_sstables=2),
                  sstable_write_latency=3 * u, sstable_read_latency=u, max_levels=2)
    log = run(lsm, [[(0, "put", "b", 101), (0, "put", "a", 102), (0, "put", "a", 103), (0, "get", "b")],
                    [(6 * u, "delete", "b")]])
    for l in log: print("  ", l)
    assert [l for l in log if l[1] == "get"][0][5] == 101     # delete(b) returned at 130us, get(b) began at 180us

def reader_iter_skips_on_shrink():
    W = 0.00008
    lsm = LSMTree("db", memtable_size=2, compaction_strategy=SizeTieredCompaction(min_sstables=2), sstable_write_latency=W, sstable_read_latency=0.00001, max_levels=2)
    u = 0.00001
    log = run(lsm, [[(0, "put", "a", 101), (0, "put", "b", 102), (0, "put", "a", 103), (0, "put", "b", 104)],
                    [(13 * u, "put", "c", 201), (0, "put", "a", 202)],
                    [(16 * u, "put", "a", 301), (0, "put", "b", 302)],
                    [(27 * u, "scan", "a", "z")]])
    for l in log: print("  ", l)
    s = [l for l in log if l[1] == "scan"][0]
    assert s[5] == [("a", 301), ("b", 302)]    # put(c,201) returned at 140us, scan began at 270us: c is missing

def btree_reader_holds_stale_node():
    bt = BTree("bt", order=3, page_read_latency=0.001, page_write_latency=0.002)
    log = run(bt, [[(0, "put", "a", 1), (0, "put", "b", 2), (0, "put", "c", 3)], [(0.0065, "get", "b")]])
    for l in log: print("  ", l)
    assert [l for l in log if l[1] == "get"][0][5] is None     # put(b,2) returned at 6ms, get(b) began at 6.5ms

def si_reads_latest_not_snapshot():
    kv = KVStore("kv", read_latency=0.001, write_latency=0.001)
    tm = TransactionManager("tm", kv, isolation=IsolationLevel.SNAPSHOT_ISOLATION)
    out = []
    class T1(Entity):
        def handle_event(self, e):
            tx = yield from tm.begin()
            x = yield from tx.read("x")
            yield 0.01
            y = yield from tx.read("y")
            ok = yield from tx.commit()
            out.append(("T1", x, y, ok))
    class T2(Entity):
        def handle_event(self, e):
            yield 0.005
            tx = yield from tm.begin()
            yield from tx.write("x", 1)
            yield from tx.write("y", 1)
            ok = yield from tx.commit()
            out.append(("T2", ok))
    a, b = T1("t1"), T2("t2")
    sim = Simulation(entities=[kv, tm, a, b])
    for c in (a, b):
        sim.schedule(Event(time=Instant(0), event_type="go", target=c))
    sim.run()
    print("  ", out)
    assert ("T1", None, 1, True) in out       # T1 read x before and y after T2's commit, and committed

for f in (flush_clears_before_install, compaction_concurrent_install, compaction_concurrent_install_tombstone,
          reader_iter_skips_on_shrink,
          btree_reader_holds_stale_node, si_reads_latest_not_snapshot):
    print(f.__name__); f()
print("all five reproduced")   # (compaction_concurrent_install in two variants)
