"""C12, LeaderElection (+ strategies) and DistributedLock: real objects driven directly or inside a real
Simulation, recorded in the vocabulary of specs/paxos/ElectionTrace.tla and LockTrace.tla."""
from __future__ import annotations

import random

from happysimulator.components.consensus.distributed_lock import DistributedLock, LockGrant
from happysimulator.components.consensus.election_strategies import BullyStrategy, RandomizedStrategy, RingStrategy
from happysimulator.components.consensus.leader_election import LeaderElection
from happysimulator.components.network.link import NetworkLink
from happysimulator.components.network.network import Network
from happysimulator.core.clock import Clock
from happysimulator.core.event import Event
from happysimulator.core.sim_future import SimFuture
from happysimulator.core.simulation import Simulation
from happysimulator.core.temporal import Instant
from happysimulator.distributions.constant import ConstantLatency

from .c12_paxos import ODD, ScriptedLatency, as_list, enc_int

# ---------------------------------------------------------------------------
# leader election

ETYPES = {"ElectionChallenge": "challenge", "ElectionSuppress": "suppress", "ElectionVictory": "victory",
          "ElectionToken": "token", "ElectionBallot": "ballot", "ElectionBallotResponse": "ballotresp",
          "LeaderHeartbeat": "heartbeat", "ElectionTimeoutCheck": "check"}
STRATEGIES = {"bully": BullyStrategy, "ring": RingStrategy, "random": RandomizedStrategy}


def eidx(name):
    try:
        return int(name[1:]) if isinstance(name, str) and name[:1] == "e" else 0
    except ValueError:
        return 0


def enc_emsg(ev):
    md = ev.context.get("metadata", {})
    t = ETYPES.get(ev.event_type, ev.event_type)
    who = {"challenge": md.get("challenger"), "suppress": md.get("from"), "victory": md.get("leader"),
           "token": md.get("initiator"), "ballot": md.get("from"), "ballotresp": md.get("from"),
           "heartbeat": md.get("leader")}.get(t)
    return [t, eidx(md.get("source")), eidx(md.get("destination")), eidx(who), enc_int(md.get("term")),
            [eidx(c) for c in md.get("candidates", [])] if t == "token" else []]


NOEMSG = ["", 0, 0, 0, 0, []]


class ElectRecorder:
    def __init__(self, nodes, strategy):
        self.nodes = nodes
        self.strategy = strategy
        self.steps = []
        self.error = None

    def project(self, nd):
        return [eidx(nd.current_leader) if nd.current_leader else 0, enc_int(nd.current_term),
                bool(nd._election_in_progress)]

    def handle(self, nd, event):
        """run the real handler and record the step"""
        is_check = event.event_type == "ElectionTimeoutCheck"
        stale = False
        if is_check:
            stale = nd.now.to_seconds() - nd._last_leader_heartbeat > nd._election_timeout
        out = type(nd).handle_event(nd, event)
        lst = [e for e in as_list(out) if e.event_type != "ElectionTimeoutCheck"]
        self.steps.append({"a": "check" if is_check else "deliver", "node": eidx(nd.name), "stale": bool(stale),
                           "m": NOEMSG if is_check else enc_emsg(event), "post": self.project(nd),
                           "out": [enc_emsg(e) for e in lst]})
        return out

    def trace(self, tid):
        return {"id": tid, "n": len(self.nodes), "strategy": self.strategy, "dev": [], "steps": self.steps}


def build_election(n, strategy, latency_factory):
    net = Network(name="net")
    nodes = [LeaderElection(name=f"e{i + 1}", network=net, strategy=STRATEGIES[strategy](), election_timeout=2.0,
                            heartbeat_interval=0.5) for i in range(n)]
    for nd in nodes:
        for other in nodes:
            nd.add_member(other)
    for i, a in enumerate(nodes):
        for b in nodes[i + 1:]:
            net.add_link(a, b, NetworkLink(name=f"l_{a.name}_{b.name}", latency=latency_factory(), bandwidth_bps=None))
            net.add_link(b, a, NetworkLink(name=f"l_{b.name}_{a.name}", latency=latency_factory(), bandwidth_bps=None))
    return net, nodes


def election_direct(rng, n=None, strategy=None, max_steps=120):
    n = n or rng.choice((3, 3, 4, 5))
    strategy = strategy or rng.choice(("bully", "ring", "random"))
    clock = Clock(Instant.Epoch)
    net, nodes = build_election(n, strategy, lambda: ConstantLatency(0.0))
    net.set_clock(clock)
    for nd in nodes:
        nd.set_clock(clock)
    rec = ElectRecorder(nodes, strategy)
    random.seed(rng.random())
    pool = []
    for nd in nodes:
        pool.extend(nd.start())
    now = 0.0
    p_check = rng.choice((0.1, 0.3, 0.6))
    p_drop = rng.choice((0.0, 0.0, 0.1))
    for _ in range(max_steps):
        timers = [i for i, e in enumerate(pool) if e.target is not net]
        msgs = [i for i, e in enumerate(pool) if e.target is net]
        if not pool:
            break
        if timers and (not msgs or rng.random() < p_check):
            k = rng.choice(timers)
            if rng.random() < 0.6:
                now += rng.choice((0.4, 1.1, 2.5))
                clock.update(Instant.from_seconds(now))
            ev = pool.pop(k)
            out = as_list(rec.handle(ev.target, ev))
        else:
            k = rng.choice(msgs)
            ev = pool.pop(k)
            if p_drop and rng.random() < p_drop:
                continue
            gen = net.handle_event(ev)
            fwd = None
            try:
                next(gen)
                gen.send(None)
            except StopIteration as stop:
                fwd = stop.value
            if fwd is None:
                continue
            out = as_list(rec.handle(fwd.target, fwd))
        pool.extend(out)
    return rec, {"n": n, "strategy": strategy}


def election_sim(rng, n=None, strategy=None):
    n = n or rng.choice((3, 4, 5))
    strategy = strategy or rng.choice(("bully", "ring", "random"))
    profile = rng.choice(("bounded", "straggler", "ties", "wide"))
    lat_rng = random.Random(rng.random())
    net, nodes = build_election(n, strategy, lambda: ScriptedLatency(lat_rng, profile))
    rec = ElectRecorder(nodes, strategy)
    random.seed(rng.random())
    for nd in nodes:
        nd.handle_event = (lambda event, nd=nd: rec.handle(nd, event))
    sim = Simulation(duration=9.0, entities=[net, *nodes])
    for nd in nodes:
        t = rng.choice((0.0, 0.0, round(rng.random() * 1.5, 3)))
        sim.schedule(Event.once(time=Instant.from_seconds(t), event_type="StartElectionNode",
                                fn=lambda e, nd=nd: nd.start()))
    if rng.random() < 0.3:
        iso = nodes[rng.randrange(n)]
        t0 = round(1.0 + rng.random() * 3, 3)
        holder = {}
        sim.schedule(Event.once(time=Instant.from_seconds(t0), event_type="Cut", fn=lambda e: holder.update(
            p=net.partition([iso], [x for x in nodes if x is not iso]))))
        sim.schedule(Event.once(time=Instant.from_seconds(t0 + 2.5), event_type="Heal", fn=lambda e: holder["p"].heal()))
    try:
        sim.run()
    except Exception as ex:
        rec.error = f"Simulation raised {type(ex).__name__}: {ex}"
    for nd in nodes:
        del nd.handle_event
    return rec, {"n": n, "strategy": strategy, "profile": profile, "sim": True}


# ---------------------------------------------------------------------------
# distributed lock

def lidx(name):
    try:
        return int(name[1:])
    except Exception:
        return 0


class LockRecorder:
    def __init__(self, lock, maxw):
        self.lock = lock
        self.maxw = maxw
        self.steps = []
        self.grants = []        # distinct LockGrant values in order of first observation
        self.futs = []          # unresolved futures being watched
        self.error = None

    def see(self, g):
        if isinstance(g, LockGrant) and g not in self.grants:
            self.grants.append(g)

    def sweep(self):
        for f in list(self.futs):
            if f.is_resolved:
                self.futs.remove(f)
                self.see(f.value)

    def project(self):
        lk = self.lock
        try:
            return [enc_int(lk._next_token),
                    [[lidx(name), lidx(s.holder) if s.holder else 0, enc_int(s.fencing_token),
                      [lidx(w) for w, _ in s.waiters]] for name, s in sorted(lk._locks.items())]]
        except Exception as ex:
            self.error = self.error or f"projection failed: {ex}"
            return [ODD, []]

    def rec(self, a, l, r, ret):
        self.sweep()
        self.steps.append({"a": a, "l": l, "r": r, "ret": ret, "post": self.project(),
                           "grants": [[lidx(g.lock_name), enc_int(g.fencing_token)] for g in self.grants]})

    # operations -------------------------------------------------------------
    def acquire(self, l, c, via_event=False, now=None):
        if via_event:
            reply = SimFuture()
            ev = Event(time=now, event_type="LockAcquireRequest", target=self.lock,
                       context={"metadata": {"lock_name": f"L{l}", "requester": f"c{c}"}, "reply_future": reply})
            self.lock.handle_event(ev)
            f = reply
        else:
            f = self.lock.acquire(f"L{l}", f"c{c}")
        self.futs.append(f)
        self.rec("acquire", l, c, 0)

    def try_acquire(self, l, c):
        g = self.lock.try_acquire(f"L{l}", f"c{c}")
        self.see(g)
        self.rec("try", l, c, enc_int(g.fencing_token) if isinstance(g, LockGrant) else 0)

    def release(self, l, tok, via_event=False, now=None):
        if via_event:
            before = self.lock.stats.total_releases
            ev = Event(time=now, event_type="LockReleaseRequest", target=self.lock,
                       context={"metadata": {"lock_name": f"L{l}", "fencing_token": tok}})
            self.lock.handle_event(ev)
            ok = self.lock.stats.total_releases > before
        else:
            ok = self.lock.release(f"L{l}", tok)
        self.rec("release", l, tok, 1 if ok else 0)

    def expire(self, ev):
        md = ev.context["metadata"]
        self.lock.handle_event(ev)
        self.rec("expire", lidx(md["lock_name"]), enc_int(md["fencing_token"]), 0)

    def trace(self, tid):
        return {"id": tid, "dev": [], "maxw": self.maxw, "steps": self.steps}


def lock_direct(rng, max_ops=60):
    maxw = rng.choice((0, 0, 1, 2))
    lock = DistributedLock(name="locks", lease_duration=rng.choice((1.0, 5.0)), max_waiters=maxw)
    clock = Clock(Instant.Epoch)
    lock.set_clock(clock)
    rec = LockRecorder(lock, maxw)
    nl, nc = rng.choice((1, 2, 3)), rng.choice((2, 3, 4))
    expiries = []
    last = None
    now = 0.0
    for _ in range(rng.randint(5, max_ops)):
        now += 1.0
        clock.update(Instant.from_seconds(now))
        r = rng.random()
        l, c = rng.randint(1, nl), rng.randint(1, nc)
        live = [e for e in expiries if not e.cancelled]
        if r < 0.35:
            rec.acquire(l, c, via_event=rng.random() < 0.25, now=clock.now)
        elif r < 0.5:
            rec.try_acquire(l, c)
        elif r < 0.8:
            held = lock.get_fencing_token(f"L{l}")
            tok = held if held is not None and rng.random() < 0.8 else rng.randint(1, max(1, lock._next_token))
            rec.release(l, tok, via_event=rng.random() < 0.25, now=clock.now)
        elif live:
            ev = rng.choice(live)
            expiries.remove(ev)
            rec.expire(ev)
        pe = getattr(lock, "_pending_expiry", None)
        if pe is not None and pe is not last:
            expiries.append(pe)
            last = pe
    return rec, {"locks": nl, "clients": nc, "max_waiters": maxw}


def lock_sim(rng):
    maxw = rng.choice((0, 0, 2))
    lease = rng.choice((0.7, 1.5, 3.0))
    lock = DistributedLock(name="locks", lease_duration=lease, max_waiters=maxw)
    rec = LockRecorder(lock, maxw)
    nl, nc = rng.choice((1, 2)), rng.choice((2, 3, 4))
    sim = Simulation(duration=12.0, entities=[lock])
    orig = type(lock).handle_event
    seen = {"last": None}

    def handle(event):
        if event.event_type == "LockLeaseExpiry":
            md = event.context["metadata"]
            out = orig(lock, event)
            rec.rec("expire", lidx(md["lock_name"]), enc_int(md["fencing_token"]), 0)
            return expiry_out(out)
        return orig(lock, event)
    lock.handle_event = handle

    def expiry_out(out=None):
        pe = getattr(lock, "_pending_expiry", None)
        evs = as_list(out)
        if pe is not None and pe is not seen["last"]:
            seen["last"] = pe
            evs.append(pe)
        return evs or None

    for _ in range(rng.randint(6, 40)):
        t = round(rng.random() * 10.0, 2 if rng.random() < 0.5 else 1)     # many same-instant operations
        r = rng.random()
        l, c = rng.randint(1, nl), rng.randint(1, nc)
        if r < 0.45:
            fn = (lambda e, l=l, c=c: (rec.acquire(l, c), expiry_out())[1])
        elif r < 0.6:
            fn = (lambda e, l=l, c=c: (rec.try_acquire(l, c), expiry_out())[1])
        else:
            def fn(e, l=l):
                held = lock.get_fencing_token(f"L{l}")
                rec.release(l, held if held is not None else 1)
                return expiry_out()
        sim.schedule(Event.once(time=Instant.from_seconds(t), event_type="LockOp", fn=fn))
    try:
        sim.run()
    except Exception as ex:
        rec.error = f"Simulation raised {type(ex).__name__}: {ex}"
    del lock.handle_event
    return rec, {"locks": nl, "clients": nc, "lease": lease, "max_waiters": maxw, "sim": True}
