"""C12, Multi-Paxos / Flexible Paxos: real MultiPaxosNode / FlexiblePaxosNode objects driven directly
(harness-owned pool of in-flight events and timers) or inside a real Simulation, recorded in the
vocabulary of specs/paxos/MultiTrace.tla."""
from __future__ import annotations

import random

from happysimulator.components.consensus.flexible_paxos import FlexiblePaxosNode
from happysimulator.components.consensus.multi_paxos import MultiPaxosNode
from happysimulator.components.network.link import NetworkLink
from happysimulator.components.network.network import Network
from happysimulator.core.clock import Clock
from happysimulator.core.event import Event
from happysimulator.core.simulation import Simulation
from happysimulator.core.temporal import Instant
from happysimulator.distributions.constant import ConstantLatency

from .c12_paxos import ODD, ScriptedLatency, as_list, enc_int, idx_of, name_of

SUFFIX = {"Prepare": "prepare", "Promise": "promise", "Nack": "nack", "Accept": "accept", "Accepted": "accepted",
          "Heartbeat": "hb", "Forward": "forward"}
MF = ("t", "src", "dst", "bn", "bi", "slot", "cmd", "ci", "self", "log")
NOMSG = {"t": "", "src": 0, "dst": 0, "bn": 0, "bi": 0, "slot": 0, "cmd": 0, "ci": 0, "self": 0, "log": []}


def marr(m):
    return [m[f] for f in MF]


def enc_cmd(c):
    if c is None:
        return 0
    if isinstance(c, bool) or not isinstance(c, int) or not 0 < c < 900000:
        return ODD
    return c


def msg_type(event_type):
    for pre in ("MultiPaxos", "FlexPaxos"):
        if event_type.startswith(pre):
            return SUFFIX.get(event_type[len(pre):], event_type)
    return event_type


def enc_entries(entries):
    out = []
    for e in entries or []:
        if isinstance(e, dict):
            out.append([enc_int(e.get("term")), enc_cmd(e.get("command")), 0])
        else:
            out.append([enc_int(e.term), enc_cmd(e.command), 0])
    return out


def enc_msg(ev):
    md = ev.context.get("metadata", {})
    t = msg_type(ev.event_type)
    m = dict(NOMSG)
    m["t"] = t
    m["log"] = []
    if t == "hb" and md.get("self_heartbeat"):
        n = idx_of(ev.target.name)
        m.update(src=n, dst=n, self=1)
    else:
        m.update(src=idx_of(md.get("source")), dst=idx_of(md.get("destination")))
    m["bn"] = enc_int(md.get("ballot_number"))
    m["bi"] = idx_of(md.get("ballot_node"))
    if t == "promise":
        m["ci"] = enc_int(md.get("commit_index"))
        m["log"] = enc_entries(md.get("log_entries"))
    elif t == "accept":
        m.update(slot=enc_int(md.get("slot")), cmd=enc_cmd(md.get("command")), ci=enc_int(md.get("commit_index")))
    elif t == "accepted":
        m.update(slot=enc_int(md.get("slot")), bi=0)
    elif t == "hb":
        m["ci"] = enc_int(md.get("commit_index"))
    elif t == "forward":
        m.update(cmd=enc_cmd(md.get("command")), dst=idx_of(ev.target.name))
    return m


class RecordingSM:
    """StateMachine protocol implementation that records what is applied, in order."""

    def __init__(self):
        self.applied = []

    def apply(self, command):
        self.applied.append(command)
        return command

    def snapshot(self):
        return list(self.applied)

    def restore(self, snapshot):
        self.applied = list(snapshot)


class Recorder:
    def __init__(self, nodes, sms):
        self.nodes = nodes
        self.sms = sms
        self.futs = []       # (future, cmd)
        self.steps = []
        self.error = None

    def fid(self, f):
        for i, (g, _) in enumerate(self.futs):
            if g is f:
                return i + 1
        return 0

    def fut_vals(self):
        out = []
        for f, c in self.futs:
            if not f.is_resolved:
                out.append([c, -1])
            else:
                v = f.value
                out.append([c, enc_int(v[0]) if isinstance(v, tuple) and v else ODD])
        return out

    def project(self, nd):
        try:
            b = nd._current_ballot
            i = self.nodes.index(nd)
            return [[enc_int(b.number), idx_of(b.node_id)], idx_of(nd.leader) if nd.leader else 0, bool(nd.is_leader),
                    enc_entries(nd.log.entries_after(0)), enc_int(nd.log.commit_index), enc_int(nd._last_applied),
                    [enc_cmd(c) for c in self.sms[i].applied],
                    [[enc_int(s), self.fid(f)] for s, f in sorted(nd._slot_futures.items())],
                    [[enc_int(s), enc_int(c)] for s, c in sorted(nd._slot_acks.items())],
                    [[enc_cmd(c), self.fid(f)] for c, f in nd._pending_commands],
                    [[enc_int(bn), len(lst)] for bn, lst in sorted(nd._phase1_responses.items())]]
        except Exception as ex:
            self.error = self.error or f"projection failed: {type(ex).__name__}: {ex}"
            return [[ODD, 0], 0, False, [], 0, 0, [], [], [], [], []]

    def rec(self, a, n, nd, m=None, c=0, out=()):
        self.steps.append({"a": a, "node": n, "c": c, "m": marr(m or NOMSG), "post": self.project(nd),
                           "out": [marr(enc_msg(e)) for e in out], "futs": self.fut_vals()})

    # client operations (return the events to put on the wire)
    def start(self, nd):
        evs = as_list(nd.start())
        self.rec("start", idx_of(nd.name), nd, out=evs)
        return evs

    def submit(self, nd, cmd):
        """f = node.submit(cmd); on a node that reports is_leader the new slot is replicated the way the
        repository's example does: node._replicate_slot(node.log.last_index)."""
        f = nd.submit(cmd)
        self.futs.append((f, cmd))
        evs = as_list(nd._replicate_slot(nd.log.last_index)) if nd.is_leader else []
        self.rec("submit", idx_of(nd.name), nd, c=cmd, out=evs)
        return evs

    def forward(self, nd, cmd, now):
        ev = Event(time=now, event_type="MultiPaxosForward", target=nd, context={"metadata": {"command": cmd}})
        m = enc_msg(ev)
        evs = as_list(nd.handle_event(ev))
        self.rec("forward", idx_of(nd.name), nd, m=m, c=cmd, out=evs)
        return evs

    def trace(self, tid, cfg, mode="safety", pcmds=()):
        return {"id": tid, "n": len(self.nodes), "flex": bool(cfg["flex"]), "q1": cfg["q1"], "q2": cfg["q2"],
                "dev": [], "mode": mode, "pcmds": list(pcmds), "steps": self.steps}


def quorums(n):
    """all intersecting (q1, q2) for Flexible Paxos on n nodes"""
    return [(a, b) for a in range(1, n + 1) for b in range(1, n + 1) if a + b > n]


def build(cfg, latency_factory, hb=1.0):
    n = cfg["n"]
    net = Network(name="net")
    sms = [RecordingSM() for _ in range(n)]
    if cfg["flex"]:
        nodes = [FlexiblePaxosNode(name=name_of(i + 1), network=net, state_machine=sms[i],
                                   phase1_quorum=cfg["q1"], phase2_quorum=cfg["q2"], heartbeat_interval=hb)
                 for i in range(n)]
        for nd in nodes:
            nd.set_peers(nodes)         # validates Q1 + Q2 > N
    else:
        nodes = [MultiPaxosNode(name=name_of(i + 1), network=net, state_machine=sms[i], heartbeat_interval=hb)
                 for i in range(n)]
        for nd in nodes:
            nd.set_peers(nodes)
    for i, a in enumerate(nodes):
        for b in nodes[i + 1:]:
            net.add_link(a, b, NetworkLink(name=f"l_{a.name}_{b.name}", latency=latency_factory(), bandwidth_bps=None))
            net.add_link(b, a, NetworkLink(name=f"l_{b.name}_{a.name}", latency=latency_factory(), bandwidth_bps=None))
    return net, nodes, sms


class DirectCluster:
    def __init__(self, cfg):
        self.cfg = cfg
        self.clock = Clock(Instant.Epoch)
        self.net, self.nodes, self.sms = build(cfg, lambda: ConstantLatency(0.0))
        self.net.set_clock(self.clock)
        for nd in self.nodes:
            nd.set_clock(self.clock)
        self.rec = Recorder(self.nodes, self.sms)
        self.pool = []

    def node(self, i):
        return self.nodes[i - 1]

    def _absorb(self, evs):
        for e in evs:
            self.pool.append((e, enc_msg(e)))
        self.pool = [(e, m) for e, m in self.pool if not e.cancelled]

    def start(self, i):
        self._absorb(self.rec.start(self.node(i)))

    def submit(self, i, cmd):
        self._absorb(self.rec.submit(self.node(i), cmd))

    def forward(self, i, cmd):
        self._absorb(self.rec.forward(self.node(i), cmd, self.clock.now))

    def find(self, m):
        for k, (_, em) in enumerate(self.pool):
            if em == m:
                return k
        return None

    def deliver(self, k):
        ev, em = self.pool.pop(k)
        if ev.target is self.net:
            gen = self.net.handle_event(ev)
            fwd = None
            try:
                next(gen)
                gen.send(None)
            except StopIteration as stop:
                fwd = stop.value
            if fwd is None:
                self.rec.rec("drop", em["dst"], self.node(em["dst"]), m=em)
                return
            target = fwd.target
        else:
            fwd, target = ev, ev.target
        try:
            out = as_list(target.handle_event(fwd))
        except Exception as ex:
            self.rec.error = self.rec.error or f"handler raised {type(ex).__name__}: {ex} on {em}"
            return
        self.rec.rec("deliver", idx_of(target.name), target, m=em, out=out)
        self._absorb(out)

    def drop(self, k):
        ev, em = self.pool.pop(k)
        self.rec.rec("drop", em["dst"], self.node(em["dst"]), m=em)


# ---------------------------------------------------------------------------
# spec -> code

def bag_of(v):
    return dict(v) if isinstance(v, dict) else {}


def msg_from_key(k):
    d = dict(k) if not isinstance(k, dict) else k
    m = {f: d[f] for f in MF}
    m["log"] = [list(e) for e in m["log"]]
    return m


def choices_from_states(states):
    """Multi.tla behaviour (states of the single variable S) -> environment choices."""
    out = []
    for a, b in zip(states, states[1:]):
        a, b = a["S"], b["S"]
        if b["nstart"] > a["nstart"]:
            who = [i + 1 for i, (x, y) in enumerate(zip(a["node"], b["node"])) if x != y]
            out.append(("start", who[0] if who else 0))
            continue
        if len(b["futs"]) > len(a["futs"]):
            who = [i + 1 for i, (x, y) in enumerate(zip(a["node"], b["node"])) if x != y]
            out.append(("submit", who[0] if who else 0))
            continue
        ma, mb = bag_of(a["msgs"]), bag_of(b["msgs"])
        gone = [k for k, c in ma.items() if mb.get(k, 0) < c]
        # a cancelled timer disappears together with the delivered message: prefer the non-timer / the
        # message whose destination changed state
        if len(gone) > 1:
            changed = {i + 1 for i, (x, y) in enumerate(zip(a["node"], b["node"])) if x != y}
            pref = [k for k in gone if dict(k)["dst"] in changed and not (dict(k)["t"] == "hb" and dict(k)["self"] == 1)]
            gone = pref[:1] or gone[:1]
        if len(gone) != 1:
            out.append(("stutter", None))
            continue
        out.append(("deliver", msg_from_key(gone[0])))
    return out


def replay_choices(cfg, choices, prefix=()):
    c = DirectCluster(cfg)
    skipped = 0
    ncmd = 0
    for kind, x in list(prefix) + list(choices):
        if kind == "start" and x:
            c.start(x)
        elif kind == "submit" and x:
            ncmd += 1
            c.submit(x, ncmd)
        elif kind == "deliver":
            k = c.find(x) if isinstance(x, dict) else next(
                (i for i, (_, em) in enumerate(c.pool) if (em["t"], em["src"], em["dst"]) == tuple(x[:3])
                 and (len(x) < 4 or em["slot"] == x[3])), None)
            if k is None:
                skipped += 1
                continue
            c.deliver(k)
    return c, skipped


def elect(c, v):
    return [("start", c), ("deliver", ("prepare", c, v)), ("deliver", ("promise", v, c))]


def commit(l, f):
    return [("submit", l), ("deliver", ("accept", l, f)), ("deliver", ("accepted", f, l))]


PREFIXES = {
    "PrefixNone": [],
    "PrefixLeader1": elect(1, 2),
    "PrefixLeader1Commit": elect(1, 2) + commit(1, 2),
    "PrefixTwoLeaders": elect(1, 2) + elect(2, 3),
    "PrefixImpostor": elect(1, 2) + elect(2, 3) + [("submit", 2), ("deliver", ("accept", 2, 1)),
                                                   ("deliver", ("accept", 2, 3)), ("deliver", ("accepted", 3, 2))],
    "PrefixOrphan": elect(3, 2) + [("submit", 3), ("start", 1), ("deliver", ("prepare", 1, 2)),
                                   ("deliver", ("nack", 2, 1))] + elect(1, 2),
}
PREFIXES["PrefixOrphanAck"] = PREFIXES["PrefixOrphan"] + [("submit", 1), ("submit", 1),
                                                          ("deliver", ("accept", 1, 3, 2)),
                                                          ("deliver", ("accepted", 3, 1, 2))]


# ---------------------------------------------------------------------------
# code -> spec: adversarial random schedules (direct drive)

STRATS = ("uniform", "lifo", "fifo", "starve", "late_accept", "late_promise", "burst")


def random_cfg(rng, flex=None):
    n = rng.choice((3, 3, 3, 4, 5))
    flex = rng.random() < 0.5 if flex is None else flex
    if flex:
        q1, q2 = rng.choice(quorums(n))
    else:
        q1 = q2 = n // 2 + 1
    return {"n": n, "flex": flex, "q1": q1, "q2": q2}


def random_direct(rng, cfg=None, strat=None, max_steps=140):
    cfg = cfg or random_cfg(rng)
    strat = strat or rng.choice(STRATS)
    n = cfg["n"]
    c = DirectCluster(cfg)
    n_start = rng.choice((1, 2, 2, 3))
    n_cmd = rng.choice((1, 2, 3, 3, 4))
    plan = sorted([(rng.randint(0, 30), "start", rng.randint(1, n)) for _ in range(n_start)] +
                  [(rng.randint(2, 45), "submit", 0) for _ in range(n_cmd)], key=lambda x: x[0])
    if plan and plan[0][1] != "start":
        plan.insert(0, (0, "start", rng.randint(1, n)))
    p_drop = rng.choice((0.0, 0.0, 0.05, 0.12))
    p_tick = rng.choice((0.0, 0.05, 0.3))
    starved = rng.randint(1, n)
    ncmd = 0
    step = 0
    while step < max_steps:
        while plan and plan[0][0] <= step:
            _, kind, who = plan.pop(0)
            if kind == "start":
                c.start(who)
            else:
                leaders = [i + 1 for i, nd in enumerate(c.nodes) if nd.is_leader]
                r = rng.random()
                who = rng.choice(leaders) if leaders and r < 0.75 else rng.randint(1, n)
                ncmd += 1
                if not cfg["flex"] and r > 0.93:
                    c.forward(who, ncmd)
                else:
                    c.submit(who, ncmd)
        msgs = [i for i, (_, m) in enumerate(c.pool) if not (m["t"] == "hb" and m["self"] == 1)]
        ticks = [i for i, (_, m) in enumerate(c.pool) if m["t"] == "hb" and m["self"] == 1]
        if not msgs and not plan and (not ticks or rng.random() > p_tick):
            break
        if not msgs and not ticks:
            step = plan[0][0]
            continue
        step += 1
        if ticks and (not msgs or rng.random() < p_tick * 0.3):
            c.deliver(rng.choice(ticks))
            continue
        if not msgs:
            step = plan[0][0] if plan else max_steps
            continue
        idxs = msgs
        if strat == "lifo":
            k = idxs[-1] if rng.random() < 0.7 else rng.choice(idxs)
        elif strat == "fifo":
            k = idxs[0] if rng.random() < 0.8 else rng.choice(idxs)
        elif strat == "starve":
            pref = [i for i in idxs if starved not in (c.pool[i][1]["src"], c.pool[i][1]["dst"])]
            k = rng.choice(pref) if pref and rng.random() < 0.9 else rng.choice(idxs)
        elif strat == "late_accept":
            pref = [i for i in idxs if c.pool[i][1]["t"] not in ("accept", "hb")]
            k = rng.choice(pref) if pref and rng.random() < 0.8 else rng.choice(idxs)
        elif strat == "late_promise":
            pref = [i for i in idxs if c.pool[i][1]["t"] != "promise"]
            k = rng.choice(pref) if pref and rng.random() < 0.85 else rng.choice(idxs)
        elif strat == "burst":
            tgt = c.pool[rng.choice(idxs)][1]["dst"]
            k = [i for i in idxs if c.pool[i][1]["dst"] == tgt][0]
        else:
            k = rng.choice(idxs)
        if p_drop and rng.random() < p_drop:
            c.drop(k)
        else:
            c.deliver(k)
        if c.rec.error:
            break
    return c, {"cfg": cfg, "strat": strat, "p_drop": p_drop}


def progress_direct(rng, cfg, n_cmd=2):
    """Fault-free, bounded delays: one candidate; once it reports is_leader commands are submitted to it;
    every message is delivered (random order) before the next heartbeat tick fires; a few ticks at the end."""
    c = DirectCluster(cfg)
    who = rng.randint(1, cfg["n"])
    c.start(who)

    def drain():
        while True:
            msgs = [i for i, (_, m) in enumerate(c.pool) if not (m["t"] == "hb" and m["self"] == 1)]
            if not msgs or c.rec.error:
                return
            c.deliver(rng.choice(msgs))

    def tick():
        ticks = [i for i, (_, m) in enumerate(c.pool) if m["t"] == "hb" and m["self"] == 1]
        if ticks:
            c.deliver(ticks[0])
    drain()
    cmds = []
    late_acks = rng.random() < 0.4        # acks reordered across slots: every ack of a later slot first
    if late_acks:
        n_cmd = rng.choice((2, 3))
    for k in range(n_cmd):
        leader = c.node(who)
        if not leader.is_leader:
            break
        cmds.append(k + 1)
        c.submit(who, k + 1)
        if not late_acks and rng.random() < 0.5:
            drain()
    if late_acks:
        # Accepts arrive in slot order; the Accepted replies reach the leader latest slot first
        for slot in sorted({m["slot"] for _, m in c.pool if m["t"] == "accept"}):
            for i in [i for i, (_, m) in enumerate(c.pool) if m["t"] == "accept" and m["slot"] == slot][::-1]:
                c.deliver(i)
        for slot in sorted({m["slot"] for _, m in c.pool if m["t"] == "accepted"}, reverse=True):
            for i in [i for i, (_, m) in enumerate(c.pool) if m["t"] == "accepted" and m["slot"] == slot][::-1]:
                c.deliver(i)
    drain()
    for _ in range(3):
        tick()
        drain()
    return c, {"cfg": cfg, "leader": who, "cmds": cmds, "late_acks": late_acks}, cmds


# ---------------------------------------------------------------------------
# real Simulation

def _recording_handler(nd, rec):
    orig = type(nd).handle_event

    def handle(event):
        out = orig(nd, event)
        rec.rec("deliver", idx_of(nd.name), nd, m=enc_msg(event), out=as_list(out))
        return out
    return handle


def sim_run(rng, cfg=None, progress=False):
    cfg = cfg or random_cfg(rng)
    n = cfg["n"]
    profile = "bounded" if progress else rng.choice(("straggler", "wide", "ties", "bounded"))
    lat_rng = random.Random(rng.random())
    net, nodes, sms = build(cfg, lambda: ScriptedLatency(lat_rng, profile), hb=1.0)
    rec = Recorder(nodes, sms)
    for nd in nodes:
        nd.handle_event = _recording_handler(nd, rec)
    sim = Simulation(duration=9.0 if progress else 8.0, entities=[net, *nodes])
    cmds = []
    ncmd = [0]
    if progress:
        who = rng.randint(1, n)
        sim.schedule(Event.once(time=Instant.from_seconds(0.01), event_type="Start",
                                fn=lambda e: rec.start(nodes[who - 1])))
        # commands go to the node only while it reports is_leader (an established leader)
        for t in sorted(rng.choice((0.3, 0.5, 0.8, 1.5, 2.5, 3.5)) + rng.random() * 0.1 for _ in range(rng.choice((1, 2, 3)))):
            def sub(e, who=who):
                nd = nodes[who - 1]
                if not nd.is_leader:
                    return None
                ncmd[0] += 1
                cmds.append(ncmd[0])
                return rec.submit(nd, ncmd[0])
            sim.schedule(Event.once(time=Instant.from_seconds(round(t, 4)), event_type="Submit", fn=sub))
        plan = {"leader": who}
    else:
        starts = sorted((round(rng.choice((0.01, 0.01, rng.random() * 2.5)), 4), rng.randint(1, n))
                        for _ in range(rng.choice((1, 2, 2, 3))))
        for t, who in starts:
            sim.schedule(Event.once(time=Instant.from_seconds(t), event_type="Start",
                                    fn=lambda e, who=who: rec.start(nodes[who - 1])))
        subs = sorted(round(0.05 + rng.random() * 4.0, 4) for _ in range(rng.choice((1, 2, 3, 4))))
        for t in subs:
            pick = rng.random()

            def sub(e, pick=pick):
                leaders = [nd for nd in nodes if nd.is_leader]
                nd = leaders[int(pick * len(leaders)) % len(leaders)] if leaders and pick < 0.8 else nodes[int(pick * 997) % n]
                ncmd[0] += 1
                return rec.submit(nd, ncmd[0])
            sim.schedule(Event.once(time=Instant.from_seconds(t), event_type="Submit", fn=sub))
        plan = {"starts": starts, "submits": subs}
        if rng.random() < 0.35:
            iso = rng.randint(1, n)
            t0 = round(rng.random() * 2.0, 3)
            t1 = round(t0 + 0.3 + rng.random() * 2.0, 3)
            holder = {}
            sim.schedule(Event.once(time=Instant.from_seconds(t0), event_type="Cut", fn=lambda e: holder.update(
                p=net.partition([nodes[iso - 1]], [x for x in nodes if x is not nodes[iso - 1]]))))
            sim.schedule(Event.once(time=Instant.from_seconds(t1), event_type="Heal", fn=lambda e: holder["p"].heal()))
            plan["partition"] = [iso, t0, t1]
    try:
        sim.run()
    except Exception as ex:
        rec.error = rec.error or f"Simulation raised {type(ex).__name__}: {ex}"
    for nd in nodes:
        del nd.handle_event
    return rec, {"cfg": cfg, "profile": profile, "plan": plan, "sim": True}, cmds
