"""C14 - storage engines behave like a map under any flushes, compactions and overlap; transactions.

Parts (BUILDER_GUIDE):
 (1) TLC on specs/storage/Storage.tla (timed, implementation-shaped model of LSMTree + the three compaction
     strategies, BTree, KVStore driven by concurrent client processes) and Txn.tla (TransactionManager); the
     design passes with Dev={}, every deviation is caught alone.
 (2) spec->code: every program TLC enumerates in a small envelope (terminal states of a -dump) is executed on
     the real engines inside a real Simulation; histories and final states are compared with the model's.
     Every behaviour of Txn.tla that TLC dumps is replayed on the real TransactionManager+KVStore.
 (3) code->spec: seeded random / adversarial programs beyond the bounds (all strategies, memtable sizes,
     latencies, 1-4 clients, same-instant bursts, bloom false positives); StorageTrace.tla / TxnTrace.tla
     evaluate the contract on the observed histories and re-run the model on the same program.
 (4) a contract failure is attributed to a known deviation only if the model with exactly that deviation
     reproduces the observed history; anything else is a VIOLATION under a clause-specific key."""
from __future__ import annotations

import itertools
import json
import os
import random
import re

from .. import tlc, tlaval
from ..common import Check, load_known
from ..probe import quiet_logging
from . import c14_lib as L
from . import c14_txn as T

SPEC = tlc.SPECS / "storage"
MAP_INVS = ["InvRead", "InvScan"]
TXN_INVS = ["InvSerializable", "InvSnapshot"]

# deviation -> (Cfgs, MaxOps, Kinds, Thinks, NK, Prefixes, invariant that must catch it)
MAP_SENS = {
    "flush_clears_before_install": ("LsmST2", "Ops32", "KWR", "T01", 2, "NoPrefix", "InvRead"),
    "compaction_concurrent_install": ("LsmLVconc", "Ops51", "KPG_P", "T0_6", 2, "ConcPrefix", "InvRead"),
    "reader_iter_skips_on_shrink": ("LsmIter", "Ops4221", "KIter", "TIter", 3, "IterPrefix", "InvScan"),
    "btree_reader_holds_stale_node": ("BTree3", "Ops22", "KPG", "T01", 2, "NoPrefix", "InvRead"),
}
# second variant of a deviation (thorough tier): must violate with the deviation, be clean without it
MAP_SENS_EXTRA = [("compaction_concurrent_install", "LsmSTconc2", "Ops51", "KPG_D", "T0_6", 2, "ConcPrefix")]
TXN_SENS = {"si_reads_latest_not_snapshot": ('{"si"}', "InvSnapshot")}
ALL_MAP_DEVS = sorted(MAP_SENS)
TAG = os.environ.get("VERIF_C14_TAG", "")        # scratch-dir suffix so that several runs can coexist


def lab(name):
    return f"C14{TAG}_{name}"


def open_devs():
    if os.environ.get("VERIF_C14_DEV") is not None:          # development aid only
        return sorted(d for d in os.environ["VERIF_C14_DEV"].split(",") if d)
    return sorted({e["deviation"] for e in load_known().get("open", [])
                   if e["property"] == "C14" and e.get("deviation")})


def dev_str(dev):
    return "{" + ",".join(f'"{d}"' for d in dev) + "}"


def map_consts(cfgs, ops, kinds, thinks, nk=2, prefixes="NoPrefix", dev=()):
    return {"Cfgs": f"<- {cfgs}", "MaxOps": f"<- {ops}", "Kinds": f"<- {kinds}", "NK": nk,
            "Thinks": f"<- {thinks}", "Prefixes": f"<- {prefixes}", "Dev": dev_str(dev)}


def txn_consts(ntx, maxops, levels, dev=(), keys="{1, 2}"):
    return {"Dev": dev_str(dev), "NTx": ntx, "TKeys": keys, "MaxOpsTx": maxops, "Levels": levels}


# ---------------------------------------------------------------------------
# (1) model checking + (2) behaviour enumeration: independent TLC runs, executed concurrently

def run_jobs(jobs, pool):
    """jobs: dicts(name, module, consts, invs, view, label, workers, timeout, dump) -> TLCResults (same order)"""
    from concurrent.futures import ThreadPoolExecutor

    def one(j):
        wd = tlc.workdir(j["label"])
        cfg = tlc.write_cfg(wd / "mc.cfg", constants=j["consts"], invariants=j.get("invs", ()), view=j.get("view"))
        extra = ["-dump", str(wd / "states")] if j.get("dump") else None
        return tlc.run(SPEC / j["module"], cfg, label=j["label"], workers=j["workers"], timeout=j["timeout"],
                       extra=extra)
    with ThreadPoolExecutor(max_workers=pool) as ex:
        return list(ex.map(one, jobs))


def tlc_phase(chk, tier, known_map, known_txn, skip_mc=False):
    """Design model clean with Dev={}; every deviation caught alone; program / behaviour enumeration with the
    code's open deviations.  Returns (map programs, txn behaviours)."""
    big = max(2, tlc.DEFAULT_WORKERS // 2)
    small = 2
    jobs = []

    def job(kind, name, module, consts, label, workers, invs=(), view=None, dump=False, **kw):
        jobs.append(dict(kind=kind, name=name, module=module, consts=consts, label=lab(label), workers=workers,
                         invs=list(invs), view=view, dump=dump, timeout=6000, **kw))

    if tier == "quick":
        clean = [("4 lsm configurations (all strategies) + btree + kv", "QuickAll", "Ops22", "KWR", "T0_01")]
        txn = [(2, 2, '{"ser", "si", "rc"}')]
        gen = [("QuickAll", "Ops21", "KWR", "T01")]
        tgen = [(2, 2, '{"ser", "si"}')]
    else:
        clean = [("lsm all strategies, memtable 1-2, 2-3 levels", "LsmAll", "Ops32", "KWR", "T0_01"),
                 ("lsm size-tiered, writer offsets", "LsmSTq", "Ops32", "KWR", "T01"),
                 ("lsm bloom false positives", "LsmFP", "Ops32", "KWR", "T0_01"),
                 ("lsm all kinds both clients", "LsmSTq", "Ops22", "KAll2", "T0_01"),
                 ("lsm three clients", "LsmST1", "Ops222", "KWWR", "T0_0_01"),
                 ("btree order 3", "BTree3", "Ops32", "KWR", "T01"),
                 ("btree order 4", "BTree4", "Ops42", "KWR", "T0_01"),
                 ("btree all kinds", "BTree3", "Ops22", "KAll2", "T0_01"),
                 ("kv", "KV", "Ops32", "KNoScan2", "T0_01")]
        txn = [(3, 2, '{"ser"}'), (3, 2, '{"si"}'), (2, 4, '{"ser", "si"}'), (3, 1, '{"ser", "si", "rc"}')]
        gen = [("QuickAll", "Ops21", "KWR", "T01"), ("LsmST2", "Ops22", "KWR", "T01"), ("BTree3", "Ops22", "KWR", "T01"),
               ("LsmFP", "Ops21", "KWR", "T01")]
        tgen = [(2, 3, '{"ser", "si"}'), (3, 1, '{"ser", "si"}'), (2, 2, '{"rc"}')]
    if not skip_mc:
        for i, (name, cfgs, ops, kinds, thinks) in enumerate(clean):
            job("clean", f"Storage Dev={{}} {name} [{cfgs} {ops} {kinds} {thinks}]", "StorageMC.tla",
                map_consts(cfgs, ops, kinds, thinks), f"mc{i}", big, MAP_INVS)
        for dev, (cfgs, ops, kinds, thinks, nk, pre, _inv) in MAP_SENS.items():
            job("sens", f"Storage Dev={{{dev}}} [{cfgs}]", "StorageMC.tla",
                map_consts(cfgs, ops, kinds, thinks, nk, pre, [dev]), f"sens_{dev[:8]}", small, MAP_INVS, dev=dev,
                expect=MAP_INVS)
            if tier == "thorough" and pre != "NoPrefix":
                job("clean", f"Storage Dev={{}} targeted [{cfgs}]", "StorageMC.tla",
                    map_consts(cfgs, ops, kinds, thinks, nk, pre, []), f"sens0_{dev[:8]}", small, MAP_INVS)
        for i, (dev, cfgs, ops, kinds, thinks, nk, pre) in enumerate(MAP_SENS_EXTRA if tier == "thorough" else []):
            job("sens", f"Storage Dev={{{dev}}} variant [{cfgs}]", "StorageMC.tla",
                map_consts(cfgs, ops, kinds, thinks, nk, pre, [dev]), f"sensx{i}", small, MAP_INVS, dev=dev,
                expect=MAP_INVS)
            job("clean", f"Storage Dev={{}} targeted [{cfgs}]", "StorageMC.tla",
                map_consts(cfgs, ops, kinds, thinks, nk, pre, []), f"sensx0_{i}", small, MAP_INVS)
        for i, (ntx, mo, levels) in enumerate(txn):
            job("clean", f"Txn Dev={{}} NTx={ntx} MaxOpsTx={mo} levels={levels}", "Txn.tla",
                txn_consts(ntx, mo, levels), f"txn{i}", big if tier == "thorough" else small, TXN_INVS, view="View")
        for dev, (levels, inv) in TXN_SENS.items():
            job("sens", f"Txn Dev={{{dev}}}", "Txn.tla", txn_consts(2, 2, levels, [dev]), f"tsens_{dev[:8]}", small,
                TXN_INVS, view="View", dev=dev, expect=[inv])
    for i, (cfgs, ops, kinds, thinks) in enumerate(gen):
        job("gen", f"program enumeration [{cfgs} {ops} {kinds} {thinks}]", "StorageMC.tla",
            map_consts(cfgs, ops, kinds, thinks, dev=known_map), f"gen{i}", small, dump=True, key=f"{cfgs} {ops}")
    for i, (ntx, mo, levels) in enumerate(tgen):
        job("tgen", f"Txn behaviour enumeration NTx={ntx} MaxOpsTx={mo} {levels}", "Txn.tla",
            txn_consts(ntx, mo, levels, known_txn), f"tgen{i}", 1, view="View", dump=True, ntx=ntx,   # 1 worker:
            # with a VIEW the event log kept for a state depends on the search order; BFS with one worker is fixed
            key=f"{ntx}x{mo} {levels}")
    results = run_jobs(jobs, pool=4 if tier == "quick" else 3)

    progs, behs = [], []
    done_re = re.compile(r'pc \|-> "(\w+)"')
    for j, res in zip(jobs, results):
        wd = tlc.WORK / j["label"]
        if j["kind"] == "clean":
            chk.add_tlc(j["name"], res)
            chk.require(res.ok, f"{j['name']}: the design model (Dev={{}}) violates {res.violated}")
        elif j["kind"] == "sens":
            chk.add_tlc(j["name"], res, count=False, note="sensitivity run, must violate")
            chk.require(res.violated in j["expect"], f"deviation {j['dev']} not caught (got {res.violated})")
            chk.sensitivity[j["dev"]] = res.violated
        elif j["kind"] == "gen":
            chk.add_tlc(j["name"], res, count=False,
                        note="terminal states enumerate programs (model with the code's open deviations)")
            n = 0
            for st in _dump_states(wd / "states.dump", lambda t: set(done_re.findall(t)) == {"done"}):
                m = st["m"]
                scripts = [[dict(th=x["th"], k=x["k"], key=x["key"], hi=x["hi"], val=x["val"]) for x in sc]
                           for sc in st["script"]]
                if not any(scripts):
                    continue
                progs.append(dict(cfg=cfg_from_state(m["cfg"]), scripts=scripts, hist=model_hist(m),
                                  final=model_final(m)))
                n += 1
            chk.extra.setdefault("model_programs", {})[j["key"]] = n
            (wd / "states.dump").unlink(missing_ok=True)
        else:
            chk.add_tlc(j["name"], res, count=False, note="one behaviour (event log) per distinct finished state")
            n = 0
            for st in _dump_states(wd / "states.dump", lambda t: '"active"' not in t and '"none"' not in t):
                behs.append(dict(level=st["S"]["level"], ntx=j["ntx"], nk=2, ev=[list(e) for e in st["ev"]],
                                 store=as_map(st["S"]["store"])))
                n += 1
            chk.extra.setdefault("txn_behaviours", {})[j["key"]] = n
            (wd / "states.dump").unlink(missing_ok=True)
    # TLC writes dump files in a worker-dependent order: canonical order before any seeded sampling
    progs.sort(key=lambda p: json.dumps([p["cfg"], p["scripts"]], sort_keys=True))
    behs.sort(key=lambda b: json.dumps([b["level"], b["ntx"], b["ev"]]))
    return progs, behs


def _dump_states(path, want):
    """Yield parsed states of a -dump file whose raw text satisfies want(text)."""
    buf = []
    with open(path) as f:
        for ln in f:
            if ln.startswith("State ") and ln.rstrip().endswith(":"):
                if buf:
                    txt = "".join(buf)
                    if want(txt):
                        yield tlaval.parse_state(txt)
                buf = []
            elif ln.strip():
                buf.append(ln)
    if buf:
        txt = "".join(buf)
        if want(txt):
            yield tlaval.parse_state(txt)


def as_map(x):
    """TLA function with small integer domain -> dict (TLC prints domain 1..n as a tuple)."""
    if isinstance(x, dict):
        return dict(x)
    if isinstance(x, (tuple, list)):
        return {i + 1: v for i, v in enumerate(x)}
    return {}


def _pairs(x):
    return sorted([k, v] for k, v in as_map(x).items())


def model_final(m):
    e = m["cfg"]["engine"]
    if e == "lsm":
        return {"mem": _pairs(m["mem"]), "imm": [_pairs(i["d"]) for i in m["imm"]],
                "lv": [[_pairs(t["d"]) for t in level] for level in m["lv"]]}
    if e == "btree":
        nodes = m["bt"]["nodes"]

        def nest(n):
            nd = nodes[n - 1]
            return {"leaf": nd["leaf"], "keys": list(nd["keys"]), "vals": list(nd["vals"]),
                    "ch": [nest(c) for c in nd["ch"]]}
        return {"depth": m["bt"]["depth"], "bt": nest(m["bt"]["root"])}
    return {"kv": _pairs(m["kv"])}


def model_hist(m):
    return [dict(c=h["c"], k=h["k"], key=h["key"], hi=h["hi"], val=h["val"], inv=h["inv"], ret=h["ret"],
                 res=h["res"], rows=[list(r) for r in h["rows"]]) for h in m["hist"]]


def cfg_from_state(c):
    out = {k: c[k] for k in ("engine", "memsize", "strat", "thr", "base", "ratio", "maxlev", "ML", "W", "RL",
                             "order", "BR", "BW", "KR", "KW", "KD")}
    out["fp"] = sorted([sorted(ks), k] for ks, k in c["fp"])
    return out


# ---------------------------------------------------------------------------
# (3) random programs (code -> spec)

def random_cfg(rng, engine):
    c = dict(L.CFG_DEFAULT)
    c["engine"] = engine
    if engine == "lsm":
        c["strat"] = rng.choice(("st", "lv", "fifo"))
        c["memsize"] = rng.choice((1, 1, 2, 2, 3, 4))
        c["maxlev"] = rng.choice((2, 3, 3, 4))
        c["thr"] = rng.choice((1, 2, 2, 3)) if c["strat"] != "st" else rng.choice((2, 2, 3))
        c["base"] = rng.choice((1, 2, 4))
        c["ratio"] = rng.choice((1, 2, 3))
        c["ML"] = rng.choice((1, 2, 5))
        c["W"] = rng.choice((1, 2, 3, 5, 8))
        c["RL"] = rng.choice((1, 1, 2, 3))
    elif engine == "btree":
        c["order"] = rng.choice((3, 3, 4, 5))
        c["BR"] = rng.choice((1, 2, 3))
        c["BW"] = rng.choice((1, 2, 4))
    else:
        c["KR"], c["KW"], c["KD"] = rng.choice((1, 2, 3)), rng.choice((1, 2, 4)), rng.choice((1, 3))
    return c


def random_scripts(rng, cfg, nk):
    nc = rng.choice((1, 2, 2, 3, 3, 4))
    total = rng.randint(3, 14) + (nk if nk > 4 else 0)
    burst = rng.random() < 0.3                      # same-instant bursts: all think times 0
    span = max(cfg["W"], cfg["RL"], cfg["BW"] if cfg["engine"] == "btree" else 1) * 2 + 2
    kinds = ["put", "put", "put", "del", "get", "get"] + ([] if cfg["engine"] == "kv" else ["scan"])
    scripts = [[] for _ in range(nc)]
    for _ in range(total):
        c = rng.randrange(nc)
        k = rng.choice(kinds)
        th = 0 if burst else rng.choice((0, 0, 1, 1, 2, rng.randint(0, span), rng.randint(0, 3 * span)))
        if k == "scan":
            lo = rng.randint(1, nk)
            hi = rng.randint(lo, nk + 1) if rng.random() < 0.5 else nk + 1
            st = dict(th=th, k=k, key=lo, hi=hi, val=0)
        else:
            st = dict(th=th, k=k, key=rng.randint(1, nk), hi=0, val=0)
        scripts[c].append(st)
    number_values(scripts)
    return scripts


def add_audit(rng, cfg, scripts, nk):
    """One more client that starts after everything else is over and reads every key + the whole range:
    makes lost / resurrected keys observable whatever the random operations were."""
    per_op = 3 * (cfg["ML"] + 2 * cfg["W"] + 4 * cfg["RL"] * (cfg["maxlev"] + 2)) if cfg["engine"] == "lsm" else \
        6 * (cfg["BR"] + cfg["BW"]) + cfg["KR"] + cfg["KW"] + cfg["KD"]
    bound = sum(st["th"] + per_op for sc in scripts for st in sc) + 5
    sc = []
    keys = list(range(1, nk + 1))
    rng.shuffle(keys)
    for i, k in enumerate(keys):
        sc.append(dict(th=bound if i == 0 else 0, k="get", key=k, hi=0, val=0))
    if cfg["engine"] != "kv":
        sc.insert(rng.randrange(len(sc) + 1), dict(th=0, k="scan", key=1, hi=nk + 1, val=0))
        sc[0]["th"] = bound
        for st in sc[1:]:
            st["th"] = 0
    scripts.append(sc)


def number_values(scripts):
    for c, sc in enumerate(scripts, start=1):
        for n, st in enumerate(sc, start=1):
            st["val"] = 100 * c + n if st["k"] == "put" else 0


def writer_storm(rng, nk):
    """Adversarial LSM shape: several writers whose flushes and compactions overlap, then readers that start
    while those are in flight (the shape that needs >= 3 concurrent flushes)."""
    cfg = dict(L.CFG_DEFAULT, engine="lsm", strat=rng.choice(("st", "lv", "fifo")), memsize=rng.choice((1, 2, 2, 3)),
               maxlev=rng.choice((2, 3)), thr=rng.choice((1, 2, 2, 3)), base=rng.choice((2, 8)), ratio=2,
               ML=rng.choice((1, 2)), W=rng.choice((3, 5, 8, 12)), RL=rng.choice((1, 2)))
    if cfg["strat"] == "st":
        cfg["thr"] = max(2, cfg["thr"])
    nw = rng.choice((2, 3, 3))
    scripts = []
    for _ in range(nw):
        sc = [dict(th=rng.randint(0, 2 * cfg["W"]), k="put", key=rng.randint(1, nk), hi=0, val=0)]
        for _ in range(rng.randint(1, 4)):
            sc.append(dict(th=rng.choice((0, 0, 0, 1, rng.randint(0, cfg["W"]))),
                           k=rng.choice(("put", "put", "put", "del")), key=rng.randint(1, nk), hi=0, val=0))
        scripts.append(sc)
    for _ in range(rng.choice((1, 1, 2))):
        sc = []
        t0 = rng.randint(cfg["W"], 5 * cfg["W"])
        for i in range(rng.randint(1, 3)):
            if rng.random() < 0.5:
                sc.append(dict(th=t0 if i == 0 else rng.randint(0, cfg["W"]), k="scan", key=1, hi=nk + 1, val=0))
            else:
                sc.append(dict(th=t0 if i == 0 else rng.randint(0, cfg["W"]), k="get", key=rng.randint(1, nk), hi=0, val=0))
        scripts.append(sc)
    number_values(scripts)
    return cfg, scripts


def random_txn_plans(rng, nk):
    ntx = rng.choice((2, 2, 3, 3, 4))
    plans = []
    for t in range(1, ntx + 1):
        p = [dict(k="b", th=rng.choice((0, 0, 1, 3, rng.randint(0, 25))))]
        n = 0
        for _ in range(rng.randint(0, 4)):
            n += 1
            th = rng.choice((0, 0, 1, 2, rng.randint(0, 12)))
            if rng.random() < 0.55:
                p.append(dict(k="r", key=rng.randint(1, nk), th=th))
            else:
                p.append(dict(k="w", key=rng.randint(1, nk), val=10 * t + n, th=th))
        p.append(dict(k="a" if rng.random() < 0.1 else "c", th=rng.choice((0, 0, 1, rng.randint(0, 12)))))
        plans.append(p)
    return plans


# ---------------------------------------------------------------------------
# trace validation + attribution

def validate(module, traces, label, parallel=4, timeout=3000):
    """Batch trace validation, split over `parallel` concurrent single-worker TLC processes (a trace spec walks
    its batch sequentially) -> ({id: (verdict, pos, match)}, [TLCResult])"""
    from concurrent.futures import ThreadPoolExecutor
    if module == "StorageTrace.tla":
        consts = {"Cfgs": "{}", "MaxOps": "<- NoOps", "Kinds": "<- NoOps", "NK": 0, "Thinks": "<- NoOps",
                  "Prefixes": "{}"}
    else:
        consts = {"Dev": "{}", "NTx": 0, "TKeys": "{}", "MaxOpsTx": 0, "Levels": "{}"}
    if not traces:
        return {}, []
    nchunk = max(1, min(parallel, len(traces) // 40 or 1))
    parts = [traces[i::nchunk] for i in range(nchunk)]

    def one(arg):
        i, part = arg
        lb = f"{label}_{i}"
        wd = tlc.workdir(lb)
        cfg = tlc.write_cfg(wd / "trace.cfg", spec="TSpec", constants=consts)
        f = wd / "traces.json"
        f.write_text(json.dumps(part, separators=(",", ":")))
        res = tlc.run(SPEC / module, cfg, label=lb, workers=1, timeout=timeout, env={"TRACE_FILE": str(f)},
                      heap="3g")
        out = {}
        for v in res.printed:
            if isinstance(v, tuple) and len(v) == 5 and v[0] == "V":
                out[v[1]] = (v[2], v[3], v[4])
        miss = [t["id"] for t in part if t["id"] not in out]
        if miss:
            raise tlc.TLCFailure(f"{lb}: no verdict for traces {miss[:3]} (see {wd / 'tlc.out'})")
        return out, res
    verdicts, results = {}, []
    with ThreadPoolExecutor(max_workers=nchunk) as ex:
        for out, res in ex.map(one, list(enumerate(parts))):
            verdicts.update(out)
            results.append(res)
    return verdicts, results


def attribute(module, failing, known, label, setdev, parallel=4):
    """For traces whose observed history violates the contract and which the model with all `known` deviations
    reproduces: the smallest subset(s) of `known` whose model still reproduces it.  {tid: tuple(devs)}"""
    out, todo = {}, dict(failing)
    results = []
    for sizes in ((0, 1, 2), tuple(range(3, len(known) + 1))):
        subsets = [sub for size in sizes if size <= len(known) for sub in itertools.combinations(known, size)]
        if not todo or not subsets:
            break
        batch, back = [], {}
        for tid, tr in todo.items():
            for sub in subsets:
                cid = len(batch) + 1
                batch.append(setdev(dict(tr, id=cid), list(sub)))
                back[cid] = (tid, sub)
        v, r = validate(module, batch, label, parallel=parallel)
        results += r
        for cid in sorted(v):                      # subsets are listed smallest first
            tid, sub = back[cid]
            if v[cid][2] == 1 and tid not in out:
                out[tid] = sub
        for tid in out:
            todo.pop(tid, None)
    return out, results


def attribute_regression(module, failing, known, others, label, setdev, parallel=4):
    """Failing traces that the model with the open deviations does not reproduce: does it reproduce them when
    deviations that are NOT open (fixed / never confirmed) are switched on as well?  {tid: tuple(extra devs)}"""
    subsets = [sub for size in (1, 2) for sub in itertools.combinations(others, size)]
    batch, back = [], {}
    for tid, tr in failing.items():
        for sub in subsets:
            cid = len(batch) + 1
            batch.append(setdev(dict(tr, id=cid), list(known) + list(sub)))
            back[cid] = (tid, sub)
    if not batch:
        return {}, []
    v, results = validate(module, batch, label, parallel=parallel)
    out = {}
    for cid in sorted(v):
        tid, sub = back[cid]
        if v[cid][2] == 1 and tid not in out:
            out[tid] = sub
    return out, results


def _set_map_dev(tr, dev):
    tr["cfg"] = dict(tr["cfg"], dev=dev)
    return tr


def _set_txn_dev(tr, dev):
    tr["dev"] = dev
    return tr


def judge(chk, module, traces, meta, verdicts, known, label, setdev, describe, parallel=4, all_devs=()):
    bad = {tid: v for tid, v in verdicts.items() if v[0] != "ACCEPT"}
    explained = {}
    # contract failures the open deviations do not explain: name them after a non-open deviation of the model if
    # that reproduces them exactly (a fixed defect that is back), else after the clause
    unexpl = {tid: traces[tid - 1] for tid, v in bad.items() if v[0].startswith("PROP:") and v[2] == 0}
    others = [d for d in all_devs if d not in known]
    regress = {}
    if unexpl and others:
        some = dict(list(unexpl.items())[:40])
        regress, res = attribute_regression(module, some, known, others, label + "_regr", setdev, parallel)
        for r in res:
            chk.add_tlc(f"{module} regression attribution batch", r, count=False)
    cand = {tid: traces[tid - 1] for tid, v in bad.items() if v[0].startswith("PROP:") and v[2] == 1}
    if cand and known:
        explained, res = attribute(module, cand, known, label + "_attr", setdev, parallel)
        for r in res:
            chk.add_tlc(f"{module} attribution batch", r, count=False)
    for tid, v in sorted(bad.items()):
        tr = traces[tid - 1]
        if not v[0].startswith("PROP:"):
            chk.note_drift(f"{label} trace {tid} ({describe(tr)}): {v[0]} at {v[1]}")
            continue
        replay = {"kind": label, "meta": meta[tid], "trace": tr, "verdict": list(v)}
        if tid in explained and not explained[tid]:
            # the design model itself (no deviation at all) reproduces the failing execution: a defect that no
            # deviation of Storage.tla / Txn.tla describes yet
            chk.violation(f"{v[0][5:]}:{describe(tr)}:no_deviation_needed",
                          f"{v[0]} at op {v[1]} ({describe(tr)}); the model reproduces it with Dev={{}}: the violation "
                          f"is not due to any known deviation", replay)
        elif tid in explained:
            for d in explained[tid]:
                chk.violation(d, f"{v[0]} at op {v[1]} ({describe(tr)}); reproduced exactly by the model with "
                                 f"deviation(s) {list(explained[tid])}", replay)
        elif tid in regress:
            for d in regress[tid]:
                chk.violation(d, f"{v[0]} at op {v[1]} ({describe(tr)}); reproduced exactly by the model with the "
                                 f"non-open deviation(s) {list(regress[tid])} on top of the open ones {known}", replay)
        else:
            chk.violation(f"{v[0][5:]}:{describe(tr)}",
                          f"{v[0]} at op {v[1]} of an execution of the real code ({describe(tr)}); not explained by "
                          f"the known deviations {known}", replay)
    return bad, explained


def run(tier, seed, replay=None):
    quiet_logging()
    chk = Check("C14", tier, seed)
    rng = random.Random(seed)
    known = open_devs()
    known_map = [d for d in known if d in MAP_SENS]
    known_txn = [d for d in known if d in TXN_SENS]
    if replay:
        return run_replay(chk, replay, known_map, known_txn)
    # VERIF_C14_SKIP_MC: development aid (mutation runs need not repeat the repository-independent model check)
    progs, behs = tlc_phase(chk, tier, known_map, known_txn, skip_mc=bool(os.environ.get("VERIF_C14_SKIP_MC")))

    # ---- map engines ---------------------------------------------------------------------------
    traces, meta = [], {}

    def execute(cfg, scripts, names, origin, yf):
        w, err, final = L.run_program(cfg, scripts, names, yield_from=yf)
        tid = len(traces) + 1
        traces.append(L.to_trace(tid, dict(cfg, dev=list(known_map)), scripts, w, final))
        meta[tid] = dict(origin=origin, names=names, yield_from=yf)
        chk.impl_steps += len(w.hist)
        if err:
            chk.violation(f"exception:{err.split(':')[0]}:{cfg['engine']}",
                          f"operation on the real engine raised {err} (no read value / scan result returned)",
                          {"kind": "map", "meta": meta[tid], "trace": traces[-1]})
        if w.bad_time:
            chk.note_drift(f"trace {tid}: an operation began/returned off the tick grid (latency assumption broken)")
        return w, final

    cap = 500 if tier == "quick" else 4000
    chosen = progs if len(progs) <= cap else rng.sample(progs, cap)
    chk.exhaustive = len(chosen) == len(progs)
    matched = 0
    for i, p in enumerate(chosen):
        fps = p["cfg"]["fp"]
        names = L.universe_with(2, fps) if fps else L.universe(2)[0]
        if names is None:          # no real key universe has the false-positive relation of this envelope
            continue
        w, final = execute(dict(p["cfg"], fp=fps), p["scripts"], names, "model", yf=bool(i % 2))
        chk.replays += 1
        if w.hist == p["hist"] and final == p["final"]:
            matched += 1
        else:
            chk.note_drift(f"replay of model program differs from Storage.tla (dev={known_map}): "
                           f"cfg={p['cfg']} scripts={p['scripts']} model={p['hist']} code={w.hist}")
    chk.extra["replay_state_matched"] = matched
    chk.extra["model_programs_total"] = len(progs)

    n_rand = 720 if tier == "quick" else 6000
    for i in range(n_rand):
        if i % 4 == 3:
            nk = rng.choice((2, 3))
            names, fps = L.universe(nk, want_fp=(i % 8 == 7))
            cfg, scripts = writer_storm(rng, nk)
            cfg["fp"] = fps
            if i % 8 != 3:
                add_audit(rng, cfg, scripts, nk)
            execute(cfg, scripts, names, "storm", yf=bool(i % 3))
            continue
        engine = ("lsm", "lsm", "btree", "lsm", "btree", "kv")[i % 6]
        if engine == "btree":
            nk = rng.choice((2, 3, 4, 5, 6, 8))
            names, fps = L.plain_names(nk), []
        else:
            nk = rng.choice((2, 3, 3, 4))
            names, fps = L.universe(nk, want_fp=(engine == "lsm" and i % 5 == 0))
        cfg = random_cfg(rng, engine)
        cfg["fp"] = fps
        scripts = random_scripts(rng, cfg, nk)
        if i % 5 != 4:
            add_audit(rng, cfg, scripts, nk)
        execute(cfg, scripts, names, "random", yf=bool(i % 2))

    par = 4 if tier == "quick" else 6
    verdicts, results = validate("StorageTrace.tla", traces, lab("trace"), parallel=par)
    for r in results:
        chk.add_tlc("StorageTrace batch (contract on observed history + model re-run)", r)

    def describe_map(tr):
        c = tr["cfg"]
        return c["engine"] + (":" + c["strat"] if c["engine"] == "lsm" else "")
    bad, explained = judge(chk, "StorageTrace.tla", traces, meta, verdicts, known_map, lab("trace"), _set_map_dev,
                           describe_map, parallel=par, all_devs=ALL_MAP_DEVS)
    chk.extra["map_traces"] = len(traces)
    chk.extra["map_contract_failures_observed"] = sum(1 for v in bad.values() if v[0].startswith("PROP:"))
    chk.extra["map_failures_by_deviation"] = {d: sum(1 for s in explained.values() if d in s) for d in known_map}

    # ---- transactions ----------------------------------------------------------------------------
    ttraces, tmeta = [], {}

    def texec(level, plans, nk, origin):
        rt, wt = rng.choice((1, 3, 6)), rng.choice((1, 5))
        w, err = T.run_plan(level, plans, nk, read_ticks=rt, write_ticks=wt)
        tid = len(ttraces) + 1
        ttraces.append(T.to_trace(tid, level, nk, len(plans), w, known_txn))
        tmeta[tid] = dict(origin=origin, plans=plans, read_ticks=rt, write_ticks=wt)
        chk.impl_steps += len(w.ev)
        if err or w.anomalies:
            chk.violation(f"exception:{(err or w.anomalies[0]).split(':')[0]}:txn",
                          f"transaction run raised {err} {w.anomalies}", {"kind": "txn", "meta": tmeta[tid],
                                                                          "trace": ttraces[-1]})
        return w

    tcap = 400 if tier == "quick" else 3000
    tchosen = behs if len(behs) <= tcap else rng.sample(behs, tcap)
    tmatched = 0
    for b in tchosen:
        w = texec(b["level"], T.plans_from_events(b["ev"], b["ntx"]), b["nk"], "model")
        chk.replays += 1
        store = {k: v for k, v in w.final()}
        if w.ev == b["ev"] and all(store.get(k, 0) == v for k, v in b["store"].items()):
            tmatched += 1
        else:
            chk.note_drift(f"replay of Txn.tla behaviour differs (dev={known_txn}): model={b['ev']} code={w.ev}")
    chk.extra["txn_replay_matched"] = tmatched
    chk.extra["txn_behaviours_total"] = len(behs)
    for i in range(300 if tier == "quick" else 3000):
        level = ("ser", "si", "ser", "si", "rc")[i % 5]
        nk = rng.choice((1, 2, 2, 3))
        texec(level, random_txn_plans(rng, nk), nk, "random")
    tverdicts, tresults = validate("TxnTrace.tla", ttraces, lab("ttrace"), parallel=par // 2)
    for r in tresults:
        chk.add_tlc("TxnTrace batch (contract on observed events + model re-run)", r)
    tbad, texpl = judge(chk, "TxnTrace.tla", ttraces, tmeta, tverdicts, known_txn, lab("ttrace"), _set_txn_dev,
                        lambda tr: "txn:" + tr["level"], all_devs=sorted(TXN_SENS))
    chk.extra["txn_traces"] = len(ttraces)
    chk.extra["txn_contract_failures_observed"] = sum(1 for v in tbad.values() if v[0].startswith("PROP:"))

    chk.impl_traces = len(traces) + len(ttraces)
    for t in traces[:1] + [traces[tid - 1] for tid in list(bad)[:2]]:
        chk.sample({"trace": t, "verdict": verdicts[t["id"]]})
    for t in ttraces[:1] + [ttraces[tid - 1] for tid in list(tbad)[:1]]:
        chk.sample({"trace": t, "verdict": tverdicts[t["id"]]})
    chk.assumptions = [
        "same-instant continuations are delivered in creation order (property C01); simulated time is compared "
        "strictly: operations that touch at one instant count as concurrent",
        "latencies are multiples of a tick whose float-seconds value converts to nanoseconds exactly",
        "bloom filter answers are deterministic (sha256); the false-positive relation of the key universe in use "
        "is computed from the real SSTable class and given to the model",
        "put values are unique per run, so a read identifies the write it returns",
        "transactions are run over KVStore (atomic reads) and all transactions of a run use one isolation level; "
        "the SI clause is judged on committed transactions only",
    ]
    chk.explanation = (
        "TLC explores every client program (operation sequences x think times/start offsets) of the listed "
        "envelopes on a timed model with one action per generator segment of lsm_tree.py/btree.py/kv_store.py and "
        "every interleaving of begin/read/write/commit/abort of transaction_manager.py; the interval-rule map "
        "contract and the two transaction clauses are invariants.  Every enumerated program/behaviour of a small "
        "envelope and thousands of random larger ones run on the real engines inside a real Simulation; TLC "
        "evaluates the contract on the observed histories and compares them with the model re-run on the same "
        "program (zero drift expected).")
    return chk.finish()


def run_replay(chk, path, known_map, known_txn):
    """Re-run a saved failing case on the current code and re-judge it."""
    data = json.loads(open(path).read())
    rp = data["replay"]
    tr = rp["trace"]
    if rp.get("kind", "").endswith("ttrace") or rp.get("kind") == "txn":
        w, err = T.run_plan(tr["level"], rp["meta"]["plans"], tr["nk"], rp["meta"].get("read_ticks", 3),
                            rp["meta"].get("write_ticks", 5))
        new = T.to_trace(1, tr["level"], tr["nk"], tr["ntx"], w, known_txn)
        module, label, setdev, known = "TxnTrace.tla", lab("replay_t"), _set_txn_dev, known_txn
        describe = lambda t: "txn:" + t["level"]
    else:
        cfg = {k: v for k, v in tr["cfg"].items() if k != "dev"}
        w, err, final = L.run_program(cfg, tr["script"], rp["meta"]["names"], yield_from=rp["meta"]["yield_from"])
        new = L.to_trace(1, dict(cfg, dev=list(known_map)), tr["script"], w, final)
        module, label, setdev, known = "StorageTrace.tla", lab("replay"), _set_map_dev, known_map
        describe = lambda t: t["cfg"]["engine"] + (":" + t["cfg"]["strat"] if t["cfg"]["engine"] == "lsm" else "")
    if err:
        chk.violation(f"exception:{err.split(':')[0]}", f"real engine raised {err}", rp)
        return chk.finish()
    verdicts, results = validate(module, [new], label)
    for r in results:
        chk.add_tlc("replay validation", r)
    meta = {1: rp["meta"]}
    judge(chk, module, [new], meta, verdicts, known, label, setdev, describe)
    chk.impl_traces = 1
    print(f"replay verdict: {verdicts[1]}")
    return chk.finish()
