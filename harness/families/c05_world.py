"""C05 real-code side: scripted programs built on happysimulator.parallel and on the sequential engine.

A *program* is a finite forest of events: event i has an absolute timestamp (ticks), a target
entity and a parent (0 = scheduled before the run).  The handler of the target, when it receives
event i, emits exactly the children of i (handler output is a function of the event only, so the
program means the same thing under every engine).  The event type of event i is "e<i>", so a
delivery (time, event type) identifies the program event.

The same program is executed
  * by ParallelSimulation (partitions, PartitionLinks, WindowedCoordinator or independent mode),
  * by one sequential Simulation holding all entities (reference of the coordinated clauses),
  * by one Simulation per partition (reference of the "independent partitions" clause),
and everything observable is recorded: per-entity delivery logs (entity clock reading and event
type), per-partition record sequences (window ends, deliveries, "Time travel detected" warnings),
the events injected at every barrier, the thread that ran every window.
"""
from __future__ import annotations

import logging
import threading
import warnings
from dataclasses import dataclass, field

from happysimulator.core.entity import Entity
from happysimulator.core.event import Event
from happysimulator.components.resource import Resource
from happysimulator.core.sim_future import SimFuture
from happysimulator.core.simulation import Simulation
from happysimulator.core.temporal import Duration, Instant
from happysimulator.distributions.constant import ConstantLatency
from happysimulator.parallel.link import PartitionLink
from happysimulator.parallel.partition import SimulationPartition
from happysimulator.parallel.simulation import ParallelSimulation

INF = 999999
BADTICK = 777777


@dataclass
class Prog:
    ep: list                 # ep[e-1] = partition (1..np) of entity e
    np: int
    links: list              # [(p, q)] directed
    lat: dict                # (p, q) -> minimum latency in ticks
    w: int                   # window size in ticks (0 when there are no links)
    end_t: int               # end_time in ticks or INF
    evs: list                # evs[i-1] = (t_abs, tgt, par)
    cont: frozenset = frozenset()      # ids realised as the resumption of the parent's generator
    override: dict = field(default_factory=dict)   # (p, q) -> ticks: link.latency object (constant)
    real_dist: bool = False  # link.latency is a real ConstantLatency (else a duck-typed object with sample())
    cby: dict = field(default_factory=dict)        # timer id -> id of the event whose handler cancels it
    daemon: frozenset = frozenset()                # ids of daemon events (only with a finite end_time)
    pre: dict = field(default_factory=dict)        # id -> "future" | "resource": the handler yields an already
                                                   # resolved SimFuture / acquires a free capacity-1 Resource
                                                   # before it emits its children (same instant)
    park: dict = field(default_factory=dict)       # i -> r: the handler of i emits its only child r and parks on
                                                   # a SimFuture; the handler of r resolves it; the children of r
                                                   # are emitted by the resumed generator of i (same instant)

    def key(self):
        return (tuple(self.ep), self.np, tuple(sorted(self.links)), tuple(sorted(self.lat.items())), self.w,
                self.end_t, tuple(self.evs), tuple(sorted(self.cby.items())), tuple(sorted(self.daemon)))

    def cancels(self):
        out = {}
        for c, b in self.cby.items():
            out.setdefault(b, []).append(c)
        return out

    def part_of_ev(self, i):
        return self.ep[self.evs[i - 1][1] - 1]

    def kids(self):
        k = {i: [] for i in range(0, len(self.evs) + 1)}
        for c, (_t, _g, par) in enumerate(self.evs, start=1):
            k[par].append(c)
        return k

    def is_cross(self, i):
        par = self.evs[i - 1][2]
        return par != 0 and self.part_of_ev(par) != self.part_of_ev(i)

    def check(self):
        """Preconditions of the statement: links exist for every cross edge, delays >= declared minimum,
        window <= min latency, non-negative delays."""
        for i, (t, g, par) in enumerate(self.evs, start=1):
            assert 1 <= g <= len(self.ep)
            if par:
                assert par < i
                dt = t - self.evs[par - 1][0]
                assert dt >= 0
                a, b = self.part_of_ev(par), self.part_of_ev(i)
                if a != b:
                    assert (a, b) in self.lat and dt >= self.lat[(a, b)], (i, dt)
                    if (a, b) in self.override and not self.real_dist:
                        assert dt == self.override[(a, b)]
                if i in self.cont:
                    assert self.evs[par - 1][1] == g
        for c, b in self.cby.items():
            # a timer of the canceller's own entity, due strictly later, created strictly earlier:
            # the outcome of cancel() then does not depend on the order of equal timestamps
            tc, gc, pc = self.evs[c - 1]
            tb, gb, _pb = self.evs[b - 1]
            assert gc == gb and tb < tc and c not in self.cont and b not in self.cont
            assert pc == 0 or (self.evs[pc - 1][1] == gc and self.evs[pc - 1][0] < tb)
        kids = self.kids()
        assert not self.daemon or self.end_t != INF
        for i in self.daemon:
            assert i not in self.cont and not any(c in self.cont for c in kids[i])
        for i in self.pre:
            assert i not in self.cont and not any(c in self.cont for c in kids[i]) and i not in self.park
        for i, r in self.park.items():
            assert kids[i] == [r] and self.evs[r - 1][1] == self.evs[i - 1][1]
            assert not ({i, r} & set(self.cont)) and not any(c in self.cont for c in kids[r])
            assert r not in self.cby and r not in self.park and r not in self.pre and i not in self.daemon
        if self.links:
            assert 1 <= self.w <= min(self.lat.values())

    def canonical(self) -> "Prog":
        """Renumber events in the order in which the sequential engine creates them (initial events in
        listed order, then the children of every delivered event, the generator continuation last).
        Equal-timestamp events are delivered in creation order, so with these ids 'lowest id first'
        is the engine's tie rule (used by the independent-partitions clause)."""
        import heapq
        kids = self.kids()
        cancels = self.cancels()
        new_of, order = {}, []
        heap = []
        pending, cancelled = set(), set()
        for i in kids[0]:
            new_of[i] = len(order) + 1
            order.append(i)
            pending.add(i)
            heapq.heappush(heap, (self.evs[i - 1][0], new_of[i], i))
        while heap:
            _t, _n, i = heapq.heappop(heap)
            pending.discard(i)
            if i in cancelled:
                continue            # never delivered, its children are never created
            for c in cancels.get(i, ()):
                if c in pending:
                    cancelled.add(c)
            ks = [c for c in kids[i] if c not in self.cont] + [c for c in kids[i] if c in self.cont]
            for c in ks:
                new_of[c] = len(order) + 1
                order.append(c)
                pending.add(c)
                heapq.heappush(heap, (self.evs[c - 1][0], new_of[c], c))
        evs = [(self.evs[i - 1][0], self.evs[i - 1][1], new_of.get(self.evs[i - 1][2], 0)) for i in order]
        return Prog(ep=self.ep, np=self.np, links=self.links, lat=self.lat, w=self.w, end_t=self.end_t, evs=evs,
                    cont=frozenset(new_of[c] for c in self.cont if c in new_of), override=self.override,
                    real_dist=self.real_dist,
                    cby={new_of[c]: new_of[b] for c, b in self.cby.items() if c in new_of and b in new_of},
                    daemon=frozenset(new_of[i] for i in self.daemon if i in new_of),
                    pre={new_of[i]: k for i, k in self.pre.items() if i in new_of},
                    park={new_of[i]: new_of[r] for i, r in self.park.items() if i in new_of and r in new_of})

    @staticmethod
    def from_state(st):
        c = st["conf"]
        links = sorted(c["links"])
        lat = {tuple(k): v for k, v in dict(st["lat"]).items()} if st["lat"] else {}
        ovl = sorted(tuple(x) for x in c.get("ovl", ()))      # links declaring a LatencyDistribution
        return Prog(ep=list(c["ep"]), np=c["np"], links=[tuple(x) for x in links], lat=lat, w=st["w"],
                    end_t=c["endT"], evs=[(e["t"], e["tgt"], e["par"]) for e in st["ev"]],
                    override={l: lat[l] for l in ovl}, real_dist=bool(ovl),
                    cby={i: e["cby"] for i, e in enumerate(st["ev"], start=1) if e.get("cby")},
                    daemon=frozenset(i for i, e in enumerate(st["ev"], start=1) if e.get("d")))


@dataclass
class Opts:
    tick_ns: int = 1_000_000_000
    workers: int | None = None        # None = number of partitions
    implicit_window: bool = False     # do not pass window_size when w == min latency
    form: str = "list"                # "list" | "single" (a lone child returned bare)


class WindowLimit(RuntimeError):
    """Harness watchdog: the coordinator ran far more windows than the program can need."""


class DeliveryLimit(RuntimeError):
    """Harness watchdog: far more deliveries than the program has events (runaway duplication)."""


def roundtrip_ok(ns: int) -> bool:
    """The coordinator clamps the last window to Instant.from_seconds(end_time.to_seconds()); when that
    float round trip truncates below end_time, `while current_time < end_time` never exits (see report).
    Such end times are kept out of the compared programs."""
    return Instant.from_seconds(Instant(ns).to_seconds()).nanoseconds == ns


def latency_roundtrip_ok(ns: int) -> bool:
    """ConstantLatency keeps float seconds and converts back with int(): the override used by a
    compared program must survive that round trip, or the link would not add the scripted delay."""
    return ConstantLatency(Duration(ns)).get_latency(Instant.Epoch).nanoseconds == ns


class _FixedLatency:
    """Duck-typed link.latency (constant delay): offers both sample() and get_latency(now)."""

    def __init__(self, ns):
        self._ns = ns

    def sample(self):
        return Duration(self._ns)

    def get_latency(self, current_time):     # the LatencyDistribution protocol
        return Duration(self._ns)


class Node(Entity):
    def __init__(self, idx, world):
        super().__init__(f"n{idx}")
        self._idx = idx
        self._world = world

    def handle_event(self, event):
        return self._world.deliver(self, event)


_tl = threading.local()


class _Capture(logging.Handler):
    """Receives the engine's 'Time travel detected' warnings in the thread that emitted them."""

    def __init__(self):
        super().__init__(level=logging.WARNING)

    def emit(self, record):
        try:
            if "Time travel detected" not in str(record.msg):
                return
            world = getattr(_tl, "world", None)
            if world is None:
                return
            a = record.args
            world.on_skip(getattr(_tl, "part", 0), str(a[2]), a[0])
        except Exception:   # never let logging break the run
            pass


_capture = None


def install_capture():
    """Make the simulation logger deliver warnings to us (vcheck disables logging globally)."""
    global _capture
    logging.disable(logging.NOTSET)
    lg = logging.getLogger("happysimulator.core.simulation")
    if _capture is None:
        _capture = _Capture()
        lg.addHandler(_capture)
    lg.setLevel(logging.WARNING)
    lg.propagate = False
    for name in ("happysimulator.parallel.coordinator", "happysimulator.parallel.simulation"):
        logging.getLogger(name).setLevel(logging.ERROR)


class World:
    def __init__(self, prog: Prog, opts: Opts, mode: str):
        self.prog, self.opts, self.mode = prog, opts, mode
        self.tick_ns = opts.tick_ns
        self.kids = prog.kids()
        self.cancels = prog.cancels()
        self.created = {}                                # event id -> Event (timers a handler may cancel)
        self.resolver_of = {r: i for i, r in prog.park.items()}
        self.futs = {}                                   # resolver id -> SimFuture the parked handler waits on
        self.res = {e: Resource(f"res{e}", 1) for e in
                    sorted({prog.evs[i - 1][1] for i, k in prog.pre.items() if k == "resource"})}
        self.nodes = {e: Node(e, self) for e in range(1, len(prog.ep) + 1)}
        self.elog = {e: [] for e in self.nodes}          # entity -> [(i, now_ns)]
        self.precs = {p: [] for p in range(1, prog.np + 1)}   # partition -> [window dict]
        self.ilog = {p: [] for p in range(1, prog.np + 1)}    # independent mode: partition -> [(i, now_ns)]
        self.xrecs = []                                  # (i, dest partition, windows completed by dest)
        self.skips_seq = []
        self.threads = {p: set() for p in range(1, prog.np + 1)}
        self.foreign = []                                # entity touched outside its partition's window call
        self.error = None
        horizon = max([t for t, _g, _p in prog.evs] + [0])
        self.window_limit = 3 * (horizon // max(prog.w, 1) + 5) + 20
        self.delivery_limit = 4 * len(prog.evs) + 50
        self.n_deliveries = 0

    # -- time ---------------------------------------------------------------
    def ticks(self, ns):
        q, r = divmod(ns, self.tick_ns)
        return q if r == 0 and 0 <= q < INF else BADTICK

    def ev_time(self, i):
        return Instant(self.prog.evs[i - 1][0] * self.tick_ns)

    # -- handler ------------------------------------------------------------
    def record(self, e, i, now_ns):
        self.n_deliveries += 1
        if self.n_deliveries > self.delivery_limit:
            raise DeliveryLimit(f"more than {self.delivery_limit} deliveries for {len(self.prog.evs)} events")
        self.elog[e].append((i, now_ns))
        p = self.prog.ep[e - 1]
        if self.mode == "par":
            cur = getattr(_tl, "part", None)
            if self.prog.links:
                if cur != p or not self.precs[p]:
                    self.foreign.append((e, i, cur))
                else:
                    self.precs[p][-1]["recs"].append(("d", i, now_ns))
            else:
                self.ilog[p].append(("I", i, now_ns))
                self.threads[p].add(threading.get_ident())

    def note(self, p, kind, c):
        """A cancel() call ("x") or the pop of a cancelled event ("k") in partition p of the parallel run."""
        if self.mode != "par":
            return
        if self.prog.links:
            if self.precs[p]:
                self.precs[p][-1]["recs"].append((kind, c))
        else:
            self.ilog[p].append((kind, c))

    def do_cancels(self, i):
        for c in self.cancels.get(i, ()):
            ev = self.created.get(c)
            if ev is not None:
                ev.cancel()
                self.note(self.prog.part_of_ev(i), "x", c)

    def on_skip(self, part, event_type, ev_time):
        try:
            i = int(event_type[1:])
        except ValueError:
            i = 0
        if self.mode == "par" and self.prog.links and part and self.precs[part]:
            self.precs[part][-1]["recs"].append(("s", i))
        else:
            self.skips_seq.append(i)

    def child_event(self, parent, c, now_ns):
        t, g, _par = self.prog.evs[c - 1]
        dt = t - self.prog.evs[parent - 1][0]
        at = now_ns + dt * self.tick_ns
        if self.mode == "par":
            a, b = self.prog.part_of_ev(parent), self.prog.part_of_ev(c)
            if a != b and (a, b) in self.prog.override:
                at = now_ns      # the coordinator overwrites it with send_time + link.latency.sample()
        ev = Event(time=Instant(at), event_type=f"e{c}", target=self.nodes[g], daemon=c in self.prog.daemon)
        self.created[c] = ev
        return ev

    def out_events(self, i, now_ns):
        return [self.child_event(i, c, now_ns) for c in self.kids[i] if c not in self.prog.cont]

    def deliver(self, node, event):
        i = int(event.event_type[1:])
        now_ns = node.now.nanoseconds
        self.record(node._idx, i, now_ns)
        self.do_cancels(i)
        if i in self.resolver_of:
            fut = self.futs.get(i)
            if fut is not None:
                fut.resolve(None)       # the parked handler resumes (same instant) and emits the children of i
            return None
        if i in self.prog.park:
            return self._parking(node, i)
        if i in self.prog.pre:
            return self._pre_resolved(node, i)
        if any(c in self.prog.cont for c in self.kids[i]):
            return self._process(node, i)
        out = self.out_events(i, now_ns)
        if not out:
            return None
        if self.opts.form == "single" and len(out) == 1:
            return out[0]
        return out

    def _parking(self, node, i):
        r = self.prog.park[i]
        fut = SimFuture()
        self.futs[r] = fut
        yield 0.0, [self.child_event(i, r, node.now.nanoseconds)]
        yield fut                                  # parks until the handler of r resolves it
        return [self.child_event(r, c, node.now.nanoseconds) for c in self.kids[r]]

    def _pre_resolved(self, node, i):
        if self.prog.pre[i] == "resource":
            grant = yield self.res[node._idx].acquire(1)      # capacity 1, free: granted at once
            grant.release()
        else:
            fut = SimFuture()
            fut.resolve(None)
            yield fut                              # already resolved: resumes through the active heap
        return self.out_events(i, node.now.nanoseconds)

    def _process(self, node, i):
        """Generator form: event i's handler yields the delay of its continuation child k, the part of
        the handler after the yield is 'event' k (recorded like a delivery, in every engine alike)."""
        cur = i
        while True:
            now_ns = node.now.nanoseconds
            side = self.out_events(cur, now_ns)
            ks = [c for c in self.kids[cur] if c in self.prog.cont]
            if not ks:
                return side
            k = ks[0]
            delay = (self.prog.evs[k - 1][0] - self.prog.evs[cur - 1][0]) * (self.tick_ns / 1e9)
            if side:
                yield delay, side
            else:
                yield delay
            self.record(node._idx, k, node.now.nanoseconds)
            cur = k

    # -- observations in ticks --------------------------------------------------
    def entity_log_ticks(self):
        return [[[i, self.ticks(ns)] for i, ns in self.elog[e]] for e in sorted(self.elog)]


def exact_delays(prog: Prog, tick_ns: int) -> bool:
    """Generator delays are float seconds truncated by the engine; use the generator form only when
    every continuation delay survives the float round trip exactly."""
    for k in prog.cont:
        t, _g, par = prog.evs[k - 1]
        dt = t - prog.evs[par - 1][0]
        if int(float(dt * (tick_ns / 1e9)) * 1_000_000_000) != dt * tick_ns:
            return False
    return True


def _initial_events(world: World):
    out = []
    for i, (t, g, par) in enumerate(world.prog.evs, start=1):
        if par == 0:
            ev = Event(time=Instant(t * world.tick_ns), event_type=f"e{i}", target=world.nodes[g],
                       daemon=i in world.prog.daemon)
            world.created[i] = ev
            out.append((i, ev))
    return out


def run_sequential(prog: Prog, opts: Opts) -> World:
    world = World(prog, opts, "seq")
    kw = {}
    if prog.end_t != INF:
        kw["end_time"] = Instant(prog.end_t * opts.tick_ns)
    sim = Simulation(entities=[world.nodes[e] for e in sorted(world.nodes)] + list(world.res.values()), **kw)
    for _i, ev in _initial_events(world):
        sim.schedule(ev)
    _tl.world, _tl.part = world, 0
    try:
        sim.run()
    except Exception as exc:   # noqa: BLE001
        world.error = f"{type(exc).__name__}: {exc}"
    finally:
        _tl.world = None
    return world


def run_separate(prog: Prog, opts: Opts) -> World:
    """One plain Simulation per partition (reference of the independent-partitions clause)."""
    world = World(prog, opts, "sep")
    kw = {}
    if prog.end_t != INF:
        kw["end_time"] = Instant(prog.end_t * opts.tick_ns)
    sims = {}
    for p in range(1, prog.np + 1):
        ents = [world.nodes[e] for e in sorted(world.nodes) if prog.ep[e - 1] == p]
        ents += [world.res[e] for e in world.res if prog.ep[e - 1] == p]
        sims[p] = Simulation(entities=ents, **kw)
    for i, ev in _initial_events(world):
        sims[prog.part_of_ev(i)].schedule(ev)
    _tl.world, _tl.part = world, 0
    try:
        for p in sims:
            sims[p].run()
    except Exception as exc:   # noqa: BLE001
        world.error = f"{type(exc).__name__}: {exc}"
    finally:
        _tl.world = None
    return world


def run_parallel(prog: Prog, opts: Opts) -> World:
    world = World(prog, opts, "par")
    tick_s = opts.tick_ns / 1e9
    names = {p: f"P{p}" for p in range(1, prog.np + 1)}
    parts = [SimulationPartition(name=names[p],
                                 entities=[world.nodes[e] for e in sorted(world.nodes) if prog.ep[e - 1] == p]
                                 + [world.res[e] for e in world.res if prog.ep[e - 1] == p])
             for p in range(1, prog.np + 1)]
    links = []
    for (a, b) in prog.links:
        ov = prog.override.get((a, b))
        dist = None
        if ov is not None:
            dist = ConstantLatency(Duration(ov * opts.tick_ns)) if prog.real_dist else _FixedLatency(ov * opts.tick_ns)
        links.append(PartitionLink(names[a], names[b], min_latency=prog.lat[(a, b)] * tick_s, latency=dist))
    kw = {"max_workers": opts.workers}
    if prog.end_t != INF:
        kw["end_time"] = Instant(prog.end_t * opts.tick_ns)
    if links:
        kw["links"] = links
        if not (opts.implicit_window and prog.w == min(prog.lat.values())):
            kw["window_size"] = prog.w * tick_s
    with warnings.catch_warnings():
        warnings.simplefilter("ignore")
        psim = ParallelSimulation(parts, **kw)
    for i, ev in _initial_events(world):
        psim.schedule(ev, partition=names[prog.part_of_ev(i)])
    sims = psim.simulations
    for p in names:
        _wrap_partition(world, sims[names[p]], p)
    _tl.world, _tl.part = world, None
    try:
        psim.run()
    except Exception as exc:   # noqa: BLE001
        world.error = f"{type(exc).__name__}: {exc}"
    finally:
        _tl.world = None
    world.left = {p: sims[names[p]]._event_heap.size() for p in names}
    return world


def _wrap_partition(world: World, sim, p: int):
    """Instance-level wrappers (the repository is untouched): window boundaries and barrier injections."""
    run_window = sim._run_window
    schedule = sim.schedule

    def wrapped_run_window(window_end):
        if len(world.precs[p]) >= world.window_limit:
            raise WindowLimit(f"partition {p}: more than {world.window_limit} windows")
        world.precs[p].append({"end": window_end.nanoseconds, "recs": [], "thread": threading.get_ident()})
        _tl.world, _tl.part = world, p
        try:
            return run_window(window_end)
        finally:
            _tl.part = None

    def wrapped_schedule(events):
        for ev in (events if isinstance(events, list) else [events]):
            try:
                i = int(ev.event_type[1:])
            except ValueError:
                i = 0
            world.xrecs.append((i, p, len(world.precs[p]), ev.time.nanoseconds))
        return schedule(events)

    heap = sim._event_heap
    heap_pop = heap.pop

    def wrapped_pop():
        ev = heap_pop()
        if ev._cancelled:           # lazy deletion: make the pop of a cancelled event observable
            try:
                world.note(p, "k", int(ev.event_type[1:]))
            except ValueError:
                pass
        return ev

    sim._run_window = wrapped_run_window
    sim.schedule = wrapped_schedule
    heap.pop = wrapped_pop


# ---------------------------------------------------------------------------
# trace assembly (input of specs/parallel/WindowedTrace.tla)

def win_pos(world: World, end_ns: int):
    """(n, s): the window end is n ticks minus s*delta (delta < tick/2), else n = BADTICK."""
    n = -(-end_ns // world.tick_ns)
    deficit = n * world.tick_ns - end_ns
    if deficit * 2 >= world.tick_ns or n >= INF:
        return BADTICK, 0
    return n, 1 if deficit else 0


def make_trace(tid: int, prog: Prog, par: World, ref: World) -> dict:
    coord = bool(prog.links)
    log = []
    n0 = s0 = 0
    raised = bool(par.error) and not par.error.startswith(("WindowLimit", "DeliveryLimit"))
    err = "" if not raised else ("no_sample" if "no attribute 'sample'" in par.error else "other")
    if coord:
        nwin = max(len(v) for v in par.precs.values())
        for k in range(nwin):
            for p in sorted(par.precs):
                if k >= len(par.precs[p]):
                    continue
                for r in par.precs[p][k]["recs"]:
                    if r[0] == "d":
                        log.append(["d", p, r[1], par.ticks(r[2])])
                    else:
                        log.append([r[0], p, r[1]])      # "s" | "x" | "k"
                log.append(["D", p])
            if raised and k + 1 == nwin:
                log.append(["C"])       # run() raised during (or instead of) this barrier
                break
            log.append(["X", [[i, q] for (i, q, done, _t) in par.xrecs if done == k + 1]])
            if k + 1 < nwin:
                n, s = win_pos(par, par.precs[1][k + 1]["end"])
                log.append(["A", n, s])
            else:
                log.append(["A", -1, 0])
        if nwin:
            n0, s0 = win_pos(par, par.precs[1][0]["end"])
    else:
        for p in sorted(par.ilog):
            for r in par.ilog[p]:
                log.append(["I", p, r[1], par.ticks(r[2])] if r[0] == "I" else [r[0], p, r[1]])
    log.append(["end"])
    return {"id": tid, "mode": "coord" if coord else "indep", "ep": prog.ep, "np": prog.np,
            "links": [[a, b, prog.lat[(a, b)]] for (a, b) in prog.links], "w": prog.w, "endT": prog.end_t,
            "n0": n0, "s0": s0, "evs": [list(e) + [prog.cby.get(i, 0), 1 if i in prog.daemon else 0]
                    for i, e in enumerate(prog.evs, start=1)], "seq": ref.entity_log_ticks(), "log": log,
            "ovl": [list(l) for l in sorted(prog.override)] if prog.real_dist else [], "err": err}


def py_compare(prog: Prog, par: World, ref: World):
    """Independent Python judgement of the contract on the two observed logs (cross-check of the TLA+
    trace spec; also names what differs).  Returns (kind, detail) with kind in
    ok | dropped | lost | extra | time | order | dup | independent."""
    end_ns = None if prog.end_t == INF else prog.end_t * par.tick_ns
    judged = (lambda ns: True) if end_ns is None else (lambda ns: ns < end_ns)
    dropped = sorted({r[1] for v in par.precs.values() for wdw in v for r in wdw["recs"] if r[0] == "s"})
    if not prog.links:
        for e in par.elog:
            if par.elog[e] != ref.elog[e]:
                return "independent", f"entity {e}: parallel {par.elog[e]} separate {ref.elog[e]}"
        return "ok", ""
    for e in par.elog:
        ids = [i for i, _ns in par.elog[e]]
        if len(ids) != len(set(ids)):
            return "dup", f"entity {e}: {ids}"
        ts = [ns for _i, ns in par.elog[e]]
        if any(a > b for a, b in zip(ts, ts[1:])):
            return "order", f"entity {e}: {par.elog[e]}"
    cross_dropped = [i for i in dropped if i and prog.is_cross(i)]
    if cross_dropped:
        return "dropped", f"cross events discarded as past: {cross_dropped}"
    for e in par.elog:
        a = {(i, ns) for i, ns in par.elog[e] if judged(ns)}
        b = {(i, ns) for i, ns in ref.elog[e] if judged(ns)}
        if a != b:
            if {i for i, _ in b - a} & {i for i, _ in a - b}:
                return "time", f"entity {e}: {sorted(a ^ b)}"
            if b - a:
                return "lost", f"entity {e}: missing {sorted(b - a)}"
            return "extra", f"entity {e}: extra {sorted(a - b)}"
    return "ok", ""
