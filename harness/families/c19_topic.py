"""C19, topic part: drive the real Topic inside a real Simulation; records in the vocabulary of
specs/msg/TopicTrace.tla."""
from __future__ import annotations

import random

from happysimulator.components.messaging.topic import Topic
from happysimulator.core.entity import Entity
from happysimulator.core.event import Event
from happysimulator.core.simulation import Simulation
from happysimulator.core.temporal import Instant

from .c19_mq import MAX_INVOKES, UNKNOWN, InvokeHook, SpinAbort, exact_delay


class _Sub(Entity):
    def __init__(self, idx, w):
        super().__init__(f"subscriber{idx}")
        self.idx, self.w = idx, w

    def handle_event(self, event):
        if event.event_type == "topic_message":
            self.w.log("recv", k=self.w.kof(event.context.get("payload")), c=self.idx)
        return None


class _Script(Entity):
    def __init__(self, w):
        super().__init__("script")
        self.w = w

    def handle_event(self, event):
        op, lv = event.context["op"], event.context["lv"]
        if lv > 1:
            return [Event(time=self.now, event_type="chain", target=self, context={"op": op, "lv": lv - 1})]
        if lv == 1:
            return [self.w.op_event(op, self.now, 0)]
        return self.w.do_op(op)


class TopicWorld:
    """sc = {nc, lat, order0 [subscriber..], ops [[t, lv, op, a]..], loop}
       op in sub unsub pubE (publish event sent to the topic) pubG (producer runs `yield from
       topic.publish`) pubS (publish_sync)"""

    def __init__(self, sc, tick_ns):
        self.sc, self.tick_ns = sc, tick_ns
        self.topic = Topic("topic", delivery_latency=exact_delay(sc["lat"], tick_ns))
        self.subs = [_Sub(i, self) for i in range(1, sc["nc"] + 1)]
        self.script = _Script(self)
        for c in sc["order0"]:
            self.topic.subscribe(self.subs[c - 1])
        self.payloads = {}    # id(payload) -> (payload, k)
        self.procs = {}       # id(context) -> (context, k)
        self.npub = 0
        self.records = []
        self.error = None

    def kof(self, payload):
        got = self.payloads.get(id(payload))
        return got[1] if got else UNKNOWN

    def cidx(self, ent):
        for s in self.subs:
            if s is ent:
                return s.idx
        return UNKNOWN

    def ticks(self):
        return self.topic.now.nanoseconds // self.tick_ns

    def snapshot(self):
        tp = self.topic
        st = tp.stats
        return {"ord": [self.cidx(e) for e in tp.downstream_entities()],
                "act": [self.cidx(e) for e in tp.subscribers],
                "st": [st.messages_published, st.messages_delivered]}

    def log(self, a, k=0, c=0, x=0):
        self.records.append({"a": a, "t": self.ticks(), "k": k, "c": c, "x": x, "o": self.snapshot()})

    def new_payload(self):
        return Event(time=self.topic.now, event_type="payload", target=self.script, context={"op": ("noop", 0), "lv": 0})

    def assign(self, payload):
        self.npub += 1
        self.payloads[id(payload)] = (payload, self.npub)
        return self.npub

    def op_event(self, op, when, lv):
        if lv == 0 and op[0] == "pubE":
            return Event(time=when, event_type="publish", target=self.topic, context={"payload": self.new_payload()})
        return Event(time=when, event_type="chain" if lv else "op", target=self.script, context={"op": op, "lv": lv})

    def do_op(self, op):
        kind, a = op
        tp = self.topic
        if kind == "sub":
            tp.subscribe(self.subs[a - 1])
            self.log("sub", c=a)
        elif kind == "unsub":
            tp.unsubscribe(self.subs[a - 1])
            self.log("unsub", c=a)
        elif kind == "pubS":
            payload = self.new_payload()
            evs = tp.publish_sync(payload)
            self.log("pub", k=self.assign(payload), x=2)
            return evs
        elif kind == "pubG":
            return self._publish()
        return None

    def _publish(self):
        """`events = yield from topic.publish(payload); return events` with a log point per segment."""
        payload = self.new_payload()
        gen = self.topic.publish(payload)
        try:
            d = next(gen)
        except StopIteration as stop:
            self.log("pub", k=self.assign(payload), x=1)
            return stop.value
        k = self.assign(payload)
        self.log("pub", k=k, x=1)
        while True:
            sent = yield d
            try:
                d = gen.send(sent)
            except StopIteration as stop:
                self.log("step", k=k)
                return stop.value
            self.log("step", k=k)

    def after(self, event, cont):
        if event.target is not self.topic or event.event_type != "publish":
            return
        if not cont:
            payload = event.context.get("payload")
            k = self.assign(payload)
            self.procs[id(event.context)] = (event.context, k)
            self.log("pub", k=k, x=1)
        else:
            got = self.procs.get(id(event.context))
            self.log("step", k=got[1] if got else UNKNOWN)

    def discarded(self, event):
        if event.event_type == "topic_message":
            self.log("disc", k=self.kof(event.context.get("payload")), c=self.cidx(event.target),
                     x=event.time.nanoseconds // self.tick_ns)     # x = the instant the event was stamped with

    def run(self):
        sc = self.sc
        ents = [self.topic, self.script, *self.subs]
        last = max([op[0] for op in sc["ops"]] + [0])
        kw = {}
        if sc.get("loop") == "fast":
            kw["end_time"] = Instant((last + 1000) * self.tick_ns)
        sim = Simulation(entities=ents, **kw)
        if sc.get("loop") == "control":
            sim.control.on_event(lambda e: None)
        for t, lv, op, a in sc["ops"]:
            sim.schedule(self.op_event((op, a), Instant(t * self.tick_ns), lv))
        hook = InvokeHook(self.after, self.discarded)
        with hook:
            try:
                sim.run()
            except SpinAbort:
                self.error = "spin: more than %d handler invocations" % MAX_INVOKES
            except Exception as ex:   # noqa: BLE001
                self.error = f"{type(ex).__name__}: {ex}"
            hook.flush()
        self.log("end", x=1 if (self.error is None and not sim._event_heap.has_events()) else 0)
        return self


def to_trace(tid, sc, w):
    return {"id": tid, "lat": sc["lat"], "order0": list(sc["order0"]), "log": w.records}


def run_scenario(sc, tick_ns):
    return TopicWorld(sc, tick_ns).run()


def scenario_from_path(root_state, path, cfg):
    ops, t = [], 0
    for k, (act, _dst) in enumerate(path):
        name, args = act[0], act[1:]
        if name == "Tick":
            t += 1
        elif name == "EPub":
            ops.append([t, k % 3, "pubE" if k % 2 else "pubG", 0])
        elif name == "EPubSync":
            ops.append([t, k % 3, "pubS", 0])
        elif name == "ESub":
            ops.append([t, k % 3, "sub", args[0]])
        elif name == "EUnsub":
            ops.append([t, k % 3, "unsub", args[0]])
    return dict(cfg, order0=list(root_state["tp"]["order"]), ops=ops)


def random_scenario(rng: random.Random, lat=None):
    nc = rng.randint(1, 4)
    sc = {"nc": nc, "lat": rng.choice((0, 0, 1, 2)) if lat is None else lat,
          "loop": rng.choice(("auto", "fast", "control")),
          "order0": rng.sample(range(1, nc + 1), rng.randint(0, nc))}
    horizon = rng.randint(0, 8)
    ops = []
    for _ in range(rng.randint(2, 16)):
        t = rng.randint(0, horizon)
        lv = rng.choice((0, 0, 1, 2))
        r = rng.random()
        if r < 0.45:
            ops.append([t, lv, rng.choice(("pubE", "pubG", "pubS")) if lat is None else rng.choice(("pubE", "pubG")), 0])
        elif r < 0.75:
            ops.append([t, lv, "sub", rng.randint(1, nc)])
        else:
            ops.append([t, lv, "unsub", rng.randint(1, nc)])
    ops.sort(key=lambda o: o[0])
    sc["ops"] = ops
    return sc
