"""C12, single-decree Paxos: real PaxosNode objects driven directly (harness-owned message pool)
or inside a real Simulation (scripted latencies), recorded in the vocabulary of
specs/paxos/PaxosTrace.tla."""
from __future__ import annotations

import random

from happysimulator.components.consensus.paxos import PaxosNode
from happysimulator.components.network.link import NetworkLink
from happysimulator.components.network.network import Network
from happysimulator.core.clock import Clock
from happysimulator.core.event import Event
from happysimulator.core.simulation import Simulation
from happysimulator.core.temporal import Duration, Instant
from happysimulator.distributions.constant import ConstantLatency
from happysimulator.distributions.latency_distribution import LatencyDistribution

TYPES = {"PaxosPrepare": "prepare", "PaxosPromise": "promise", "PaxosNack": "nack", "PaxosRetry": "retry",
         "PaxosAccept": "accept", "PaxosAccepted": "accepted", "PaxosDecided": "decided"}
NOMSG = {"t": "", "src": 0, "dst": 0, "bn": 0, "bi": 0, "an": 0, "ai": 0, "v": 0}
MF = ("t", "src", "dst", "bn", "bi", "an", "ai", "v")


ODD = 999998


def marr(m):
    return [m[f] for f in MF]


def name_of(i):
    return f"n{i}"


def idx_of(name):
    try:
        if isinstance(name, str) and name[:1] == "n":
            return int(name[1:])
    except ValueError:
        pass
    return 0


def enc_val(v):
    if v is None:
        return 0
    if isinstance(v, bool):
        return ODD
    if isinstance(v, int) and 0 < v < 900000:
        return v
    return ODD


def enc_int(v):
    if v is None:
        return 0
    if isinstance(v, bool) or not isinstance(v, int) or abs(v) > 10**8:
        return ODD
    return v


def enc_ballot(b):
    """Ballot | (number, node_id) | None -> [number, node index]"""
    if b is None:
        return [0, 0]
    try:
        if isinstance(b, tuple):
            return [enc_int(b[0]), idx_of(b[1])]
        return [enc_int(b.number), idx_of(b.node_id)]
    except Exception:
        return [ODD, 0]


def enc_msg(ev):
    """Event (network message or node timer) -> message record of PaxosCore."""
    md = ev.context.get("metadata", {})
    t = TYPES.get(ev.event_type, ev.event_type)
    if t == "retry":
        n = idx_of(ev.target.name)
        return {"t": t, "src": n, "dst": n, "bn": enc_int(md.get("original_ballot")), "bi": 0, "an": 0, "ai": 0, "v": 0}
    m = {"t": t, "src": idx_of(md.get("source")), "dst": idx_of(md.get("destination")),
         "bn": enc_int(md.get("ballot_number")), "bi": idx_of(md.get("ballot_node")), "an": 0, "ai": 0, "v": 0}
    if t == "promise":
        m["an"] = enc_int(md.get("accepted_ballot_number"))
        m["ai"] = idx_of(md.get("accepted_ballot_node"))
        m["v"] = enc_val(md.get("accepted_value"))
    elif t == "nack":
        m["an"] = enc_int(md.get("highest_ballot_number"))
        m["ai"] = idx_of(md.get("highest_ballot_node"))
    elif t == "accept":
        m["v"] = enc_val(md.get("value"))
    elif t == "decided":
        m["bn"] = m["bi"] = 0
        m["v"] = enc_val(md.get("value"))
    return m


class Recorder:
    """Shared by the direct and the Simulation drive: futures, projections, step records."""

    def __init__(self, nodes):
        self.nodes = nodes
        self.futs = []
        self.steps = []
        self.proposed = []
        self.error = None

    def fid(self, f):
        for i, g in enumerate(self.futs):
            if g is f:
                return i + 1
        return 0

    def fut_vals(self):
        return [enc_val(f.value) if f.is_resolved else -1 for f in self.futs]

    def project(self, nd):
        try:
            p1 = [[enc_int(bn), [enc_ballot(r.get("accepted_ballot")) + [enc_val(r.get("accepted_value"))] for r in lst]]
                  for bn, lst in sorted(nd._phase1_responses.items())]
            return [enc_ballot(nd._promised_ballot), enc_ballot(nd._accepted_ballot),
                    enc_val(nd._accepted_value), enc_int(nd._current_ballot.number),
                    p1,
                    [[enc_int(b), enc_int(c)] for b, c in sorted(nd._phase2_responses.items())],
                    [[enc_int(b), enc_val(v)] for b, v in sorted(nd._proposed_values.items())],
                    [[enc_int(b), self.fid(f)] for b, f in sorted(nd._proposal_futures.items())],
                    bool(nd.is_decided), enc_val(nd.decided_value)]
        except Exception as ex:     # a mutated tree may break the projection: that is drift, not a crash
            self.error = self.error or f"projection failed: {type(ex).__name__}: {ex}"
            return [[ODD, 0], [0, 0], 0, 0, [], [], [], [],
                    bool(getattr(nd, "is_decided", False)), enc_val(getattr(nd, "decided_value", None))]

    def rec(self, a, n, nd, m=None, v=0, f=0, out=()):
        self.steps.append({"a": a, "node": n, "v": v, "m": marr(m or NOMSG), "post": self.project(nd),
                           "out": [marr(enc_msg(e)) for e in out], "futs": self.fut_vals()})

    def client_propose(self, nd, v):
        """f = node.propose(v); if not f.is_resolved: node.start_phase1()  -> events"""
        f = nd.propose(v)
        self.futs.append(f)
        self.proposed.append(v)
        evs = [] if f.is_resolved else list(nd.start_phase1() or [])
        self.rec("propose", idx_of(nd.name), nd, v=enc_val(v), f=len(self.futs), out=evs)
        return evs

    def trace(self, tid, dev, mode="safety", pval=0, meta=None):
        return {"id": tid, "n": len(self.nodes), "dev": list(dev), "mode": mode, "pval": pval, "steps": self.steps}


def build_nodes(n, latency_factory):
    net = Network(name="net")
    nodes = [PaxosNode(name=name_of(i + 1), network=net) for i in range(n)]
    for nd in nodes:
        nd.set_peers(nodes)
    for i, a in enumerate(nodes):
        for b in nodes[i + 1:]:
            fwd = NetworkLink(name=f"l_{a.name}_{b.name}", latency=latency_factory(), bandwidth_bps=None)
            net.add_link(a, b, fwd)
            back = NetworkLink(name=f"l_{b.name}_{a.name}", latency=latency_factory(), bandwidth_bps=None)
            net.add_link(b, a, back)
    return net, nodes


def as_list(res):
    if res is None:
        return []
    if isinstance(res, Event):
        return [res]
    return list(res)


class DirectCluster:
    """Real nodes + real Network/NetworkLink objects; the harness owns the pool of in-flight events and
    decides what is delivered next (spec -> code replays and adversarial random schedules)."""

    def __init__(self, n):
        self.clock = Clock(Instant.Epoch)
        self.net, self.nodes = build_nodes(n, lambda: ConstantLatency(0.0))
        self.net.set_clock(self.clock)
        for nd in self.nodes:
            nd.set_clock(self.clock)
        self.rec = Recorder(self.nodes)
        self.pool = []          # [(event, encoded message)]

    def node(self, i):
        return self.nodes[i - 1]

    def _absorb(self, evs):
        for e in evs:
            self.pool.append((e, enc_msg(e)))

    def propose(self, i, v):
        self._absorb(self.rec.client_propose(self.node(i), v))

    def find(self, m):
        for k, (_, em) in enumerate(self.pool):
            if em == m:
                return k
        return None

    def deliver(self, k):
        ev, em = self.pool.pop(k)
        if ev.target is self.net:
            gen = self.net.handle_event(ev)
            fwd = None
            try:
                next(gen)
                gen.send(None)
            except StopIteration as stop:
                fwd = stop.value
            if fwd is None:
                self.rec.rec("drop", em["dst"], self.node(em["dst"]), m=em)
                return
            target = fwd.target
        else:
            fwd, target = ev, ev.target
        try:
            out = as_list(target.handle_event(fwd))
        except Exception as ex:
            self.rec.error = self.rec.error or f"handler raised {type(ex).__name__}: {ex} on {em}"
            return
        self.rec.rec("deliver", idx_of(target.name), target, m=em, out=out)
        self._absorb(out)

    def drop(self, k):
        ev, em = self.pool.pop(k)
        self.rec.rec("drop", em["dst"], self.node(em["dst"]), m=em)


# ---------------------------------------------------------------------------
# spec -> code: a TLC behaviour (sequence of Paxos.tla states) reduced to its environment choices

def bag_of(v):
    """TLC prints a bag as (msg :> count @@ ...) -> {frozen msg: count}; the empty bag as << >>."""
    if isinstance(v, dict):
        return dict(v)
    return {}


def msg_from_key(k):
    d = dict(k) if not isinstance(k, dict) else k
    return {f: d[f] for f in NOMSG}


def choices_from_states(states):
    """[(kind, payload)] : ('propose', node) | ('deliver', msg)"""
    out = []
    for a, b in zip(states, states[1:]):
        fa, fb = a["futs"], b["futs"]
        if len(fb) > len(fa):
            out.append(("propose", fb[-1]["owner"]))
            continue
        ma, mb = bag_of(a["msgs"]), bag_of(b["msgs"])
        gone = [k for k, c in ma.items() if mb.get(k, 0) < c]
        if len(gone) != 1:
            out.append(("stutter", None))
            continue
        out.append(("deliver", msg_from_key(gone[0])))
    return out


def replay_choices(n, choices):
    """Schedule replay: apply the environment choices to real nodes; inapplicable ones are skipped."""
    c = DirectCluster(n)
    skipped = 0
    nv = 0
    for kind, x in choices:
        if kind == "propose":
            nv += 1
            c.propose(x, nv)
        elif kind == "deliver":
            k = c.find(x)
            if k is None:
                skipped += 1
                continue
            c.deliver(k)
    return c, skipped


# ---------------------------------------------------------------------------
# code -> spec: adversarial random schedules on the direct drive

STRATS = ("uniform", "lifo", "fifo", "starve", "late_promise", "late_accepted", "burst")


def random_direct(rng: random.Random, n=None, strat=None, max_steps=160, progress=False):
    n = n or rng.choice((3, 3, 3, 4, 5))
    strat = strat or rng.choice(STRATS)
    c = DirectCluster(n)
    random.seed(rng.random())          # PaxosNode._handle_nack draws its retry jitter from the global RNG
    if progress:
        plan = [(0, rng.randint(1, n))]
    else:
        k = rng.choice((1, 2, 2, 2, 3, 3, 4))
        plan = sorted((rng.randint(0, 25), rng.randint(1, n)) for _ in range(k))
    p_drop = 0.0 if progress else rng.choice((0.0, 0.0, 0.05, 0.15))
    starved = rng.randint(1, n)
    hold = {}          # message id -> release step
    nv = 0
    step = 0
    while step < max_steps:
        while plan and plan[0][0] <= step:
            _, who = plan.pop(0)
            nv += 1
            c.propose(who, nv)
        if not c.pool:
            if not plan:
                break
            step = plan[0][0]
            continue
        step += 1
        idxs = list(range(len(c.pool)))
        if strat == "lifo":
            k = idxs[-1] if rng.random() < 0.7 else rng.choice(idxs)
        elif strat == "fifo":
            k = idxs[0] if rng.random() < 0.8 else rng.choice(idxs)
        elif strat == "starve":
            pref = [i for i in idxs if starved not in (c.pool[i][1]["src"], c.pool[i][1]["dst"])]
            k = rng.choice(pref) if pref and rng.random() < 0.9 else rng.choice(idxs)
        elif strat == "late_promise":
            pref = [i for i in idxs if c.pool[i][1]["t"] != "promise" or hold.setdefault(id(c.pool[i][0]), rng.random() < 0.6)]
            k = rng.choice(pref) if pref and rng.random() < 0.92 else rng.choice(idxs)
        elif strat == "late_accepted":
            pref = [i for i in idxs if c.pool[i][1]["t"] not in ("accepted", "decided")]
            k = rng.choice(pref) if pref and rng.random() < 0.85 else rng.choice(idxs)
        elif strat == "burst":
            # deliver everything addressed to one node, then move on
            tgt = c.pool[rng.choice(idxs)][1]["dst"]
            pref = [i for i in idxs if c.pool[i][1]["dst"] == tgt]
            k = pref[0]
        else:
            k = rng.choice(idxs)
        if p_drop and c.pool[k][1]["t"] != "retry" and rng.random() < p_drop:
            c.drop(k)
        else:
            c.deliver(k)
        if c.rec.error:
            break
    drained = not c.pool and not plan
    return c, {"n": n, "strat": strat, "p_drop": p_drop, "drained": drained}


# ---------------------------------------------------------------------------
# code -> spec: the same nodes inside a real Simulation with scripted latencies

class ScriptedLatency(LatencyDistribution):
    """Per-message delay drawn from a seeded adversarial profile (reorderings, stragglers)."""

    def __init__(self, rng, profile, fixed=0.01):
        super().__init__(0.0)
        self.rng = rng
        self.profile = profile
        self.fixed = fixed          # profile "links": one constant delay per directed link

    def get_latency(self, current_time):
        r = self.rng.random()
        p = self.profile
        if p == "links":
            d = self.fixed
        elif p == "bounded":
            d = 0.001 + 0.02 * r
        elif p == "straggler":
            d = 0.001 + 0.01 * r if r < 0.75 else 0.4 + 2.5 * self.rng.random()
        elif p == "wide":
            d = 3.0 * r * r
        else:   # "ties": many messages land on the same instants
            d = self.rng.choice((0.01, 0.01, 0.02, 0.5, 1.2))
        return Duration.from_seconds(d)


def sim_run(rng: random.Random, n=None, profile=None, progress=False):
    n = n or rng.choice((3, 3, 4, 5))
    profile = "bounded" if progress else (profile or rng.choice(("straggler", "wide", "ties", "bounded", "links", "links")))
    lat_rng = random.Random(rng.random())
    # "links": every directed link has its own constant delay, some of them slow (an Accept held back
    # past a competing decision), in the same range as the retry delay (0.5-1 s)
    net, nodes = build_nodes(n, lambda: ScriptedLatency(lat_rng, profile,
                                                        fixed=lat_rng.choice((0.01, 0.01, 0.01, 0.2, 0.2, 0.6, 1.3))))
    rec = Recorder(nodes)
    random.seed(rng.random())
    for nd in nodes:
        nd.handle_event = _recording_handler(nd, rec)
    sim = Simulation(duration=30.0, entities=[net, *nodes])
    nv = 0
    if progress:
        plan = [(0.1, rng.randint(1, n))]
    elif profile == "links":
        # competing proposers that start within one link delay of each other (same ballot numbers)
        who = rng.sample(range(1, n + 1), rng.choice((2, 2, 3)))
        plan = sorted((round(0.1 + rng.choice((0.0, 0.05, 0.25, 0.4)) + rng.random() * 0.01, 4), w) for w in who)
    else:
        plan = sorted((round(rng.choice((0.1, 0.1, 0.1 + rng.random() * 0.05, rng.random() * 3.0)), 4), rng.randint(1, n))
                      for _ in range(rng.choice((1, 2, 2, 3, 3, 4))))
    for t, who in plan:
        nv += 1

        def fire(event, who=who, v=nv):
            return rec.client_propose(nodes[who - 1], v)
        sim.schedule(Event.once(time=Instant.from_seconds(t), event_type=f"Propose{nv}", fn=fire))
    parts = []
    if not progress and profile == "links" and rng.random() < 0.7:
        # two of the proposers cannot talk to each other; the partition heals later (or never)
        pa, pb = plan[0][1], plan[-1][1]
        if pa != pb:
            holder = {}
            heal_at = rng.choice((None, 1.0, 2.5, 6.0))
            sim.schedule(Event.once(time=Instant.from_seconds(0.0), event_type="Cut", fn=lambda e: holder.update(
                p=net.partition([nodes[pa - 1]], [nodes[pb - 1]]))))
            if heal_at:
                sim.schedule(Event.once(time=Instant.from_seconds(heal_at), event_type="Heal",
                                        fn=lambda e: holder["p"].heal()))
            parts = [pa, pb, 0.0, heal_at]
    elif not progress and rng.random() < 0.4:
        # partition episode: isolate one node for a while (messages are dropped by the real Network)
        iso = rng.randint(1, n)
        t0 = round(rng.random() * 1.0, 3)
        t1 = round(t0 + 0.2 + rng.random() * 2.0, 3)
        holder = {}

        def cut(event):
            holder["p"] = net.partition([nodes[iso - 1]], [x for x in nodes if x is not nodes[iso - 1]])

        def heal(event):
            holder["p"].heal()
        sim.schedule(Event.once(time=Instant.from_seconds(t0), event_type="Cut", fn=cut))
        sim.schedule(Event.once(time=Instant.from_seconds(t1), event_type="Heal", fn=heal))
        parts = [iso, t0, t1]
    try:
        sim.run()
    except Exception as ex:
        rec.error = rec.error or f"Simulation raised {type(ex).__name__}: {ex}"
    for nd in nodes:
        del nd.handle_event
    return rec, {"n": n, "profile": profile, "plan": plan, "partition": parts, "sim": True}


def _recording_handler(nd, rec):
    orig = type(nd).handle_event

    def handle(event):
        out = orig(nd, event)
        lst = as_list(out)
        rec.rec("deliver", idx_of(nd.name), nd, m=enc_msg(event), out=lst)
        return out
    return handle


# ---------------------------------------------------------------------------
# code -> spec: round-structured adversarial schedules (direct drive)

def rounds_direct(rng: random.Random, n=None, max_steps=220):
    """Competing proposers whose rounds are cut short on purpose: a proposer starts (or retries) before it
    has seen the others' Prepares (same ballot numbers on different nodes), phase 1 reaches only a
    quorum-sized subset that avoids the other proposers (partition), Accepts are held back past a
    competing decision, nacks trigger retries, and at the end the partition heals and everything in
    flight is delivered in random order."""
    n = n or rng.choice((3, 3, 3, 4, 5))
    q = n // 2 + 1
    c = DirectCluster(n)
    random.seed(rng.random())
    proposers = rng.sample(range(1, n + 1), rng.choice((2, 2, 3)))
    nv = 0

    def deliver_all(pred, limit=None):
        evs = [ev for ev, em in c.pool if pred(em)]
        rng.shuffle(evs)
        for ev in evs[:limit]:
            k = next((i for i, (e2, _) in enumerate(c.pool) if e2 is ev), None)
            if k is not None and len(c.rec.steps) < max_steps and not c.rec.error:
                c.deliver(k)

    order = sorted(proposers) if rng.random() < 0.7 else list(proposers)
    avoid = rng.choice((0.15, 0.15, 0.6, 1.0))      # how likely a first-pass Prepare reaches another proposer
    n_rounds = rng.choice((3, 4, 4, 5, 6))
    for r in range(n_rounds):
        first_pass = r < len(order)
        if first_pass:
            p = order[r]
        else:
            # overdue Accepts of the others reach acceptors that have moved on: nacks, retry timers
            if rng.random() < 0.5:
                # delayed promises of earlier ballots arrive; a stale phase 2 of a LOWER ballot may start now
                deliver_all(lambda m: m["t"] == "promise", limit=rng.randint(1, 3))
            if rng.random() < 0.8:
                deliver_all(lambda m: m["t"] == "accept", limit=rng.randint(1, 4))
                deliver_all(lambda m: m["t"] == "nack")
            waiting = [em["dst"] for _, em in c.pool if em["t"] == "retry"]
            p = rng.choice(waiting) if waiting and rng.random() < 0.85 else rng.choice(proposers)
        retries = [i for i, (_, em) in enumerate(c.pool) if em["t"] == "retry" and em["dst"] == p]
        if retries:
            c.deliver(retries[0])
        else:
            nv += 1
            c.propose(p, nv)
        b = c.node(p)._current_ballot.number
        peers = [i for i in range(1, n + 1) if i != p]
        cand = [x for x in peers if x not in proposers or rng.random() < (avoid if first_pass else 0.5)] or peers
        subset = set(rng.sample(cand, rng.randint(min(max(1, q - 1), len(cand)), len(cand))))
        deliver_all(lambda m: m["t"] == "prepare" and m["src"] == p and m["bn"] == b and m["dst"] in subset)
        if rng.random() < 0.25:
            # the replies of this round are slow: an old promise completes phase 1 of this ballot much later
            deliver_all(lambda m: m["t"] in ("promise", "nack") and m["dst"] == p and m["bn"] == b,
                        limit=rng.randint(0, max(0, q - 2)))
            continue
        deliver_all(lambda m: m["t"] in ("promise", "nack") and m["dst"] == p and m["bn"] == b)
        stall = rng.random() < (0.6 if first_pass and r + 1 < len(order) else 0.25)
        if not stall:                   # otherwise the Accepts of this ballot stay in flight (slow links)
            sub2 = set(rng.sample(peers, rng.randint(0, len(peers))))
            deliver_all(lambda m: m["t"] == "accept" and m["src"] == p and m["bn"] == b and m["dst"] in sub2)
            if rng.random() < 0.85:
                deliver_all(lambda m: m["t"] in ("accepted", "nack") and m["dst"] == p and m["bn"] == b)
    # heal: everything still in flight, in random order (retries included)
    while c.pool and len(c.rec.steps) < max_steps and not c.rec.error:
        c.deliver(rng.randrange(len(c.pool)))
    return c, {"n": n, "strat": "rounds", "proposers": proposers, "drained": not c.pool}


def overtake_direct(rng: random.Random, n=None, max_steps=220):
    """Template with random roles, subsets and noise: a lower proposer L gets promises from the acceptor set A
    but the replies are slow; a higher proposer H with the SAME ballot number gets its phase-1 quorum elsewhere
    (L included) and its Accepts reach A before (instead of) its Prepares; H's value is chosen.  Then L's old
    promises arrive, L runs phase 2 of the lower ballot (stale Accepts reach A), is nacked by the others,
    retries and collects promises from A.  Finally everything in flight is delivered in random order."""
    n = n or rng.choice((3, 3, 4, 5))
    q = n // 2 + 1
    c = DirectCluster(n)
    random.seed(rng.random())
    lo, hi = sorted(rng.sample(range(1, n + 1), 2))
    rest = [i for i in range(1, n + 1) if i not in (lo, hi)]
    rng.shuffle(rest)
    A = set(rest[:q - 1])                       # acceptors that promise L and later accept H without a promise
    B = set(rest[q - 1:])                       # the others: they only ever hear H

    def deliver_all(pred, limit=None):
        evs = [ev for ev, em in c.pool if pred(em)]
        rng.shuffle(evs)
        for ev in evs[:limit]:
            k = next((i for i, (e2, _) in enumerate(c.pool) if e2 is ev), None)
            if k is not None and len(c.rec.steps) < max_steps and not c.rec.error:
                c.deliver(k)

    def noise():
        if c.pool and rng.random() < 0.15:
            c.deliver(rng.randrange(len(c.pool)))

    c.propose(lo, 1)
    bl = c.node(lo)._current_ballot.number
    deliver_all(lambda m: m["t"] == "prepare" and m["src"] == lo and m["dst"] in A)      # promises stay in flight
    noise()
    c.propose(hi, 2)
    bh = c.node(hi)._current_ballot.number
    deliver_all(lambda m: m["t"] == "prepare" and m["src"] == hi and m["dst"] in B | {lo})
    deliver_all(lambda m: m["t"] in ("promise", "nack") and m["dst"] == hi and m["bn"] == bh)
    noise()
    deliver_all(lambda m: m["t"] == "accept" and m["src"] == hi and m["dst"] in A)       # overtakes its Prepare
    if rng.random() < 0.5:
        deliver_all(lambda m: m["t"] == "accept" and m["src"] == hi and m["dst"] in B)
    deliver_all(lambda m: m["t"] in ("accepted", "nack") and m["dst"] == hi and m["bn"] == bh)
    noise()
    deliver_all(lambda m: m["t"] == "promise" and m["dst"] == lo and m["bn"] == bl)       # the old promises arrive
    deliver_all(lambda m: m["t"] == "accept" and m["src"] == lo and m["bn"] == bl and m["dst"] in A)   # stale Accepts
    deliver_all(lambda m: m["t"] == "accept" and m["src"] == lo and m["bn"] == bl)
    deliver_all(lambda m: m["t"] in ("accepted", "nack") and m["dst"] == lo)
    noise()
    for _ in range(2):
        deliver_all(lambda m: m["t"] == "retry" and m["dst"] == lo, limit=1)
        b2 = c.node(lo)._current_ballot.number
        deliver_all(lambda m: m["t"] == "prepare" and m["src"] == lo and m["bn"] == b2 and m["dst"] in A)
        deliver_all(lambda m: m["t"] in ("promise", "nack") and m["dst"] == lo and m["bn"] == b2)
        deliver_all(lambda m: m["t"] == "accept" and m["src"] == lo and m["bn"] == b2 and m["dst"] in A)
        deliver_all(lambda m: m["t"] in ("accepted", "nack") and m["dst"] == lo and m["bn"] == b2)
    while c.pool and len(c.rec.steps) < max_steps and not c.rec.error:
        c.deliver(rng.randrange(len(c.pool)))
    return c, {"n": n, "strat": "overtake", "lo": lo, "hi": hi, "A": sorted(A), "drained": not c.pool}
