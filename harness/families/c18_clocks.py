"""C18, clocks half: run histories on the real LamportClock / VectorClock / HybridLogicalClock
(physical time from a scripted wall_time callable or from NodeClock skew/drift models over a real
Clock) and record them for specs/clocks/ClocksTrace.tla."""
from __future__ import annotations

import re

from happysimulator.core.clock import Clock
from happysimulator.core.logical_clocks import (HLCTimestamp, HybridLogicalClock, LamportClock,
                                                VectorClock)
from happysimulator.core.node_clock import FixedSkew, LinearDrift, NodeClock
from happysimulator.core.temporal import Duration, Instant

LOCAL, SEND, RECV = 0, 1, 2
KIND = {"local": LOCAL, "send": SEND, "recv": RECV}


def nid(n):
    return f"n{n}"


def run_history(nn, events, *, readings=None, models=None, true_times=None, serialise=False):
    """events: list of (node, kind, src_event_index|0).  Physical time of event j at its node:
    readings[j] (ns, scripted wall_time) or, with `models` (per node ClockModel|None) and
    true_times[j] (ns), whatever NodeClock(model).now returns at that true time.
    Returns (trace_fields, error)."""
    ids = [nid(n) for n in range(1, nn + 1)]
    cur = {"ns": 0}
    base = Clock(Instant(0))
    lam, vcs, hlcs, ncs = {}, {}, {}, {}
    for n in range(1, nn + 1):
        lam[n] = LamportClock()
        vcs[n] = VectorClock(nid(n), list(ids))
        if models is not None:
            nc = NodeClock(models[n - 1])
            nc.set_clock(base)
            ncs[n] = nc
            hlcs[n] = HybridLogicalClock(nid(n), physical_clock=nc)
        else:
            hlcs[n] = HybridLogicalClock(nid(n), wall_time=lambda: Instant(cur["ns"]))
    msgs = {}
    pts, L, V, H = [], [], [], []
    for j, (n, k, s) in enumerate(events, start=1):
        if models is not None:
            base.update(Instant(true_times[j - 1]))
            p = ncs[n].now.nanoseconds
        else:
            p = readings[j - 1]
            cur["ns"] = p
        pts.append(p)
        if k == LOCAL:
            lam[n].tick()
            vcs[n].tick()
            ts = hlcs[n].now()
        elif k == SEND:
            lt = lam[n].send()
            vs = vcs[n].send()
            ts = hlcs[n].send()
            msgs[j] = (lt, vs, HLCTimestamp.from_dict(ts.to_dict()) if serialise else ts)
        else:
            lt, vs, rts = msgs[s]
            lam[n].receive(lt)
            vcs[n].receive(dict(vs))
            hlcs[n].receive(rts)
            ts = hlcs[n]._last
        L.append(lam[n].time)
        V.append(vcs[n].snapshot())
        H.append(ts)
    return pts, L, V, H, ids


def to_trace(tid, nn, events, pts, L, V, H, ids):
    """Physical nanoseconds -> order-preserving ranks (32-bit TLC integers)."""
    vals = sorted({0, *pts, *(h.physical_ns for h in H)})
    rank = {v: i for i, v in enumerate(vals)}
    idx = {s: i + 1 for i, s in enumerate(ids)}
    ne = len(events)
    vobjs = []
    for j in range(ne):
        o = VectorClock(ids[events[j][0] - 1], list(ids))
        o._vector = dict(V[j])
        vobjs.append(o)
    vm = [[int(bool(vobjs[i].happened_before(vobjs[j]))) for j in range(ne)] for i in range(ne)]
    hm = [[int(bool(H[i] < H[j])) for j in range(ne)] for i in range(ne)]
    extra = any(set(v) - set(ids) for v in V)
    return {"id": tid, "nn": nn, "z": rank[0],
            "ev": [[n, k, s, rank[p]] for (n, k, s), p in zip(events, pts)],
            "lam": [int(x) for x in L],
            "vc": [[int(v.get(i, -1)) for i in ids] + ([99] if extra else []) for v in V],
            "hl": [[rank[h.physical_ns], int(h.logical), idx.get(h.node_id, 0)] for h in H],
            "vm": vm, "hm": hm}


_EV = re.compile(r'k \|-> "(\w+)",\s*lam \|-> \d+,\s*n \|-> (\d+),\s*p \|-> (\d+),\s*s \|-> (\d+)')


def histories_from_dump(path, length):
    """Terminal states of a Clocks.tla `-dump`: yields [(n, kind, s, p)] of the given length."""
    buf = []

    def flush():
        if not buf:
            return None
        m = _EV.findall(" ".join(buf))
        if len(m) != length:
            return None
        return [(int(n), KIND[k], int(s), int(p)) for (k, n, p, s) in m]

    with open(path) as f:
        for ln in f:
            if ln.startswith("State ") and ln.rstrip().endswith(":"):
                h = flush()
                buf = []
                if h is not None:
                    yield h
            elif ln.strip():
                buf.append(ln.strip())
    h = flush()
    if h is not None:
        yield h


def random_history(rng, nn, ne, *, burst=False):
    """Random history: sends, receives (also duplicated / late / transitive), locals."""
    events, sends = [], []
    for j in range(1, ne + 1):
        n = rng.randint(1, nn)
        r = rng.random()
        cands = [s for s in sends if events[s - 1][0] != n]
        if cands and r < 0.45:
            s = cands[-1] if burst and rng.random() < 0.5 else rng.choice(cands)
            events.append((n, RECV, s))
        elif r < 0.8:
            events.append((n, SEND, 0))
            sends.append(j)
        else:
            events.append((n, LOCAL, 0))
    return events


def random_models(rng, nn):
    out = []
    for _ in range(nn):
        r = rng.random()
        if r < 0.2:
            out.append(None)
        elif r < 0.6:
            out.append(FixedSkew(Duration(rng.choice((-1, 1)) * rng.choice((1, 500, 10**6, 5 * 10**9)))))
        else:
            out.append(LinearDrift(rate_ppm=rng.choice((-200000.0, -1000.0, 50.0, 1000.0, 300000.0))))
    return out


def describe_models(models):
    out = []
    for m in models:
        if m is None:
            out.append("identity")
        elif isinstance(m, FixedSkew):
            out.append(f"FixedSkew({m.offset.nanoseconds}ns)")
        else:
            out.append(f"LinearDrift({m.rate_ppm}ppm)")
    return out
