"""C18, clocks half: run histories on the real LamportClock / VectorClock / HybridLogicalClock
(physical time from a scripted wall_time callable or from NodeClock skew/drift models over a real
Clock) and record them for specs/clocks/ClocksTrace.tla."""
from __future__ import annotations

import re

from happysimulator.core.clock import Clock
from happysimulator.core.logical_clocks import (HLCTimestamp, HybridLogicalClock, LamportClock,
                                                VectorClock)
from happysimulator.core.node_clock import FixedSkew, LinearDrift, NodeClock
from happysimulator.core.temporal import Duration, Instant

class HarnessLimit(RuntimeError):
    """The recorder cannot observe what it needs (private field moved): not a verdict."""


LOCAL, SEND, RECV = 0, 1, 2
KIND = {"local": LOCAL, "send": SEND, "recv": RECV}


def nid(n):
    return f"n{n}"


def _last_of(h):
    try:
        return h._last
    except AttributeError as ex:
        raise HarnessLimit("HybridLogicalClock._last not found") from ex


def membership(mode, nn, rng=None):
    """Initial node_ids (as indices) of every node's VectorClock: the full list, the nodes that
    existed when the node started (prefix), the node alone, or a random subset containing it."""
    out = []
    for n in range(1, nn + 1):
        if mode == "all":
            out.append(list(range(1, nn + 1)))
        elif mode == "prefix":
            out.append(list(range(1, n + 1)))
        elif mode == "self":
            out.append([n])
        else:
            out.append(sorted({n, *(k for k in range(1, nn + 1) if rng.random() < 0.4)}))
    return out


def run_history(nn, events, *, readings=None, models=None, true_times=None, serialise=False, member=None):
    """events: list of (node, kind, src_event_index|0).  Physical time of event j at its node:
    readings[j] (ns, scripted wall_time) or, with `models` (per node ClockModel|None) and
    true_times[j] (ns), whatever NodeClock(model).now returns at that true time.
    Returns (trace_fields, error)."""
    ids = [nid(n) for n in range(1, nn + 1)]
    cur = {"ns": 0}
    base = Clock(Instant(0))
    lam, vcs, hlcs, ncs = {}, {}, {}, {}
    for n in range(1, nn + 1):
        lam[n] = LamportClock()
        vcs[n] = VectorClock(nid(n), [nid(k) for k in member[n - 1]] if member else list(ids))
        if models is not None:
            nc = NodeClock(models[n - 1])
            nc.set_clock(base)
            ncs[n] = nc
            hlcs[n] = HybridLogicalClock(nid(n), physical_clock=nc)
        else:
            hlcs[n] = HybridLogicalClock(nid(n), wall_time=lambda: Instant(cur["ns"]))
    msgs = {}
    pts, L, V, H = [], [], [], []
    for j, (n, k, s) in enumerate(events, start=1):
        if models is not None:
            base.update(Instant(true_times[j - 1]))
            p = ncs[n].now.nanoseconds
        else:
            p = readings[j - 1]
            cur["ns"] = p
        pts.append(p)
        if k == LOCAL:
            lam[n].tick()
            vcs[n].tick()
            ts = hlcs[n].now()
        elif k == SEND:
            lt = lam[n].send()
            vs = vcs[n].send()
            ts = hlcs[n].send()
            msgs[j] = (lt, vs, HLCTimestamp.from_dict(ts.to_dict()) if serialise else ts)
        else:
            lt, vs, rts = msgs[s]
            lam[n].receive(lt)
            vcs[n].receive(dict(vs))
            hlcs[n].receive(rts)
            ts = _last_of(hlcs[n])
        L.append(lam[n].time)
        V.append(vcs[n].snapshot())
        H.append(ts)
    return pts, L, V, H, ids


def run_history_sim(nn, events, models, true_times, serialise=False, member=None):
    """The same history executed by entities inside a real Simulation: every node is an Entity that
    owns a LamportClock, a VectorClock and a HybridLogicalClock reading a NodeClock(model) which is
    fed by the simulation clock (Entity.set_clock forwarding, as node_clock.py prescribes).  Event j
    is delivered to its node at true_times[j]; same-instant events run in creation order."""
    from happysimulator.core.entity import Entity
    from happysimulator.core.event import Event
    from happysimulator.core.simulation import Simulation

    ids = [nid(n) for n in range(1, nn + 1)]
    msgs, rec = {}, {}

    class Node(Entity):
        def __init__(self, n):
            super().__init__(nid(n))
            self.n = n
            self.lam = LamportClock()
            self.vc = VectorClock(nid(n), [nid(k) for k in member[n - 1]] if member else list(ids))
            self.nc = NodeClock(models[n - 1])
            self.hlc = HybridLogicalClock(nid(n), physical_clock=self.nc)

        def set_clock(self, clock):
            super().set_clock(clock)
            self.nc.set_clock(clock)

        def handle_event(self, event):
            md = event.context["metadata"]
            j, k, s = md["j"], md["k"], md["s"]
            p = self.nc.now.nanoseconds
            if k == LOCAL:
                self.lam.tick()
                self.vc.tick()
                ts = self.hlc.now()
            elif k == SEND:
                lt, vs, ts = self.lam.send(), self.vc.send(), self.hlc.send()
                msgs[j] = (lt, vs, HLCTimestamp.from_dict(ts.to_dict()) if serialise else ts)
            else:
                lt, vs, rts = msgs[s]
                self.lam.receive(lt)
                self.vc.receive(dict(vs))
                self.hlc.receive(rts)
                ts = _last_of(self.hlc)
            rec[j] = (p, self.lam.time, self.vc.snapshot(), ts)
            return None

    nodes = [Node(n) for n in range(1, nn + 1)]
    sim = Simulation(start_time=Instant.Epoch, end_time=Instant(max(true_times) + 10), sources=[], entities=nodes)
    sim.schedule([Event(time=Instant(true_times[j - 1]), event_type="ev", target=nodes[n - 1],
                        context={"metadata": {"j": j, "k": k, "s": s}})
                  for j, (n, k, s) in enumerate(events, start=1)])
    sim.run()
    if len(rec) != len(events):
        raise RuntimeError(f"simulation delivered {len(rec)} of {len(events)} history events")
    order = range(1, len(events) + 1)
    return ([rec[j][0] for j in order], [rec[j][1] for j in order], [rec[j][2] for j in order],
            [rec[j][3] for j in order], ids)


def to_trace(tid, nn, events, pts, L, V, H, ids, member=None):
    """Physical nanoseconds -> order-preserving ranks (32-bit TLC integers)."""
    vals = sorted({0, *pts, *(h.physical_ns for h in H)})
    rank = {v: i for i, v in enumerate(vals)}
    idx = {s: i + 1 for i, s in enumerate(ids)}
    ne = len(events)
    vobjs = []
    for j in range(ne):
        o = VectorClock(ids[events[j][0] - 1], list(ids))
        o.receive(dict(V[j]))            # public way to load a snapshot ...
        try:
            o._vector = dict(V[j])       # ... without the self increment
        except AttributeError as ex:
            raise HarnessLimit("VectorClock._vector not found") from ex
        vobjs.append(o)
    vm = [[int(bool(vobjs[i].happened_before(vobjs[j]))) for j in range(ne)] for i in range(ne)]
    hm = [[int(bool(H[i] < H[j])) for j in range(ne)] for i in range(ne)]
    extra = any(set(v) - set(ids) for v in V)
    return {"id": tid, "nn": nn, "z": rank[0],
            "ev": [[n, k, s, rank[p]] for (n, k, s), p in zip(events, pts)],
            "lam": [int(x) for x in L],
            "vc": [[int(v.get(i, 0)) for i in ids] + ([99] if extra else []) for v in V],
            "k0": [list(m) for m in member] if member else [list(range(1, nn + 1)) for _ in range(nn)],
            "vk": [sorted(idx.get(k, 99) for k in v) for v in V],
            "hl": [[rank[h.physical_ns], int(h.logical), idx.get(h.node_id, 0)] for h in H],
            "vm": vm, "hm": hm}


_REC = re.compile(r"\[([^\[\]]*)\]")
_F = {f: re.compile(r"(?:^|[\s,])" + f + r' \|-> "?(\w+)"?') for f in ("n", "k", "s", "p")}


def histories_from_dump(path, length):
    """Terminal states of a Clocks.tla `-dump`: yields [(n, kind, s, p)] of the given length."""
    buf = []

    def flush():
        if not buf:
            return None
        text = " ".join(buf)
        a = text.find("ev = ")
        b = text.find("/\\", a + 1)
        recs = _REC.findall(text[a:b if b > 0 else len(text)])
        if len(recs) != length:
            return None
        out = []
        for r in recs:
            f = {k: rx.search(r).group(1) for k, rx in _F.items()}
            out.append((int(f["n"]), KIND[f["k"]], int(f["s"]), int(f["p"])))
        return out

    with open(path) as f:
        for ln in f:
            if ln.startswith("State ") and ln.rstrip().endswith(":"):
                h = flush()
                buf = []
                if h is not None:
                    yield h
            elif ln.strip():
                buf.append(ln.strip())
    h = flush()
    if h is not None:
        yield h


def random_history(rng, nn, ne, *, burst=False):
    """Random history: sends, receives (also duplicated / late / transitive), locals."""
    events, sends = [], []
    for j in range(1, ne + 1):
        n = rng.randint(1, nn)
        r = rng.random()
        cands = [s for s in sends if events[s - 1][0] != n]
        if cands and r < 0.45:
            s = cands[-1] if burst and rng.random() < 0.5 else rng.choice(cands)
            events.append((n, RECV, s))
        elif r < 0.8:
            events.append((n, SEND, 0))
            sends.append(j)
        else:
            events.append((n, LOCAL, 0))
    return events


def random_models(rng, nn):
    out = []
    for _ in range(nn):
        r = rng.random()
        if r < 0.2:
            out.append(None)
        elif r < 0.6:
            out.append(FixedSkew(Duration(rng.choice((-1, 1)) * rng.choice((1, 500, 10**6, 5 * 10**9)))))
        else:
            out.append(LinearDrift(rate_ppm=rng.choice((-200000.0, -1000.0, 50.0, 1000.0, 300000.0))))
    return out


def describe_models(models):
    out = []
    for m in models:
        if m is None:
            out.append("identity")
        elif isinstance(m, FixedSkew):
            out.append(f"FixedSkew({m.offset.nanoseconds}ns)")
        else:
            out.append(f"LinearDrift({m.rate_ppm}ppm)")
    return out
