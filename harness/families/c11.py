"""C11 - Raft: one leader per term, matching logs, durable commits, identical applies, truthful
submit futures, fault-free progress.

  1. TLC: specs/raft/RaftImpl.tla (handlers transcribed from raft.py in RaftCore.tla) must satisfy the
     contract (RaftContract.tla) with Dev={} and must violate it for every deviation switched on alone;
     the fault-free progress clause is checked as a liveness property of the fault-free sub-spec.
  2. spec -> code: behaviours of the as-code model (Dev = deviations registered as open findings) taken
     from TLC's state-graph dump are executed on real RaftNode/Network objects (direct drive).
  3. code -> spec: those executions, seeded adversarial direct-drive schedules beyond the model's bounds
     (3..5 nodes, partitions, crashes) and real Simulation runs (scripted latencies, FaultSchedule) are
     recorded and judged by RaftTrace.tla: model conformance of every handler call + every contract
     clause in every observed state.
"""
from __future__ import annotations

import json
import random
import re
from concurrent.futures import ThreadPoolExecutor

from .. import tlc, tlaval
from ..common import Check, load_known
from ..probe import quiet_logging
from . import c11_world as W
from .c11_world import ET, HB, SimWorld, World

SPEC = tlc.SPECS / "raft"
CLAUSES = ["ElectionSafety", "LogMatching", "LeaderCompleteness", "StateMachineSafety", "FutureTruth"]
INVS = CLAUSES + ["TypeOK"]

# deviation -> (contract clause it must break in the bounded model, guided scenario that reaches it)
DEVIATIONS = {
    "same_term_ae_clears_vote": dict(inv="ElectionSafety", n=3, term=1, log=0, ops=0, msgs=3, toseq=(1, 3)),
    "match_is_follower_last_index": dict(inv="LeaderCompleteness", n=3, term=3, log=1, ops=2, msgs=2,
                                         toseq=(1, 2, 1)),
    "future_keyed_by_index_only": dict(inv="FutureTruth", n=3, term=2, log=1, ops=2, msgs=2, toseq=(1, 2)),
    # needs 5 nodes and ~36 steps: directed search along RaftImpl!StaleGuide
    "stale_term_ae_response": dict(inv="LeaderCompleteness", n=5, term=4, log=2, ops=4, msgs=99, toseq=(),
                                   guide="StaleGuide"),
    # plausible regressions (never in the code so far), directed 5-node scenarios
    "commit_counts_old_term_entry": dict(inv="LeaderCompleteness", n=5, term=4, log=2, ops=4, msgs=99, toseq=(),
                                         guide="Fig8Guide"),
    "vote_tally_survives_retry": dict(inv="ElectionSafety", n=5, term=2, log=1, ops=1, msgs=99, toseq=(),
                                      guide="SplitVoteGuide"),
    "ae_replaces_suffix": dict(inv="LeaderCompleteness", n=3, term=2, log=3, ops=3, msgs=99, toseq=(),
                               guide="ReorderGuide"),
    "vote_prefers_longer_log": dict(inv="LeaderCompleteness", n=3, term=3, log=4, ops=5, msgs=99, toseq=(),
                                    guide="PartitionGuide"),
}
# directed 5-node scenarios of RaftImpl.tla: (guide, MaxTerm, MaxLog, MaxOps)
# name -> (guide, nodes, MaxTerm, MaxLog, MaxOps)
GUIDES = {"fig8": ("Fig8Guide", 5, 4, 2, 4), "splitvote": ("SplitVoteGuide", 5, 2, 1, 1),
          "stale": ("StaleGuide", 5, 4, 2, 4), "reorder": ("ReorderGuide", 3, 2, 3, 3),
          "partition": ("PartitionGuide", 3, 3, 4, 5)}
# a contract clause that fails on an execution the as-code model reproduces is attributed to a
# deviation that makes this clause fail in the model and that fired in the execution
CLAUSE_DEV = {}
for _k, _v in DEVIATIONS.items():
    CLAUSE_DEV.setdefault(_v["inv"], []).append(_k)

_COMMIT = ["match_is_follower_last_index", "stale_term_ae_response", "commit_counts_old_term_entry",
           "ae_replaces_suffix", "vote_prefers_longer_log",
           "same_term_ae_clears_vote", "vote_tally_survives_retry"]
ATTRIBUTION = {     # group -> (clauses, the only registered deviations that can break them)
    "election": (["ElectionSafety"], ["same_term_ae_clears_vote", "vote_tally_survives_retry"]),
    "future": (["FutureTruth"], ["future_keyed_by_index_only"]),
    "commit": (["LogMatching", "LeaderCompleteness", "StateMachineSafety"], _COMMIT),
}

SITES = {
    "same_term_ae_clears_vote": "raft.py:_handle_append_entries/_step_down",
    "match_is_follower_last_index": "raft.py:_handle_append_entries (match_index=last_index)",
    "future_keyed_by_index_only": "raft.py:_apply_committed/_pending_futures",
    "stale_term_ae_response": "raft.py:_handle_append_entries_response",
    "commit_counts_old_term_entry": "raft.py:_try_advance_commit",
    "vote_tally_survives_retry": "raft.py:_start_election/_step_down (_votes_received_set)",
    "ae_replaces_suffix": "raft.py:_handle_append_entries (entry reconciliation)",
    "vote_prefers_longer_log": "raft.py:_handle_request_vote (up-to-date test)",
}


# short TLC runs (seconds): C1-only JIT and few GC threads cost far less CPU than the default C2 + one GC
# thread per core; long exhaustive runs keep the optimising compiler
JVM_SHORT = {"JAVA_TOOL_OPTIONS": "-XX:ParallelGCThreads=2 -XX:TieredStopAtLevel=1"}
JVM_LONG = {"JAVA_TOOL_OPTIONS": "-XX:ParallelGCThreads=4"}


def as_code_dev():
    return sorted({e["deviation"] for e in load_known().get("open", [])
                   if e["property"] == "C11" and e.get("deviation")})


def tla_set(xs):
    return "{" + ",".join(f'"{x}"' for x in xs) + "}"


def consts(n, dev, term, log, ops, msgs, crash=0, loss=True, toseq=(), sym=False, guide="NoGuide"):
    if sym:
        nodes, nil = "{" + ",".join(f"n{i}" for i in range(1, n + 1)) + "}", "nil"
    else:
        nodes, nil = "{" + ",".join(str(i) for i in range(1, n + 1)) + "}", 0
    return {"Nodes": nodes, "Nil": nil, "Dev": tla_set(dev), "MaxTerm": term, "MaxLog": log, "MaxOps": ops,
            "MaxMsgs": msgs, "MaxCrash": crash, "Loss": "TRUE" if loss else "FALSE",
            "TOCode": int("".join(str(x) for x in toseq) or "0"), "Guide": f"<- {guide}"}


# ---------------------------------------------------------------------------
# 1. model checking

def model_check(chk, tier, known):
    wd = tlc.workdir("C11_mc")
    nw = max(2, tlc.DEFAULT_WORKERS // 2)
    jobs = []
    cex = {}

    def job(name, c, *, invs=INVS, props=("AppliedInOrder",), sym=False, spec=None, constraints=("Bounded",),
            timeout=800, workers=nw, **kw):
        cfg = tlc.write_cfg(wd / f"{name}.cfg", spec=spec, constants=c, invariants=invs, properties=props,
                            constraints=constraints, symmetry="Perms" if sym else None)
        kw.setdefault("env", JVM_SHORT)
        return name, lambda: tlc.run(SPEC / "RaftImpl.tla", cfg, label=f"C11_mc_{name}", timeout=timeout,
                                     workers=workers, **kw)

    if tier == "quick":
        safe = [("elect_t2", consts(3, [], 2, 0, 0, 3, sym=True)),
                ("repl_t2_l1", consts(3, [], 2, 1, 1, 2, sym=True)),
                ("repl_t1_l2", consts(3, [], 1, 2, 2, 2, sym=True)),
                ("crash_t1_l1", consts(3, [], 1, 1, 1, 2, crash=1, sym=True))]
    else:
        safe = [("elect_t3", consts(3, [], 3, 0, 0, 3, sym=True)),
                ("repl_t2_l1_m3", consts(3, [], 2, 1, 1, 3, sym=True)),
                ("repl_t1_l2_m3", consts(3, [], 1, 2, 2, 3, sym=True)),
                ("repl_t2_l2", consts(3, [], 2, 2, 2, 2, sym=True)),
                ("repl_t3_l1", consts(3, [], 3, 1, 2, 2, sym=True)),
                ("crash_t2_l1", consts(3, [], 2, 1, 1, 2, crash=1, sym=True)),
                ("elect_n4_t1", consts(4, [], 1, 0, 0, 4, sym=True)),
                ("elect_n5_t1", consts(5, [], 1, 0, 0, 5, sym=True)),
                ("repl_n4_t1_l1", consts(4, [], 1, 1, 1, 4, sym=True))]
    for name, c in safe:
        jobs.append(("safe",) + job(name, c, sym=True, timeout=3000 if tier != "quick" else 600,
                                    env=JVM_LONG if tier != "quick" else JVM_SHORT))
    # the directed 5-node scenarios (figure 8, split vote + retry, stale response) in the design model
    # (when no deviation is registered the state-graph dumps of model_behaviours are these very runs and
    # check the contract themselves)
    for gname, (guide, gn, term, log, ops) in GUIDES.items():
        if known:
            jobs.append(("guide",) + job("guide_" + gname, consts(gn, [], term, log, ops, 99, guide=guide),
                                         workers=2))
    for dev, d in DEVIATIONS.items():
        c = consts(d["n"], [dev], d["term"], d["log"], d["ops"], d["msgs"], toseq=d["toseq"],
                   guide=d.get("guide", "NoGuide"))
        jobs.append(("dev:" + dev,) + job("dev_" + dev, c, invs=CLAUSES, props=(), workers=max(2, nw // 2)))
    # attribution rule used by classify(): a clause can only be broken by "its" deviations - with all the
    # other registered deviations switched on the clause still holds (bounded check)
    if tier != "quick":
        for nm, (invs, culprits) in ATTRIBUTION.items():
            c = consts(3, [k for k in known if k not in culprits], 3, 1, 2, 2, toseq=(1, 2, 1))
            jobs.append(("attr:" + nm,) + job("attr_" + nm, c, invs=invs, props=()))
    # random deep behaviours of the 5-node design model (simulation mode), safety clauses only
    if tier != "quick":
        c = consts(5, [], 4, 3, 4, 10)
        jobs.append(("simulate",) + job("simulate_n5", c, invs=INVS, props=(), simulate="num=1500", depth=90,
                                        seed=chk.seed, timeout=240, env=JVM_LONG))
    # fault-free progress (liveness, no state constraint): design and code-as-is
    for nm, dv in (("design", []), ("ascode", known)) if known else (("design", []),):
        c = consts(3, dv, 1, 2 if tier == "quick" else 3, 2 if tier == "quick" else 3, 99, loss=False)
        jobs.append(("live:" + nm,) + job("live_" + nm, c, invs=CLAUSES, props=("Progress",), spec="FFSpec",
                                          constraints=(), workers=2))
    with ThreadPoolExecutor(max_workers=3 if tier == "quick" else 2) as ex:
        futs = [(kind, name, ex.submit(fn)) for kind, name, fn in jobs]
        results = [(kind, name, f.result()) for kind, name, f in futs]
    for kind, name, res in results:
        if kind == "safe":
            chk.add_tlc(f"RaftImpl Dev={{}} {name} (symmetric)", res)
            chk.require(res.ok, f"RaftImpl with Dev={{}} violates {res.violated} in {name}")
        elif kind == "guide":
            chk.add_tlc(f"RaftImpl Dev={{}} 5 nodes directed {name}", res)
            chk.require(res.ok, f"RaftImpl with Dev={{}} violates {res.violated} along {name}")
            chk.require(res.depth > 15, f"directed scenario {name} is not followed by the model (depth {res.depth})")
        elif kind == "simulate":
            mt = None
            for mt in re.finditer(r"(?:Progress: |generated: )([\d,]+) states checked, ([\d,]+) traces generated",
                                  res.stdout):
                pass
            if mt:
                chk.extra["simulation_mode_n5"] = {"states_checked": int(mt.group(1).replace(",", "")),
                                                   "traces": int(mt.group(2).replace(",", ""))}
                res.generated = res.generated or int(mt.group(1).replace(",", ""))
            chk.add_tlc("RaftImpl Dev={} 5 nodes, simulation mode (random behaviours, depth 90)", res)
            chk.require(res.ok, f"RaftImpl with Dev={{}} violates {res.violated} in simulation mode (5 nodes)")
        elif kind.startswith("dev:"):
            dev = kind[4:]
            chk.add_tlc(f"RaftImpl Dev={{{dev}}}", res, count=False, note="sensitivity run, must violate")
            chk.require(res.violated == DEVIATIONS[dev]["inv"],
                        f"deviation {dev} not caught by {DEVIATIONS[dev]['inv']} (got {res.violated})")
            chk.sensitivity[dev] = res.violated
            cex[dev] = res.trace
        elif kind.startswith("attr:"):
            invs, culprits = ATTRIBUTION[kind[5:]]
            chk.add_tlc(f"RaftImpl Dev=registered minus {culprits}", res, count=False,
                        note=f"attribution: {invs} hold without {culprits}")
            chk.require(res.ok, f"{res.violated} fails without {culprits}: attribution rule is wrong")
        else:
            chk.add_tlc(f"RaftImpl fault-free Progress ({kind[5:]})", res)
            chk.require(res.ok, f"fault-free progress fails in the model ({kind}): {res.violated}")
    return cex


# ---------------------------------------------------------------------------
# 2. spec -> code: behaviours from TLC's state graph

_EDGE = re.compile(r'^(-?\d+) -> (-?\d+) \[label="(.*?)",color')


_NODE = re.compile(r'^(-?\d+) \[label="(.*?)"(?:,style = filled)?\]')


def parse_dot_edges(path):
    """Edges, init nodes and the *raw* state text of every node (parsed lazily, only msgs/crashed)."""
    edges, inits, raw = {}, [], {}
    with open(path) as f:
        for ln in f:
            if " -> " in ln[:48]:
                m = _EDGE.match(ln)
                if m:
                    edges.setdefault(int(m.group(1)), []).append((tlc._unesc(m.group(3)), int(m.group(2))))
                continue
            m = _NODE.match(ln)
            if m:
                nid = int(m.group(1))
                raw.setdefault(nid, m.group(2))
                if "style = filled" in ln:
                    inits.append(nid)
    return tlc.Graph(raw, edges, inits)


class EdgeDecoder:
    """TLC labels an edge with the bound parameters only when the quantifier ranges over a constant set;
    message actions (\\E m \\in BagToSet(msgs)) are labelled "Next".  Their choice is recovered from the two
    end states: the message that left the bag, whether the destination was crashed, whether anything else
    changed."""

    def __init__(self, g):
        self.g = g
        self.cache = {}

    def info(self, nid):
        c = self.cache.get(nid)
        if c is None:
            parts = {}
            for chunk in tlc._unesc(self.g.nodes[nid]).split("/\\ ")[1:]:
                var, _, val = chunk.partition(" = ")
                parts[var.strip()] = val.strip()
            bag = {W.msg_key(x): (x, cnt) for x, cnt in _bag(tlaval.parse_value(parts["msgs"]))}
            c = (bag, tlaval.parse_value(parts["crashed"]), parts["nd"])
            self.cache[nid] = c
        return c

    def action(self, src, lab, dst):
        if lab != "Next":
            return parse_label(lab)
        b0, _, nd0 = self.info(src)
        b1, down, nd1 = self.info(dst)
        gone = [x for k, (x, c) in b0.items() if b1.get(k, (None, 0))[1] < c]
        if len(gone) != 1:
            raise ValueError(f"cannot recover the action of edge {src}->{dst}")
        x = gone[0]
        if x["dst"] in down:
            return "DeliverCrashed", x
        if nd0 == nd1 and sum(c for _, c in b1.values()) == sum(c for _, c in b0.values()) - 1:
            return "Drop", x
        return "Deliver", x


def to_msg(v):
    m = dict(v)
    if "ents" in m:
        m["ents"] = [dict(e) for e in m["ents"]]
    return m


def parse_label(label):
    name, args = tlc.parse_action(label)
    if name in ("Deliver", "Drop", "DeliverCrashed"):
        return name, to_msg(args[0])
    return name, args


def _bag(v):
    """TLC bag value (function msg -> count, keys frozen by tlaval) -> list of (msg dict, count)."""
    if not isinstance(v, dict):
        return []
    out = []
    for k, c in v.items():
        m = dict(k)
        if "ents" in m:
            m["ents"] = [dict(e) for e in m["ents"]]
        out.append((m, c))
    return out


def actions_from_trace(trace):
    """Environment choices of a TLC error trace [(label, state)], recovered from consecutive states
    (TLC prints bound parameters only for the node-indexed actions)."""
    acts = []
    for (_, a), (lab, b) in zip(trace, trace[1:]):
        m = re.match(r"^(\w+)\((.*)\)$", lab)
        if m and m.group(1) in ("Timeout", "Heartbeat", "Submit", "Crash", "Restart", "LoseTimer"):
            acts.append(parse_label(lab))
            continue
        before = {W.msg_key(x): (x, c) for x, c in _bag(a["msgs"])}
        after = {W.msg_key(x): c for x, c in _bag(b["msgs"])}
        gone = [x for k, (x, c) in before.items() if after.get(k, 0) < c]
        if len(gone) != 1:
            raise ValueError(f"cannot recover the action of step {lab}")
        x = gone[0]
        if x["dst"] in b["crashed"]:
            acts.append(("DeliverCrashed", x))
        elif a["nd"] == b["nd"] and sum(after.values()) == sum(c for _, c in before.values()) - 1:
            acts.append(("Drop", x))        # indistinguishable from an effect-free delivery, and equivalent
        else:
            acts.append(("Deliver", x))
    return acts


def replay_counterexample(trace, n=3):
    w = World(n)
    for name, arg in actions_from_trace(trace):
        apply_action(w, name, arg)
    return w


def apply_action(w, name, arg):
    """One environment choice of a model behaviour on the real cluster; False if inapplicable."""
    if name == "Timeout":
        return w.fire(arg[0], ET)
    if name == "Heartbeat":
        return w.fire(arg[0], HB)
    if name == "LoseTimer":
        return w.fire(arg[0], ET if arg[1] == "et" else HB)
    if name in ("Deliver", "DeliverCrashed"):
        k = w.find(arg)
        if k is None:
            w.skipped += 1
            return False
        return w.deliver(k)
    if name == "Drop":
        k = w.find(arg)
        if k is None:
            w.skipped += 1
            return False
        w.drop(k)
        return True
    if name == "Submit":
        w.submit(arg[0])
        return True
    if name == "Crash":
        w.crash(arg[0])
        return True
    if name == "Restart":
        w.restart(arg[0])
        return True
    raise ValueError(name)


def model_behaviours(chk, tier, known, rng):
    """Action sequences (root paths of the as-code model's state graph)."""
    if tier == "quick":
        confs = [("g_t2_l1", consts(3, known, 2, 1, 1, 2, toseq=(1, 2)), 240),
                 ("g_crash", consts(3, known, 1, 1, 1, 2, crash=1, toseq=(1,)), 120),
                 ("g_l2", consts(3, known, 1, 2, 2, 2, toseq=(2,)), 120)]
    else:
        confs = [("g_t2_l1", consts(3, known, 2, 1, 1, 2, toseq=(1, 2)), 100000),
                 ("g_crash", consts(3, known, 1, 1, 1, 2, crash=1, toseq=(1,)), 100000),
                 ("g_l2", consts(3, known, 1, 2, 2, 2, toseq=(2,)), 100000),
                 ("g_t2_o2", consts(3, known, 2, 1, 2, 2, toseq=(1, 3)), 4000),
                 ("g_t3", consts(3, known, 3, 1, 2, 2, toseq=(1, 2, 1)), 3000)]
    # directed 5-node scenarios: every variant of which in-flight message of the named class is delivered
    for gname, (guide, gn, term, log, ops) in GUIDES.items():
        confs.append((f"g_{gname}", consts(gn, known, term, log, ops, 99, guide=guide), 100000))
    out = []

    def dump(item):
        name, c, cap = item
        wd = tlc.workdir(f"C11_{name}")
        guided = c["Guide"] != "<- NoGuide"
        cfg = tlc.write_cfg(wd / "g.cfg", constants=c, constraints=["Bounded"],
                            invariants=INVS if guided and not known else [],
                            properties=["AppliedInOrder"] if guided and not known else [])
        res = tlc.run(SPEC / "RaftImpl.tla", cfg, label=f"C11_{name}", dump_dot=wd / "g.dot", timeout=1500,
                      env=JVM_SHORT,
                      workers=max(2, tlc.DEFAULT_WORKERS // 2))
        g = parse_dot_edges(wd / "g.dot")
        (wd / "g.dot").unlink(missing_ok=True)
        return name, cap, res, g, c["Nodes"].count(",") + 1

    with ThreadPoolExecutor(max_workers=3) as ex:
        dumps = list(ex.map(dump, confs))
    for name, cap, res, g, nn in dumps:
        directed = name[2:] in GUIDES
        chk.add_tlc(f"state graph {name} (Dev=as-code {known})" +
                    (", contract checked along the directed 5-node scenario" if directed and not known else ""),
                    res, count=directed and not known, note=f"{g.n_edges()} labelled edges")
        chk.require(g.inits and g.n_edges() > 0, f"empty state graph {name}")
        if directed:
            chk.require(res.depth > 15, f"directed scenario {name} is not followed by the model (depth {res.depth})")
            if not known:
                chk.require(res.ok, f"RaftImpl with Dev={{}} violates {res.violated} along {name}")
        paths = [(root, p) for root, p in tlc.edge_tour(g, rng=random.Random(rng.random()), max_len=60)]
        chk.extra.setdefault("graph_edges", {})[name] = g.n_edges()
        chk.extra.setdefault("tour_paths", {})[name] = len(paths)
        full = len(paths) <= cap
        if not full:
            # keep the longest-reaching paths preferentially: half longest, half random
            paths.sort(key=lambda rp: len(rp[1]), reverse=True)
            head = paths[:cap // 2]
            tail = rng.sample(paths[cap // 2:], cap - len(head))
            paths = head + tail
        chk.extra.setdefault("tour_complete", {})[name] = full
        dec = EdgeDecoder(g)
        for root, p in paths:
            acts, src = [], root
            for lab, dst in p:
                acts.append(dec.action(src, lab, dst))
                src = dst
            out.append((name, acts, nn))
    return out


def replay_behaviour(acts, n=3):
    w = World(n)
    for name, arg in acts:
        apply_action(w, name, arg)
    return w


# ---------------------------------------------------------------------------
# 3. adversarial direct-drive schedules chosen in Python (beyond the model's bounds)

def rounds_schedule(rng, n, steps):
    """Leadership rounds with partial reach: each round one node campaigns and reaches only a random subset
    of the others, replicates to another random subset, gets answers from a third; everything else stays
    in flight and may be delivered (stale) in a later round.  This is what produces logs of different
    length/term, deposed leaders that still act, votes and AppendEntries racing across terms."""
    w = World(n)
    ids = list(w.nodes)
    quorum = n // 2 + 1

    def pump(pred, p=1.0):
        # one pass, newest first; answers produced meanwhile are appended behind and not touched here
        for k in sorted((k for k, e in enumerate(w.pool) if pred(e[0])), reverse=True):
            if len(w.steps) >= steps:
                break
            if rng.random() < p:
                w.deliver(k)

    while len(w.steps) < steps:
        live = [i for i in ids if not w.is_crashed(i)]
        cands = [i for i in live if w.live(i, ET)]
        x = rng.random()
        if x < 0.08 and len(live) > quorum:
            w.crash(rng.choice(live))
            continue
        if x < 0.16:
            down = [i for i in ids if w.is_crashed(i)]
            if down:
                w.restart(rng.choice(down))
                continue
        if not cands:
            hb = [i for i in live if w.live(i, HB)]
            if not hb:
                break
            c = rng.choice(hb)
        else:
            # a candidate that lost its last election retries (candidate -> candidate) half of the time
            again = [i for i in cands if w.nodes[i].state.name == "CANDIDATE"]
            c = rng.choice(again) if again and rng.random() < 0.5 else rng.choice(cands)
            others = [i for i in ids if i != c]
            rivals = [i for i in cands if i != c]
            if rivals and rng.random() < 0.35:
                # split vote: two campaigns at once, every other node hears (at most) one of them first
                c2 = rng.choice(rivals)
                w.fire(c, ET)
                w.fire(c2, ET)
                side = {i: rng.choice((c, c2, c, c2, 0)) for i in ids if i not in (c, c2)}
                pump(lambda m: m["type"] == "RV" and m["src"] in (c, c2) and side.get(m["dst"]) == m["src"])
                pump(lambda m: m["type"] == "RVR" and m["dst"] in (c, c2), p=0.9)
                if rng.random() < 0.5:      # the other campaign's request arrives late
                    pump(lambda m: m["type"] == "RV" and m["src"] in (c, c2), p=0.5)
                    pump(lambda m: m["type"] == "RVR" and m["dst"] in (c, c2), p=0.8)
                if w.nodes[c2].is_leader and not w.nodes[c].is_leader:
                    c = c2
            else:
                reach = set(rng.sample(others, min(len(others),
                                                   rng.choice((quorum - 1, quorum - 1, n - 1, max(0, quorum - 2))))))
                w.fire(c, ET)
                pump(lambda m: m["type"] == "RV" and m["src"] == c and m["dst"] in reach)
                pump(lambda m: m["type"] == "RVR" and m["dst"] == c, p=0.9)
        if w.nodes[c].is_leader:
            # replication as a random interleaving of client submits, heartbeat ticks, deliveries to a
            # subset and answers (so a submit can race with the back-off re-send of older entries)
            others = [i for i in ids if i != c]
            for _ in range(rng.randint(2, 8)):
                if w.is_crashed(c) or not w.nodes[c].is_leader or len(w.steps) >= steps:
                    break
                y = rng.random()
                if y < 0.22:
                    if w.nops < 14:
                        w.submit(c)
                elif y < 0.42:
                    if w.live(c, HB):
                        w.fire(c, HB)
                elif y < 0.75:
                    s = set(rng.sample(others, rng.randint(1, len(others))))
                    pump(lambda m: m["type"] == "AE" and m["src"] == c and m["dst"] in s, p=0.9)
                else:
                    pump(lambda m: m["type"] == "AER" and m["dst"] == c, p=0.85)
        # stale traffic from earlier rounds
        for _ in range(rng.randint(0, 3)):
            if w.pool:
                w.deliver(rng.randrange(len(w.pool)))
        if rng.random() < 0.25:
            for _ in range(len(w.pool) // 2):
                w.drop(rng.randrange(len(w.pool)))
        if rng.random() < 0.15 and w.nops < 14:
            w.submit(rng.choice(ids))          # a client that talks to whoever (deposed leaders included)
    return w, "rounds"


# The directed 5-node scenarios of RaftImpl.tla (Fig8Guide, SplitVoteGuide, StaleGuide), mirrored here so that
# the direct drive can run them with permuted node roles, random choice among the in-flight messages of a
# class and a little noise (TLC's graphs of the same guides give the unperturbed variants).
def _g(*steps):
    return [tuple(s.split()[:1]) + tuple(int(x) if x.isdigit() else x for x in s.split()[1:]) for s in steps]


PY_GUIDES = {
    "fig8": _g("T 1", "D RV 1 2", "D RV 1 3", "D RV 1 4", "D RV 1 5", "D RVR 2 1", "D RVR 3 1",
               "S 1", "H 1", "D AE 1 2",
               "T 5", "D RV 5 3", "D RV 5 4", "D RVR 3 5", "D RVR 4 5", "S 5",
               "D AE 5 1", "T 1", "D RV 1 2 3", "D RV 1 3 3", "D RVR 2 1 3", "D RVR 3 1 3",
               "D AE 1 2 3", "D AER 2 1 3", "D AE 1 3 3", "D AER 3 1 3", "S 1", "D AE 1 3 3", "D AER 3 1 3",
               "D AE 1 5 3", "T 5", "D RV 5 2 4", "D RV 5 3 4", "D RV 5 4 4", "D RVR 2 5 4", "D RVR 3 5 4",
               "D AE 5 2 4", "D AER 2 5 4", "D AE 5 3 4", "D AER 3 5 4", "S 5", "H 5",
               "D AE 5 2 4", "D AER 2 5 4", "D AE 5 3 4", "D AER 3 5 4", "H 5",
               "D AE 5 2 4", "D AE 5 3 4", "D AE 5 1 4"),
    "splitvote": _g("T 1", "T 2", "D RV 1 3", "D RV 2 5", "D RVR 3 1", "D RVR 5 2", "T 2", "T 1",
                    "D RV 2 3 2", "D RV 2 5 2", "D RVR 3 2 2", "D RVR 5 2 2", "D RV 1 4", "D RVR 4 1",
                    "S 2", "S 1", "H 2", "H 1", "D AE 2 3", "D AE 1 4", "D AE 2 1", "D AER 1 2"),
    "stale": _g("T 1", "D RV 1 2", "D RV 1 3", "D RVR 2 1", "D RVR 3 1", "S 1", "S 1", "H 1", "D AE 1 2",
                "T 3", "D RV 3 4", "D RV 3 5", "D RVR 4 3", "D RVR 5 3", "S 3", "H 3", "D AE 3 1", "D AE 3 4",
                "D AER 1 3", "D AER 4 3", "T 1", "D RV 1 4", "D RV 1 5", "D RVR 4 1", "D RVR 5 1", "S 1",
                "D AER 2 1", "H 1", "D AE 1 4", "D AER 4 1", "D RV 1 3", "T 3", "D RV 3 2", "D RV 3 5",
                "D RVR 2 3", "D RVR 5 3"),
    "reorder": _g("T 1", "D RV 1 2", "D RVR 2 1", "S 1", "H 1", "S 1", "H 1",
                  "D AE 1 2", "D AER 2 1", "D AE 1 2", "D AE 1 2",
                  "T 2", "D RV 2 3 2", "D RVR 3 2 2", "S 2", "H 2", "D AE 2 3", "D AER 3 2", "D AE 2 3",
                  "D AER 3 2"),
    "partition": _g("T 1", "D RV 1 2", "D RVR 2 1", "S 1", "S 1", "S 1",
                    "T 2", "D RV 2 3 2", "D RVR 3 2 2", "S 2", "H 2", "D AE 2 3 2", "D AER 3 2 2", "D AE 2 3 2",
                    "D AER 3 2 2", "H 2", "D AE 2 3 2", "H 1", "D AE 1 3 1", "D AER 3 1 2",
                    "T 1", "D RV 1 3 3", "D RVR 3 1 3", "D RV 1 2 3", "D RVR 2 1 3",
                    "S 1", "H 1", "D AE 1 3 3", "D AER 3 1 3", "D AE 1 3 3", "D AER 3 1 3"),
}
PY_GUIDE_N = {"fig8": 5, "splitvote": 5, "stale": 5, "reorder": 3, "partition": 3}


def guided_schedule(rng, which, noise=0.05):
    """One of the directed scenarios on a real 5-node cluster, roles permuted."""
    w = World(PY_GUIDE_N[which])
    perm = list(w.nodes)
    rng.shuffle(perm)
    p = {i + 1: perm[i] for i in range(len(perm))}
    for st in PY_GUIDES[which]:
        if rng.random() < noise and w.pool:                       # noise: a stray delivery or a loss
            k = rng.randrange(len(w.pool))
            w.deliver(k) if rng.random() < 0.6 else w.drop(k)
        if st[0] == "T":
            w.fire(p[st[1]], ET)
        elif st[0] == "H":
            w.fire(p[st[1]], HB)
        elif st[0] == "S":
            if w.nodes[p[st[1]]].is_leader or rng.random() < 0.3:
                w.submit(p[st[1]])
        else:
            _, typ, src, dst = st[:4]
            ks = [k for k, e in enumerate(w.pool)
                  if (e[0]["type"], e[0]["src"], e[0]["dst"]) == (typ, p[src], p[dst])
                  and (len(st) < 5 or e[0]["term"] == st[4])]
            if not ks and len(st) == 5:                          # the code may be in another term than the model
                ks = [k for k, e in enumerate(w.pool) if (e[0]["type"], e[0]["src"], e[0]["dst"]) == (typ, p[src], p[dst])]
            if ks:
                w.deliver(ks[-1] if rng.random() < 0.6 else rng.choice(ks))
            else:
                w.skipped += 1
    return w, "guided:" + which


def random_schedule(rng, n, steps, *, partitions=True, crashes=True, style=None):
    style = style or rng.choice(("storm", "stale", "churn", "calm", "rounds", "rounds", "rounds"))
    if style == "rounds":
        return rounds_schedule(rng, n, steps)
    w = World(n)
    part = None
    p_to = {"storm": 0.22, "stale": 0.10, "churn": 0.15, "calm": 0.05}[style]
    p_drop = {"storm": 0.08, "stale": 0.05, "churn": 0.12, "calm": 0.02}[style]
    for _ in range(steps):
        r = rng.random()
        live = [i for i in w.nodes if not w.is_crashed(i)]
        leaders = [i for i in live if w.nodes[i].is_leader]
        if r < p_to:
            cands = [i for i in w.nodes if w.live(i, ET)]
            if cands:
                w.fire(rng.choice(cands), ET)
                continue
        r = rng.random()
        if r < 0.10:
            hb = [i for i in w.nodes if w.live(i, HB)]
            if hb:
                w.fire(rng.choice(hb), HB)
                continue
        if r < 0.22:
            # clients submit mostly to leaders (also deposed ones), sometimes to anyone
            tgt = rng.choice(leaders) if leaders and rng.random() < 0.85 else rng.choice(list(w.nodes))
            if w.nops < 12:
                w.submit(tgt)
                continue
        if r < 0.22 + p_drop and w.pool:
            w.drop(rng.randrange(len(w.pool)))
            continue
        if crashes and r < 0.22 + p_drop + 0.03:
            down = [i for i in w.nodes if w.is_crashed(i)]
            if down and rng.random() < 0.6:
                w.restart(rng.choice(down))
            elif len(down) < (n - 1) // 2 + (1 if style == "churn" else 0):
                w.crash(rng.choice(live))
            continue
        if partitions and r < 0.22 + p_drop + 0.06:
            if part is not None:
                part.heal()
                part = None
            else:
                k = rng.randint(1, n // 2)
                a = rng.sample(list(w.nodes), k)
                b = [i for i in w.nodes if i not in a]
                part = w.net.partition([w.nodes[i] for i in a], [w.nodes[i] for i in b],
                                       asymmetric=rng.random() < 0.3)
            continue
        if w.pool:
            if style == "stale" and rng.random() < 0.5:
                k = rng.randrange(len(w.pool))          # any message, old ones included
            elif rng.random() < 0.7:
                k = rng.randrange(max(0, len(w.pool) - 4), len(w.pool))   # recent
            else:
                k = rng.randrange(len(w.pool))
            w.deliver(k)
        else:
            cands = [i for i in w.nodes if w.live(i, HB)] or [i for i in w.nodes if w.live(i, ET)]
            if cands:
                i = rng.choice(cands)
                w.fire(i, HB if w.live(i, HB) else ET)
    return w, style


# ---------------------------------------------------------------------------
# 4. real Simulation runs

def sim_run(rng, n, *, kind):
    """One real Simulation with the real Network.  kind: adversarial | scenario | faultfree"""
    from happysimulator.core.event import Event
    from happysimulator.core.temporal import Instant
    from happysimulator.faults.network_faults import NetworkPartition
    from happysimulator.faults.node_faults import CrashNode, PauseNode
    from happysimulator.faults.schedule import FaultSchedule
    lr = random.Random(rng.random())
    meta = {"kind": kind, "n": n}
    if kind == "faultfree":
        hb = lr.choice((0.5, 0.3))
        emin, emax = lr.choice(((1.5, 3.0), (1.0, 2.0)))
        dmax = lr.choice((0.002, 0.02, hb / 5))
        draw = lambda: lr.uniform(0.0002, dmax)        # noqa: E731
        loss, duration = 0.0, 24.0
    elif kind == "scenario":
        hb, (emin, emax) = 0.3, (1.0, 2.0)
        draw, loss, duration = None, 0.0, 18.0
    else:
        hb = lr.choice((0.5, 0.25, 0.15))
        emin, emax = lr.choice(((1.5, 3.0), (1.0, 1.01), (0.6, 0.62), (0.4, 0.8)))
        mode = lr.choice(("bimodal", "wide", "burst"))

        def draw():
            x = lr.random()
            if mode == "bimodal":
                return lr.uniform(0.001, 0.02) if x < 0.8 else lr.uniform(0.3, 2.5)
            if mode == "wide":
                return lr.uniform(0.0, 1.2)
            return lr.choice((0.0, 0.0, 0.001, 0.05, 0.7, 1.6))
        loss = lr.choice((0.0, 0.0, 0.05, 0.2))
        duration = lr.choice((7.0, 10.0))
        meta.update(mode=mode)
    meta.update(hb=hb, emin=emin, emax=emax, loss=loss, duration=duration)
    factory = None
    if kind == "scenario":
        from happysimulator.components.network.conditions import datacenter_network
        factory = lambda name: datacenter_network(name=name)   # noqa: E731
    sw = SimWorld(n, latency_draw=draw, loss=loss, link_factory=factory, sim_seed=lr.randrange(1 << 30),
                  election_timeout_min=emin, election_timeout_max=emax, heartbeat_interval=hb)
    try:
        fs = None
        names = [W.node_name(i) for i in range(1, n + 1)]
        if kind != "faultfree":
            fs = FaultSchedule()
            nf = lr.randint(0, 3) if kind == "adversarial" else 1
            faults = []
            for _ in range(nf):
                t0 = lr.uniform(1.0, duration * 0.7)
                t1 = t0 + lr.uniform(0.3, 4.0)
                x = lr.random()
                if x < 0.4:
                    k = lr.randint(1, max(1, n // 2))
                    a = lr.sample(names, k)
                    b = [z for z in names if z not in a]
                    fs.add(NetworkPartition(a, b, t0, t1, asymmetric=lr.random() < 0.3))
                    faults.append(["partition", a, round(t0, 3), round(t1, 3)])
                elif x < 0.8:
                    v = lr.choice(names)
                    fs.add(CrashNode(v, at=t0, restart_at=t1 if lr.random() < 0.8 else None))
                    faults.append(["crash", v, round(t0, 3), round(t1, 3)])
                else:
                    v = lr.choice(names)
                    fs.add(PauseNode(v, start=t0, end=t1))
                    faults.append(["pause", v, round(t0, 3), round(t1, 3)])
            meta["faults"] = faults
        sim = sw.build(duration, fault_schedule=fs)
        submitted = []          # (op, node, established) in submission order

        def established():
            ls = [i for i in sw.nodes if sw.nodes[i].is_leader]
            if len(ls) != 1:
                return None
            ld = sw.nodes[ls[0]]
            for j, nd in sw.nodes.items():
                if j != ls[0] and not (nd.state.name == "FOLLOWER" and nd.current_term == ld.current_term
                                       and nd.current_leader == ld.name):
                    return None
            return ls[0]

        def client(ev):
            if kind == "faultfree":
                i = established()
                if i is None:
                    return None
                for _ in range(lr.choice((1, 1, 2, 3))):        # same-instant bursts too
                    submitted.append((sw.submit(i), i, True))
                return None
            ls = [i for i in sw.nodes if sw.nodes[i].is_leader]
            i = lr.choice(ls) if ls and lr.random() < 0.85 else lr.randint(1, n)
            submitted.append((sw.submit(i), i, False))
            return None

        nsub = lr.randint(3, 8)
        horizon = duration - (12.0 if kind == "faultfree" else 1.0)
        for _ in range(nsub):
            t = lr.uniform(0.5, horizon) if kind != "faultfree" else lr.uniform(6.0, horizon)
            sim.schedule(Event.once(time=Instant.from_seconds(t), event_type="client.submit", fn=client,
                                    daemon=True))
        # keep the run alive until `duration` (all raft events are daemons)
        sim.schedule(Event.once(time=Instant.from_seconds(duration), event_type="end", fn=lambda e: None))
        sim.run()
        meta["events"] = sw.events_seen
        meta["submitted"] = submitted
        prog = None
        if kind == "faultfree":
            ops = [op for op, _, _ in submitted]
            bad = []
            for i in sw.nodes:
                if list(sw.sms[i].applied) != ops:
                    bad.append(f"n{i} applied {list(sw.sms[i].applied)} expected {ops}")
            resolved = {s["res"][k][0]: s["res"][k][1] for s in sw.steps if s.get("res") for k in range(len(s["res"]))}
            for pos, op in enumerate(ops, start=1):
                if resolved.get(op) != pos:
                    bad.append(f"future of op {op} resolved with index {resolved.get(op)} expected {pos}")
            prog = bad
        return sw, meta, prog
    finally:
        sw.close()


def sim_directed(rng, which):
    """Directed shapes inside a real Simulation (3 nodes, real Network, real timers).  A polling client watches
    public state and steers only the environment: link delays, a partition, client submits.
      reorder    two AppendEntries of one term reach a follower in reverse order (the first is slow), the
                 third node hears nothing; then the leader is cut off and the follower is elected
      partition  the leader is cut off and keeps accepting commands; the majority elects a new leader and
                 commits a shorter log; after the heal the new leader's link to the old one is slow, so the
                 old leader (longer, older log) times out first and asks for votes"""
    from happysimulator.components.network.link import NetworkLink
    from happysimulator.core.event import Event
    from happysimulator.core.temporal import Instant
    lr = random.Random(rng.random())
    delays, const = {}, {}

    def factory(name):
        def draw():
            q = delays.get(name)
            if q:
                return q.pop(0)
            return const.get(name, lr.uniform(0.002, 0.008))
        return NetworkLink(name=name, latency=W.ScriptedLatency(draw))

    hb = 0.5
    sw = SimWorld(3, latency_draw=None, link_factory=factory, sim_seed=lr.randrange(1 << 30),
                  election_timeout_min=3.0, election_timeout_max=4.0, heartbeat_interval=hb)
    try:
        duration = 30.0
        sim = sw.build(duration)
        st = {"phase": 0, "t": 0.0, "h": 0}
        nm = W.node_name

        def established():
            ls = [i for i in sw.nodes if sw.nodes[i].is_leader]
            if len(ls) != 1:
                return None
            ld = sw.nodes[ls[0]]
            ok = all(nd.state.name == "FOLLOWER" and nd.current_term == ld.current_term
                     for j, nd in sw.nodes.items() if j != ls[0])
            return ls[0] if ok else None

        def ticks(i):
            return sum(1 for s in sw.steps if s["a"] == "H" and s.get("n") == i)

        def poll(ev):
            now = ev.time.to_seconds()
            ph = st["phase"]
            if ph == 0 and now >= 5.0:
                ld = established()
                if ld is not None:
                    others = [i for i in sw.nodes if i != ld]
                    lr.shuffle(others)
                    st.update(L=ld, F=others[0], V=others[1], phase=1)
                    if which == "reorder":
                        const[f"{nm(ld)}>{nm(others[1])}"] = 8.0          # the third node hears nothing more
                        delays[f"{nm(ld)}>{nm(others[0])}"] = [0.6]        # the next request to F is slow
                        sw.submit(ld)
                        st["h"] = ticks(ld)
                    else:
                        st["part"] = sw.net.partition([sw.nodes[ld]], [sw.nodes[i] for i in others])
                        for _ in range(3):
                            sw.submit(ld)
            elif which == "reorder":
                ld = st.get("L")
                if ph == 1 and ticks(ld) > st["h"]:
                    sw.submit(ld)
                    st.update(h=ticks(ld), phase=2)
                elif ph == 2 and ticks(ld) > st["h"]:
                    st.update(t=now, phase=3)
                elif ph == 3 and now >= st["t"] + 0.25:
                    sw.net.partition([sw.nodes[ld]], [sw.nodes[st["F"]], sw.nodes[st["V"]]])
                    st["phase"] = 4
                elif ph == 4:
                    new = [i for i in (st["F"], st["V"]) if sw.nodes[i].is_leader
                           and sw.nodes[i].current_term > sw.nodes[ld].current_term]
                    if new:
                        sw.submit(new[0])
                        st["phase"] = 5
            else:
                ld = st.get("L")
                if ph == 1:
                    new = [i for i in (st["F"], st["V"]) if sw.nodes[i].is_leader
                           and sw.nodes[i].current_term > sw.nodes[ld].current_term]
                    if new:
                        st.update(N=new[0], W=[i for i in (st["F"], st["V"]) if i != new[0]][0], t=now, phase=2)
                        sw.submit(new[0])
                elif ph == 2 and (all(sw.nodes[i].log.commit_index >= 1 for i in (st["N"], st["W"]))
                                  or now > st["t"] + 2.5):
                    const[f"{nm(st['N'])}>{nm(ld)}"] = 9.0      # the new leader's heartbeats reach the old one late
                    st["part"].heal()
                    st["phase"] = 3
            if now + 0.01 < duration:
                return Event.once(time=Instant.from_seconds(now + 0.01), event_type="client.poll", fn=poll,
                                  daemon=True)
            return None

        sim.schedule(Event.once(time=Instant.from_seconds(4.0), event_type="client.poll", fn=poll, daemon=True))
        sim.schedule(Event.once(time=Instant.from_seconds(duration), event_type="end", fn=lambda e: None))
        sim.run()
        meta = {"kind": "directed:" + which, "n": 3, "events": sw.events_seen, "phase_reached": st["phase"]}
        return sw, meta, None
    finally:
        sw.close()


# ---------------------------------------------------------------------------
# 5. trace validation (RaftTrace.tla is the judge)

_VLINE = re.compile(r'<<\s*"V",\s*(\d+),\s*"([^"]+)",\s*(\d+),\s*(\d+),\s*"([^"]*)",\s*"([^"]*)"\s*>>')


def validate(traces_by_n, dev, label, chunk=7000):
    """traces_by_n: {n: [trace dict]} -> {id: (verdict, pos, mpos, [(clause, pos)])}, [TLCResult]"""
    wd = tlc.WORK / label
    wd.mkdir(parents=True, exist_ok=True)
    work = []
    for n, traces in traces_by_n.items():
        cfg = tlc.write_cfg(wd / f"trace_n{n}.cfg", spec="Spec", constants={
            "Nodes": "{" + ",".join(str(i) for i in range(1, n + 1)) + "}", "Nil": 0, "Dev": tla_set(dev)})
        part, size, k = [], 0, 0
        for t in traces:                      # chunks balanced by number of steps
            part.append(t)
            size += len(t["steps"]) + 5
            if size >= chunk:
                work.append((n, k, cfg, part))
                part, size, k = [], 0, k + 1
        if part:
            work.append((n, k, cfg, part))

    def one(item):
        n, k, cfg, part = item
        lab = f"{label}_n{n}_{k}"
        d = tlc.WORK / lab
        d.mkdir(parents=True, exist_ok=True)
        f = d / "traces.json"
        f.write_text(json.dumps(part, separators=(",", ":")))
        res = tlc.run(SPEC / "RaftTrace.tla", cfg, label=lab, workers=1, timeout=3000, heap="2g",
                      env=dict(JVM_SHORT, TRACE_FILE=str(f)))
        got = {}
        flat = re.sub(r"\s*\n\s*", " ", res.stdout)      # TLC wraps long PrintT values
        for mt in _VLINE.finditer(flat):
            fl = [(c.split(":")[0], int(c.split(":")[1])) for c in mt.group(5).split(";") if c]
            fd = {c.split(":")[0]: int(c.split(":")[1]) for c in mt.group(6).split(";") if c}
            got[int(mt.group(1))] = (mt.group(2), int(mt.group(3)), int(mt.group(4)), fl, fd)
        miss = [t["id"] for t in part if t["id"] not in got]
        if miss:
            raise tlc.TLCFailure(f"{lab}: no verdict for traces {miss[:3]} (see {d / 'tlc.out'})")
        f.unlink()
        return got, res

    verdicts, results = {}, []
    with ThreadPoolExecutor(max_workers=max(2, min(5, tlc.DEFAULT_WORKERS // 3))) as ex:
        for got, res in ex.map(one, work):
            verdicts.update(got)
            results.append(res)
    return verdicts, results


def culprit(clause, pos, verdict, devset):
    """Deviation of devset that explains `clause` failing at step pos of an execution judged under Dev=devset:
    the model reproduced the execution up to there and a deviation able to break the clause fired before."""
    _, _, mpos, fl, first_fire = verdict
    if not (mpos == 0 or mpos > pos):
        return None
    double = ["same_term_ae_clears_vote", "vote_tally_survives_retry"]
    if clause == "ElectionSafety":
        cands = double
    elif clause == "FutureTruth":
        cands = ["future_keyed_by_index_only"]
    else:
        # wrong commits; a double leader explains them only if it was actually observed before
        cands = ["match_is_follower_last_index", "stale_term_ae_response", "commit_counts_old_term_entry",
                 "ae_replaces_suffix", "vote_prefers_longer_log"]
        if any(c == "ElectionSafety" and p <= pos for c, p in fl):
            # same index and term, different entry = two leaders of a term
            cands = double + cands if clause == "LogMatching" else cands + double
    hit = [d for d in cands if d in devset and 0 < first_fire.get(d, 0) <= pos]
    return hit[0] if hit else None


def classify(chk, failing, traces, meta, known):
    """failing: {tid: (verdict, pos, mpos, [(clause, first step)], {deviation: first step it fired})}, judged
    by RaftTrace.tla under Dev = registered deviations.
    A clause failing at a step before any model mismatch belongs to an execution the as-code model
    reproduces exactly.  It is a known finding (key = deviation) only if a registered deviation that is able to
    break this clause (ATTRIBUTION, checked by TLC in the thorough tier) fired at or before that step, i.e.
    switching it off would have changed what the handlers computed in this very execution.
    Failures not explained that way are judged again with each deviation of the spec that is NOT registered
    (e.g. a finding that was fixed and has reappeared) switched on in addition: if that model reproduces the
    execution and the deviation is a culprit, the VIOLATION is keyed by that deviation; otherwise by the
    clause name."""
    todo = [(tid, clause, pos) for tid, v in sorted(failing.items()) for clause, pos in v[3]
            if culprit(clause, pos, v, known) is None]
    alt = {}
    if todo:
        by_n = {}
        for tid in sorted({t for t, _, _ in todo}):
            by_n.setdefault(meta[tid]["n"], []).append(traces[tid])
        extra = [d for d in DEVIATIONS if d not in known]
        with ThreadPoolExecutor(max_workers=3) as ex:
            outs = list(ex.map(lambda d: validate(by_n, sorted(known + [d]), f"C11_reattr_{d[:14]}"), extra))
        for d, (vd, r2) in zip(extra, outs):
            alt[d] = vd
            for r in r2:
                chk.add_tlc(f"RaftTrace Dev=registered + {d} (attribution of unexplained failures)", r,
                            count=False)
    for tid, v in sorted(failing.items()):
        verdict, pos0, mpos, fl, first_fire = v
        for clause, pos in fl:
            st = traces[tid]["steps"][pos - 1]
            what = (f"PROP:{clause} at step {pos} ({st['a']} on n{st.get('n', '?')}) of a "
                    f"{meta[tid]['origin']} execution ({meta[tid]['n']} nodes)")
            replay = {"meta": meta[tid], "trace": traces[tid], "verdict": [verdict, pos0, mpos, fl, first_fire]}
            d = culprit(clause, pos, v, known)
            if d:
                chk.violation(d, f"{what}; the model with the registered deviations reproduces the execution "
                                 f"exactly, deviation {d} ({SITES.get(d, '')}) fired at step {first_fire[d]}",
                              replay)
                continue
            for d2, v2 in alt.items():
                if tid in v2 and culprit(clause, pos, v2[tid], sorted(known + [d2])) == d2:
                    chk.violation(d2, f"{what}; reproduced exactly by the model with the UNREGISTERED deviation "
                                      f"{d2} ({SITES.get(d2, '')}) switched on, which fired at step "
                                      f"{v2[tid][4][d2]}", replay)
                    break
            else:
                if not (mpos == 0 or mpos > pos):
                    ms = traces[tid]["steps"][mpos - 1]
                    kind = {"T": "election_timeout", "H": "heartbeat_tick", "S": "submit"}.get(
                        ms["a"], ms["a"] + "_" + (ms.get("m") or {}).get("type", ""))
                    key = f"{clause}:code_left_model_at_{kind}"
                    why = (f"code and model first disagree at step {mpos} ({ms['a']} on n{ms.get('n', '?')}, "
                           f"handler of {kind})")
                else:
                    key = clause
                    why = "the model reproduces it, but no registered deviation able to break this clause fired"
                chk.violation(key, f"{what}; {why}", replay)


# ---------------------------------------------------------------------------

def run(tier, seed, replay=None):
    quiet_logging()
    chk = Check("C11", tier, seed)
    rng = random.Random(seed)
    known = as_code_dev()
    quick = tier == "quick"

    if replay:
        return run_replay(chk, replay, known)

    import time
    t0 = time.time()
    phase = chk.extra.setdefault("phase_wall_s", {})
    # TLC work (subprocesses) runs concurrently with the Python drivers of the real code
    bg = ThreadPoolExecutor(max_workers=2)
    f_mc = bg.submit(model_check, chk, tier, known)
    f_beh = bg.submit(model_behaviours, chk, tier, known, random.Random(rng.random()))

    # Executions of the real code are judged in batches by RaftTrace.tla while later ones are still being
    # produced; a batch is dropped from memory once judged (replay files keep what is needed).
    meta, verdicts_all = {}, {}
    state = {"cur": {}, "steps": 0, "tid": 0}
    batches = []
    vpool = ThreadPoolExecutor(max_workers=2)
    batch_steps = 14000 if quick else 60000

    def flush():
        if not state["cur"]:
            return
        b, state["cur"], state["steps"] = state["cur"], {}, 0
        by_n = {}
        for tid, t in b.items():
            by_n.setdefault(meta[tid]["n"], []).append(t)
        batches.append((b, vpool.submit(validate, by_n, known, f"C11_trace_b{len(batches)}")))

    def add(trace_owner, origin, n, **extra):
        state["tid"] += 1
        tid = state["tid"]
        state["cur"][tid] = trace_owner.trace(tid)
        state["steps"] += len(trace_owner.steps)
        meta[tid] = dict(origin=origin, n=n, **extra)
        chk.impl_steps += len(trace_owner.steps)
        for note in trace_owner.notes[:3]:
            chk.note_drift(f"trace {tid} ({origin}): {note}")
        if state["steps"] >= batch_steps:
            flush()
        return tid

    # code -> spec, real Simulation (long traces first: their validation overlaps everything else)
    n_sim = 16 if quick else 120
    n_ff = 5 if quick else 30
    prog_fail = {}
    sim_events = 0
    for k in range(n_sim):
        kind = "scenario" if k % 12 == 0 else "adversarial"
        sub = rng.randrange(1 << 30)
        sw, m, _ = sim_run(random.Random(sub), (3, 5, 3, 4)[k % 4], kind=kind)
        sim_events += m["events"]
        add(sw, f"sim:{kind}", sw.n, sim=m, sub=sub, kind=kind)
    for k in range(n_ff):
        sub = rng.randrange(1 << 30)
        sw, m, prog = sim_run(random.Random(sub), (3, 5, 4)[k % 3], kind="faultfree")
        sim_events += m["events"]
        tid = add(sw, "sim:faultfree", sw.n, sim=m, sub=sub, kind="faultfree")
        if prog:
            prog_fail[tid] = prog
    # directed shapes inside a real Simulation (same-term AppendEntries reordering + leader change; partitioned
    # leader with a longer, older log that times out first after the heal)
    n_dir = 3 if quick else 12
    for which in ("reorder", "partition"):
        for k in range(n_dir):
            sub = rng.randrange(1 << 30)
            sw, m, _ = sim_directed(random.Random(sub), which)
            sim_events += m["events"]
            add(sw, f"sim:directed:{which}", 3, sim=m, sub=sub, which=which)
    chk.extra["simulation_events"] = sim_events
    chk.extra["simulation_runs"] = n_sim + n_ff + 2 * n_dir
    chk.extra["faultfree_runs"] = n_ff
    flush()

    # code -> spec, direct drive
    n_rand = 320 if quick else 2200
    styles = {}
    for k in range(n_rand):
        n = (3, 3, 5, 4)[k % 4]
        sub, steps = rng.randrange(1 << 30), rng.randint(25, 90) if quick else rng.randint(30, 160)
        w, style = random_schedule(random.Random(sub), n, steps)
        styles[style] = styles.get(style, 0) + 1
        add(w, f"random:{style}", n, sub=sub, steps=steps)
    # directed 5-node scenarios (figure 8, split vote + retry, stale response) with permuted roles and noise
    n_guided = 20 if quick else 200
    for which in PY_GUIDES:
        for k in range(n_guided):
            sub = rng.randrange(1 << 30)
            w, style = guided_schedule(random.Random(sub), which, noise=0.0 if k < 3 else 0.05)
            styles[style] = styles.get(style, 0) + 1
            add(w, f"random:{style}", w.n, sub=sub, which=which, noise=0.0 if k < 3 else 0.05)
    chk.extra["random_schedules"] = styles
    flush()
    phase["python_drivers"] = round(time.time() - t0, 1)

    # spec -> code: behaviours of the as-code model's state graph
    skipped = 0
    for gname, acts, nn in f_beh.result():
        w = replay_behaviour(acts, nn)
        skipped += w.skipped
        add(w, f"model:{gname}", nn, acts=acts)
        chk.replays += 1
    phase["graph_replays_done"] = round(time.time() - t0, 1)
    # spec -> code: TLC's counterexample for every deviation, executed on the real nodes (R1: a deviation
    # is a finding only if the real objects reach the bad state)
    cex = f_mc.result()
    bg.shutdown()
    phase["model_checking_done"] = round(time.time() - t0, 1)
    cex_tid = {}
    for dev, tr in cex.items():
        acts = actions_from_trace(tr)
        w = replay_behaviour(acts, DEVIATIONS[dev]["n"])
        skipped += w.skipped if dev in known else 0
        cex_tid[dev] = add(w, f"model:counterexample:{dev}", DEVIATIONS[dev]["n"], acts=acts)
        chk.replays += 1
    chk.extra["model_choices_inapplicable_on_code"] = skipped
    if skipped:
        chk.note_drift(f"{skipped} environment choices of model behaviours were not applicable on the real nodes")
    flush()

    n_fail = n_drift = 0
    for b, fut in batches:
        verdicts, results = fut.result()
        for r in results:
            chk.add_tlc(f"RaftTrace batch (Dev=as-code {known})", r)
        failing = {tid: v for tid, v in verdicts.items() if v[3]}
        n_fail += len(failing)
        for tid, v in sorted(verdicts.items()):
            verdicts_all[tid] = v[:3]
            if v[2] != 0:           # code and model disagreed somewhere (also in traces with a contract failure)
                n_drift += 1
                chk.note_drift(f"trace {tid} ({meta[tid]['origin']}): "
                               f"{v[0] if v[0].startswith('MODEL:') else 'model mismatch'} at step {v[2]}")
        if failing:
            classify(chk, failing, b, meta, known)
        for tid, prog in prog_fail.items():
            if tid in b and not verdicts[tid][3]:          # no safety failure reported for this run
                chk.violation("progress_fault_free", f"fault-free run (delays << election timeout): {prog[0]}",
                              {"meta": meta[tid], "trace": b[tid], "progress": prog})
        want = [tid for tid in b if len(chk.samples) < 4 and
                (meta[tid]["origin"].split(":")[0] not in {s["origin"].split(":")[0] for s in chk.samples})]
        for tid in want[:1] + sorted(failing)[:1]:
            chk.sample({"origin": meta[tid]["origin"], "verdict": list(verdicts[tid][:3]), "n": meta[tid]["n"],
                        "steps": [{k: v for k, v in s.items() if k in ("a", "n", "m", "op", "w", "res")}
                                  for s in b[tid]["steps"][:30]]})
        b.clear()
    vpool.shutdown()
    chk.impl_traces = len(verdicts_all)
    phase["traces_validated"] = round(time.time() - t0, 1)
    chk.extra["counterexample_on_real_nodes"] = {d: list(verdicts_all[t]) for d, t in cex_tid.items()}
    for d, t in cex_tid.items():
        if d in known and verdicts_all[t][0] == "ACCEPT":
            chk.note_drift(f"registered deviation {d}: TLC's counterexample no longer fails on the real nodes; "
                           f"the finding may have been fixed")
    chk.extra["traces_accepted"] = sum(1 for v in verdicts_all.values() if v[0] == "ACCEPT")
    chk.extra["traces_with_contract_failure"] = n_fail
    chk.extra["traces_with_model_mismatch_only"] = n_drift
    chk.extra["verdict_histogram"] = _hist(v[0] for v in verdicts_all.values())
    # exhaustive = every edge of the three small as-code state graphs was executed on the real nodes
    tc = chk.extra.get("tour_complete", {})
    chk.exhaustive = bool(tc) and all(tc.get(g, False) for g in ("g_t2_l1", "g_crash", "g_l2"))
    chk.extra["exhaustive_scope"] = ("edge tour of state graphs g_t2_l1 (3 nodes, terms<=2, log<=1, 1 op, <=2 msgs, "
                                     "timeouts n1 then n2), g_crash (term 1, 1 crash), g_l2 (term 1, log<=2, 2 ops) "
                                     "of the as-code model; TLC runs listed in tlc_runs are exhaustive within their "
                                     "constants")
    chk.assumptions = [
        "nodes 1..N with N in 3..5; commands are distinct integers (op ids); state machine = recorder",
        "crash = the repository's CrashNode/PauseNode (_crashed flag: state retained, deliveries and timers dropped)",
        "the network may delay, reorder and lose but never duplicates or forges messages (checked per trace "
        "as model conformance: every delivered message was sent and not delivered before)",
        "timeouts are untimed in the model and in the direct drive (any election-timeout draw, any delay); "
        "real timing only in the Simulation runs",
        "progress clause: delays below heartbeat_interval/5, no faults, submissions only to a leader that every "
        "other node already follows in the same term, 12 s of simulated time to settle",
    ]
    chk.explanation = (
        "TLC explores RaftImpl (handlers transcribed from raft.py) exhaustively within the listed bounds with "
        "Dev={} (contract holds) and with each deviation alone (named clause violated). The same handlers are "
        "evaluated by RaftTrace.tla on the observed pre-state of every real handler call (state, outputs, "
        "resolved futures must match) and every contract clause is evaluated on every observed state. "
        "Contract failures reproduced exactly by the as-code model are attributed to the registered deviation.")
    return chk.finish()


def _hist(it):
    h = {}
    for x in it:
        h[x] = h.get(x, 0) + 1
    return h


def run_replay(chk, path, known):
    data = json.loads(open(path).read())
    rp = data["replay"]
    m = rp["meta"]
    origin = m["origin"]
    if origin.startswith("model"):
        w = replay_behaviour(m["acts"], m["n"])
        t = w.trace(1)
    elif origin.startswith("random:guided"):
        w, _ = guided_schedule(random.Random(m["sub"]), m["which"], noise=m["noise"])
        t = w.trace(1)
    elif origin.startswith("random"):
        w, _ = random_schedule(random.Random(m["sub"]), m["n"], m["steps"])
        t = w.trace(1)
    elif origin.startswith("sim:directed"):
        sw, _, _ = sim_directed(random.Random(m["sub"]), m["which"])
        t = sw.trace(1)
    elif origin.startswith("sim"):
        sw, _, prog = sim_run(random.Random(m["sub"]), m["n"], kind=m["kind"])
        t = sw.trace(1)
        if prog and data["key"] == "progress_fault_free":
            chk.violation("progress_fault_free", f"fault-free run: {prog[0]}", rp)
    else:
        t = dict(rp["trace"], id=1)
    v, res = validate({m["n"]: [t]}, known, "C11_replay")
    chk.impl_traces = 1
    for r in res:
        chk.add_tlc("RaftTrace replay", r)
    verdict = v[1]
    print(f"replay verdict: {verdict}")
    if verdict[3]:
        classify(chk, {1: verdict}, {1: t}, {1: m}, known)
    return chk.finish()
