"""C04 — observing, pausing or stepping a run does not change it (DESIGN.md section 5)."""
from __future__ import annotations

import json
import random

from happysimulator.core import event as _event_mod
from happysimulator.core.control.breakpoints import (EventCountBreakpoint, EventTypeBreakpoint,
                                                     MetricBreakpoint, TimeBreakpoint)
from happysimulator.core.event import Event
from happysimulator.core.simulation import Simulation
from happysimulator.core.temporal import Instant
from happysimulator.instrumentation.recorder import InMemoryTraceRecorder

from .. import tlc
from ..common import Check, load_known
from ..engine_lib import INF, Program, World, random_program
from ..probe import quiet_logging

SPEC = tlc.SPECS / "control"
INVS = ["MInvPrefix", "MInvSameRun", "MInvReset", "MInvFastSlow", "MInvRefLoops"]
PROPS = ["StepExact", "BpExact", "NoSpuriousPause"]
DEVIATIONS = {"reset_replays_in_schedule_order": ("MInvPrefix", "MInvReset", "MInvSameRun")}


def as_code_dev():
    return sorted({e["deviation"] for e in load_known().get("open", [])
                   if e["property"] == "C04" and e.get("deviation")})


def mc_consts(max_ev, tset, daemon, cancel, max_cmd, alpha, dev=(), scheds="{FALSE, TRUE}"):
    return {"Dev": "{" + ",".join(f'"{d}"' for d in dev) + "}", "MaxEv": max_ev, "TSet": tset,
            "EndTs": "{999999, 1}", "AllowDaemon": "TRUE" if daemon else "FALSE",
            "AllowCancel": "TRUE" if cancel else "FALSE", "MaxCmd": max_cmd, "Alphabet": f"<- {alpha}",
            "Scheds": scheds}


# ---------------------------------------------------------------------------
# real-code side

class Run:
    """One real Simulation of a program, optionally driven by controller commands."""

    def __init__(self, prog, sched, step_ns=1000, form="list", attach=False, recorder=False, tracing=False,
                 source=False):
        self.prog, self.step = prog, step_ns
        self.tracing = tracing
        self.w = World(prog, form=form, step_ns=step_ns)
        w = self.w
        end = None if prog.end_t == INF else Instant(prog.end_t * step_ns)
        kw = {"trace_recorder": InMemoryTraceRecorder()} if recorder else {}
        if source:      # a load source (and a daemon probe-like one) whose ticks tie with program events
            from happysimulator.load.source import Source
            tgt = w.ents[sorted(w.ents)[0]]
            kw["sources"] = [Source.constant(rate=1e9 / step_ns, target=tgt, event_type="tick", name="src")]
            kw["probes"] = [Source.constant(rate=0.5e9 / step_ns, target=tgt, event_type="probe", name="prb")]
        self.sim = Simulation(end_time=end, entities=list(w.ents.values()), **kw)
        made = {i: w.make(i) for i, e in enumerate(prog.events, start=1) if not e["par"]}   # label order
        for i in sched:
            self.sim.schedule(made[i])
        if attach:
            _ = self.sim.control

    def ticks(self, ns):
        q, r = divmod(ns, self.step)
        return q if r == 0 else 777777

    def snap(self, op, a, err=False):
        s = self.sim
        return {"op": op, "a": a, "err": err, "proc": s._events_processed, "heap": s._event_heap.size(),
                "nprim": s._event_heap._primary_event_count, "paused": bool(s._is_paused),
                "running": bool(s._is_running), "clock": self.ticks(s._current_time.nanoseconds),
                "nd": len(self.w.delivered)}

    def _call(self, fn):
        if self.tracing:
            _event_mod.enable_event_tracing()
        try:
            return fn()
        finally:
            if self.tracing:
                _event_mod.disable_event_tracing()

    def plain(self):
        self._call(self.sim.run)
        return [d[0] for d in self.w.delivered]

    def stats(self):
        s = self.sim
        per = {}
        for lab, now, name in self.w.delivered:
            per[name] = per.get(name, 0) + 1
        wrong_now = sum(1 for lab, now, name in self.w.delivered
                        if lab <= len(self.prog.events) and now != self.prog.events[lab - 1]["t"] * self.step)
        return [self.ticks(s._current_time.nanoseconds), s._events_processed, wrong_now] + \
               [per.get(n, 0) for n in sorted(self.w.ents)]

    def command(self, c, obs):
        sim, op, a, b = self.sim, c["op"], c["a"], c["b"]
        if op == "run":
            self._call(sim.run)
            obs.append(self.snap("ret", 0))
            return
        ctl = sim.control
        if op in ("resume", "step"):
            try:
                self._call(ctl.resume if op == "resume" else (lambda: ctl.step(a)))
            except RuntimeError:
                obs.append(self.snap(op, a, True))
                return
            obs.append(self.snap("ret", 0))
            return
        if op == "attach":
            pass
        elif op == "pause":
            ctl.pause()
        elif op == "bp_count":
            ctl.add_breakpoint(EventCountBreakpoint(count=a, one_shot=bool(b)))
        elif op == "bp_time":
            ctl.add_breakpoint(TimeBreakpoint(time=Instant(a * self.step), one_shot=bool(b)))
        elif op == "bp_label":
            ctl.add_breakpoint(EventTypeBreakpoint(event_type=f"E{a}", one_shot=bool(b)))
        elif op == "bp_metric":
            ctl.add_breakpoint(MetricBreakpoint(entity_name=sorted(self.w.ents)[0], attribute="level", operator="le",
                                                threshold=a, one_shot=bool(b)))
        elif op == "clear":
            ctl.clear_breakpoints()
        elif op == "hook":
            ctl.on_event(lambda ev, a=a: ctl.pause() if sim._events_processed == a else None)
        elif op == "reset":
            ctl.reset()
            # the scripted entities cancel by label: point the labels at the re-created events
            self.w.delivered.clear()
            for ev in sim._event_heap._heap:
                lab = (ev.context.get("metadata") or {}).get("label")
                if lab is not None:
                    self.w.registry[lab] = ev
        else:
            raise ValueError(op)
        obs.append(self.snap(op, a))


def finalize_cmds(r: Run, cmds, obs, limit=12):
    """Drive the run to completion with explicit commands (they become part of the trace)."""
    def do(c):
        cmds.append(c)
        r.command(c, obs)
    if r.sim._control is not None and (r.sim._control._breakpoints):
        do({"op": "clear", "a": 0, "b": 0})
    for _ in range(limit):
        s = r.sim
        if s._is_paused:
            do({"op": "resume", "a": 0, "b": 0})
        elif not s._is_running and _needs_run(cmds):
            do({"op": "run", "a": 0, "b": 0})
        else:
            break


def _needs_run(cmds):
    """No run() has been issued since the start / since the last reset."""
    for c in reversed(cmds):
        if c["op"] == "reset":
            return True
        if c["op"] == "run":
            return False
    return True


MODES = [(a, r, t) for a in (False, True) for r in (False, True) for t in (False, True)]


def execute(tid, prog, sched, cmds, *, step_ns, form="list", all_modes=False, strict=True, source=False):
    ref_run = Run(prog, sched, step_ns, form, source=source)
    ref = ref_run.plain()
    refstats = ref_run.stats()
    r = Run(prog, sched, step_ns, form, source=source)
    cmds = [dict(c) for c in cmds]
    obs = []
    err = None
    try:
        for c in list(cmds):
            r.command(c, obs)
        finalize_cmds(r, cmds, obs)
    except Exception as ex:      # an exception out of a legal command sequence
        err = f"{type(ex).__name__}: {ex}"
    has_reset = any(c["op"] == "reset" for c in cmds)
    complete = not r.sim._is_running and r.sim._events_processed > 0 or not ref
    stats = r.stats() if (complete and not has_reset) else refstats
    if complete and has_reset:        # after reset(); run(): at least the clock readings must be right again
        stats = list(refstats)
        stats[2] = r.stats()[2]
    modes = []
    if all_modes:
        for (a, rec, tr) in MODES[1:]:
            modes.append(Run(prog, sched, step_ns, form, attach=a, recorder=rec, tracing=tr, source=source).plain())
    tr = {"id": tid, "ev": [dict(t=e["t"], d=bool(e["d"]), par=e["par"], cby=e["cby"]) for e in prog.events],
          "endT": prog.end_t, "sched": list(sched), "cmds": cmds, "obs": obs if strict else [],
          "strict": strict, "delivered": [d[0] for d in r.w.delivered], "ref": ref, "modes": modes,
          "final": {"running": bool(r.sim._is_running)}, "stats": stats, "refstats": refstats}
    return tr, err


# ---------------------------------------------------------------------------
# behaviour sources

def cmds_from_state(st):
    return [dict(op=c["op"], a=c["a"], b=c["b"]) for c in st["cmds"]]


def prog_from_state(st):
    pr = st["prog"]
    evs = [dict(t=e["t"], tgt="A", d=e["d"], par=e["par"], cby=e["cby"]) for e in pr["ev"]]
    return Program(evs, pr["endT"]), list(pr["sched"])


def random_script(rng, n_ev):
    cmds = []
    started = False
    for _ in range(rng.randint(1, 8)):
        r = rng.random()
        if not started and r < 0.35:
            cmds.append(dict(op="run", a=0, b=0))
            started = True
        elif r < 0.45:
            cmds.append(dict(op="pause", a=0, b=0))
        elif r < 0.6:
            cmds.append(dict(op="step", a=rng.randint(1, 4), b=0))
        elif r < 0.7:
            cmds.append(dict(op="resume", a=0, b=0))
        elif r < 0.78:
            cmds.append(dict(op="bp_count", a=rng.randint(1, max(2, n_ev)), b=rng.randint(0, 1)))
        elif r < 0.85:
            cmds.append(dict(op="bp_time", a=rng.randint(0, 5), b=rng.randint(0, 1)))
        elif r < 0.9:
            cmds.append(dict(op="bp_label", a=rng.randint(1, max(1, n_ev)), b=rng.randint(0, 1)))
        elif r < 0.92:
            cmds.append(dict(op="bp_metric", a=rng.randint(0, 1), b=rng.randint(0, 1)))
        elif r < 0.94:
            cmds.append(dict(op="hook", a=rng.randint(1, max(2, n_ev)), b=0))
        elif r < 0.97:
            cmds.append(dict(op="clear", a=0, b=0))
        else:
            cmds.append(dict(op="attach", a=0, b=0))
        if cmds[-1]["op"] in ("step", "resume"):
            started = started     # legal or not is decided by the state (errors are modelled)
    return cmds


def legalize(cmds):
    """Drop `run` commands the grammar does not allow (run() after completion restarts the run,
    which is outside the property) — decided conservatively: only the first `run` is kept."""
    out, seen = [], False
    for c in cmds:
        if c["op"] == "run":
            if seen:
                continue
            seen = True
        out.append(c)
    return out


def model_check(chk, tier):
    wd = tlc.workdir("C04_mc")
    if tier == "quick":
        cfgs = [("2ev_full", mc_consts(2, "{0,1}", True, True, 3, "AlphaFull")),
                ("3ev_core", mc_consts(3, "{0,1}", False, False, 2, "AlphaCore"))]
    else:
        cfgs = [("2ev_full", mc_consts(2, "{0,1}", True, True, 4, "AlphaFull")),
                ("3ev_core", mc_consts(3, "{0,1}", False, False, 3, "AlphaCore")),
                ("3ev_t2", mc_consts(3, "{0,1,2}", False, True, 2, "AlphaCore"))]
    for name, c in cfgs:
        cfg = tlc.write_cfg(wd / f"{name}.cfg", spec="MCSpec", constants=c, invariants=INVS, properties=PROPS,
                            view="MCView")
        res = tlc.run(SPEC / "ControlMC.tla", cfg, label="C04_mc", timeout=3000)
        chk.add_tlc(f"Control Dev={{}} {name}", res)
        chk.require(res.ok, f"Control.tla with Dev={{}} violates {res.violated}")
    for dev, invs in DEVIATIONS.items():
        cfg = tlc.write_cfg(wd / f"dev_{dev}.cfg", spec="MCSpec",
                            constants=mc_consts(2, "{0,1}", False, False, 3, "AlphaCore", dev=[dev]),
                            invariants=INVS, view="MCView")
        res = tlc.run(SPEC / "ControlMC.tla", cfg, label="C04_mc", timeout=900)
        chk.add_tlc(f"Control Dev={{{dev}}}", res, count=False, note="sensitivity run, must violate")
        chk.require(res.violated in invs, f"deviation {dev} not caught (got {res.violated})")
        chk.sensitivity[dev] = res.violated


def model_behaviours(chk, tier):
    """(program, command script) pairs enumerated by TLC: states in which the whole script was issued."""
    wd = tlc.workdir("C04_gen")
    out, seen = [], set()
    confs = [mc_consts(2, "{0,1}", True, True, 2, "AlphaFull", dev=as_code_dev())]
    if tier == "thorough":
        confs.append(mc_consts(2, "{0,1}", False, False, 3, "AlphaFull", dev=as_code_dev()))
    for c in confs:
        cfg = tlc.write_cfg(wd / "gen.cfg", spec="MCSpec", constants=c)
        res = tlc.run(SPEC / "ControlMC.tla", cfg, label="C04_gen", extra=["-dump", str(wd / "states")],
                      timeout=3000)
        chk.add_tlc("behaviour enumeration", res, count=False, note="states with a complete script")
        want = f"ncmd = {c['MaxCmd']}"
        for st in tlc.parse_dump(wd / "states.dump", must_contain=want):
            if st.get("pc") != "cmd" or st.get("ncmd") != c["MaxCmd"]:
                continue
            key = repr((st["prog"], st["cmds"]))
            if key in seen:
                continue
            seen.add(key)
            out.append(st)
        (wd / "states.dump").unlink(missing_ok=True)
    return out


def run(tier, seed, replay=None):
    quiet_logging()
    chk = Check("C04", tier, seed)
    rng = random.Random(seed)
    if replay:
        return do_replay(chk, replay)
    model_check(chk, tier)

    traces, meta = [], {}

    def add(prog, sched, cmds, origin, **kw):
        tid = len(traces) + 1
        tr, err = execute(tid, prog, sched, cmds, **kw)
        traces.append(tr)
        meta[tid] = dict(origin=origin, step_ns=kw.get("step_ns"), form=kw.get("form", "list"),
                         source=kw.get("source", False))
        chk.impl_steps += len(tr["obs"]) + len(tr["delivered"])
        if err:
            chk.violation(f"exception:{err.split(':')[0]}", f"real control surface raised {err}",
                          {"meta": meta[tid], "trace": tr})

    # spec -> code
    states = model_behaviours(chk, tier)
    cap = 1200 if tier == "quick" else 12000
    chosen = states if len(states) <= cap else rng.sample(states, cap)
    chk.extra["model_behaviours_total"] = len(states)
    chk.exhaustive = len(chosen) == len(states)
    for i, st in enumerate(chosen):
        prog, sched = prog_from_state(st)
        add(prog, sched, cmds_from_state(st), "model", step_ns=(1, 1000, 10**9)[i % 3], all_modes=(i % 8 == 0))
        chk.replays += 1

    # code -> spec: larger random programs, longer scripts, every observation mode
    n_rand = 700 if tier == "quick" else 15000
    for kk in range(n_rand):
        p = random_program(rng, burst=(kk % 3 == 0), max_total=6 + (kk % 5) * 6, targets=("A", "B"))
        pre = [i for i, e in enumerate(p.events, start=1) if not e["par"]]
        sched = list(pre)
        cmds = legalize(random_script(rng, len(p.events)))
        if kk % 4 == 1:      # pure stepping (no breakpoints/hooks) over a program with many cancelled events
            for j, e in enumerate(p.events, start=1):
                if rng.random() < 0.35:
                    c = rng.randint(1, len(p.events))
                    if c != j:
                        e["cby"] = c
            cmds = [dict(op="pause", a=0, b=0), dict(op="run", a=0, b=0)] + \
                   [dict(op="step", a=rng.randint(1, 4), b=0) for _ in range(rng.randint(1, 6))]
        if kk % 8 == 6:      # two or three breakpoints that the same delivery satisfies, then resumes
            n = rng.randint(1, 4)
            t_n = sorted(e["t"] for e in p.events)[min(n, len(p.events)) - 1]
            cmds = [dict(op="bp_count", a=n, b=rng.randint(0, 1)), dict(op="bp_time", a=t_n, b=1),
                    dict(op="bp_count", a=n, b=1)][: rng.randint(2, 3)]
            rng.shuffle(cmds)
            cmds += [dict(op="run", a=0, b=0)] + [dict(op="resume", a=0, b=0) for _ in range(rng.randint(1, 3))]
        if kk % 4 == 3:      # a reset somewhere, program without pre-run cancels to keep entities stateless
            for e in p.events:
                e["cby"] = 0
            pos = rng.randint(0, len(cmds))
            cmds = cmds[:pos] + [dict(op="reset", a=0, b=0)] + [c for c in cmds[pos:] if c["op"] != "run"]
            rng.shuffle(sched)
        form = "list" if kk % 5 else ("gen_yield", "gen_return", "single")[kk % 3]
        src = kk % 10 == 7      # a source-driven model with a finite end and a reset (judged real-vs-real only)
        if src:
            p.end_t = rng.randint(2, 5)
            for e in p.events:
                e["cby"] = 0
            if not any(c["op"] == "reset" for c in cmds):
                pos = rng.randint(0, len(cmds))
                cmds = cmds[:pos] + [dict(op="reset", a=0, b=0)] + [c for c in cmds[pos:] if c["op"] != "run"]
        add(p, sched, cmds, "random", step_ns=(1, 1000, 10**9)[kk % 3] if not src else (1000, 10**9)[kk % 2],
            form=form, strict=(form == "list" and not src), all_modes=(kk % 4 == 0), source=src)

    verdicts, results = tlc.validate_traces(SPEC / "ControlTrace.tla", traces, label="C04_trace",
                                            spec="TSpec", constants={"Dev": "{}"})
    for r in results:
        chk.add_tlc("ControlTrace batch", r)
    chk.impl_traces = len(traces)
    judge(chk, traces, meta, verdicts)
    for t in traces[:1] + traces[-1:]:
        chk.sample({"trace": t, "meta": meta[t["id"]]})
    chk.assumptions = [
        "entities are stateless scripted handlers (the program fixes what each delivery creates and cancels)",
        "run() is not called again after a run has completed (restart semantics are outside the statement)",
        "pause requests, hooks and breakpoints combined with step(n): only the clauses the statement fixes are "
        "judged (step count without breakpoints/hooks; pause right after the first satisfying delivery); other "
        "differences from Control.tla are reported as drift",
    ]
    return chk.finish()


def judge(chk, traces, meta, verdicts):
    known_dev = as_code_dev()
    for tid, (v, pos) in sorted(verdicts.items()):
        if v == "ACCEPT":
            continue
        tr = traces[tid - 1]
        if v.startswith("PROP:"):
            key = v[5:]
            if key == "reset_changes_sequence" and _is_schedule_order_case(tr):
                key = "reset_replays_in_schedule_order"
            chk.violation(key, f"{v} at observation {pos}", {"meta": meta[tid], "trace": tr})
        else:
            chk.note_drift(f"trace {tid}: {v} at {pos}")


def _is_schedule_order_case(tr):
    """The delivered log after reset is exactly the uninterrupted run of the same program with the
    pre-run events created in schedule order instead of creation order."""
    evs = [dict(t=e["t"], tgt="A", d=e["d"], par=e["par"], cby=e["cby"]) for e in tr["ev"]]
    pre = [i for i, e in enumerate(evs, start=1) if not e["par"]]
    if tr["sched"] == pre:
        return False
    # relabel so that creation order = schedule order, run uninterrupted, map labels back
    order = list(tr["sched"]) + [i for i in range(1, len(evs) + 1) if i not in tr["sched"]]
    new_of = {old: n for n, old in enumerate(order, start=1)}
    evs2 = []
    for old in order:
        e = dict(evs[old - 1])
        e["par"] = new_of.get(e["par"], 0) if e["par"] else 0
        e["cby"] = new_of.get(e["cby"], 0) if e["cby"] else 0
        evs2.append(e)
    p2 = Program(evs2, tr["endT"])
    r = Run(p2, [new_of[i] for i in tr["sched"]], 1000)
    got = [order[l - 1] for l in r.plain()]
    return got == tr["delivered"]


def do_replay(chk, path):
    data = json.loads(open(path).read())["replay"]
    tr = data["trace"]
    evs = [dict(t=e["t"], tgt="A", d=e["d"], par=e["par"], cby=e["cby"]) for e in tr["ev"]]
    prog = Program(evs, tr["endT"])
    m = data.get("meta", {})
    new, err = execute(1, prog, tr["sched"], [c for c in tr["cmds"]], step_ns=m.get("step_ns") or 1000,
                       form=m.get("form", "list"), all_modes=bool(tr["modes"]), strict=tr.get("strict", True),
                       source=m.get("source", False))
    verdicts, results = tlc.validate_traces(SPEC / "ControlTrace.tla", [new], label="C04_replay", spec="TSpec",
                                            constants={"Dev": "{}"})
    chk.impl_traces = 1
    for r in results:
        chk.add_tlc("ControlTrace replay", r)
    judge(chk, [new], {1: m}, verdicts)
    chk.sample({"trace": new})
    return chk.finish()
