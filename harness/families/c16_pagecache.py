"""C16 extension / PageCache: TLC jobs (PageCacheMC.tla), real executions inside a real Simulation (one trace
step per generator segment) and trace validation (PageCacheTrace.tla)."""
from __future__ import annotations

import json

from happysimulator.components.infrastructure.page_cache import PageCache
from happysimulator.core.entity import Entity
from happysimulator.core.event import Event
from happysimulator.core.simulation import Simulation
from happysimulator.core.temporal import Instant

from .. import tlc
from .c16_util import Hung, exact_delay, time_limit

SPEC = tlc.SPECS / "cache"
INVS = ["InvCapacity", "InvDirtyDurable"]
DEVIATIONS = {"load_inserts_without_recheck": "InvCapacity", "load_overwrites_dirty_page": "InvDirtyDurable"}
KNOWN_CODES = {1: "load_inserts_without_recheck", 2: "load_overwrites_dirty_page"}
# as-code behaviours that break no contract clause (crash only): modelled while the finding is open
AS_CODE_DEVS = ("evict_double_delete",)
ALL_DEVS = tuple(DEVIATIONS) + AS_CODE_DEVS
LIGHT_JVM = {"_JAVA_OPTIONS": "-XX:TieredStopAtLevel=1 -XX:ParallelGCThreads=2 -XX:CICompilerCount=1"}


def tla_set(items):
    return "{" + ",".join(f'"{d}"' if isinstance(d, str) else str(d) for d in items) + "}"


def mc_consts(*, cap=1, ra=1, npages=3, dev=(), nops=(2, 2, 0), gaps=(0, 1), kinds=("read", "write"), rl=1, wl=2):
    return {"Cap": cap, "RA": ra, "NPages": npages, "Dev": tla_set(dev), "NP": len([n for n in nops if n > 0]),
            "N1": nops[0], "N2": nops[1], "N3": nops[2], "Gaps": tla_set(gaps), "Kinds": tla_set(kinds),
            "RL": rl, "WL": wl}


def job(label, consts, *, invariants=(), timeout=900, workers=4, light=False):
    wd = tlc.workdir(label)
    cfg = tlc.write_cfg(wd / "mc.cfg", spec="Spec", constants=consts, invariants=invariants, view="View")
    return tlc.run(SPEC / "PageCacheMC.tla", cfg, label=label, timeout=timeout, workers=workers,
                   env=LIGHT_JVM if light else None)


class _Client(Entity):
    def __init__(self, p, world, script):
        super().__init__(f"client{p}")
        self.p, self.w, self.script = p, world, script
        self.finished = False

    def handle_event(self, event):
        return self.body()

    def body(self):
        w = self.w
        for kind, pid, gap in self.script:
            yield exact_delay(gap, w.tick_ns)
            yield from w.do_op(self.p, kind, pid)
        self.finished = True


class _Finale(Entity):
    def __init__(self, world):
        super().__init__("finale")
        self.w = world

    def handle_event(self, event):
        return self.body()

    def body(self):
        w = self.w
        w.quiescent_at_finale = all(c.finished for c in w.clients) and not w.inflight
        yield from w.do_op(0, "flush", 0)


class PageWorld:
    """cfg = {cap, ra, rl, wl (ticks), tick_ns}; prog = [[ [kind, page, gap], ... ] per client]"""

    def __init__(self, cfg, prog):
        self.cfg, self.prog, self.tick_ns = cfg, prog, cfg["tick_ns"]
        self.pc = PageCache("pc", capacity_pages=cfg["cap"], readahead_pages=cfg["ra"],
                            disk_read_latency_s=exact_delay(cfg["rl"], self.tick_ns),
                            disk_write_latency_s=exact_delay(cfg["wl"], self.tick_ns))
        self.clients = [_Client(p, self, sc) for p, sc in enumerate(prog, start=1)]
        self.finale = _Finale(self)
        self.steps, self.errors = [], []
        self.noid = 0
        self.inflight = set()
        self.quiescent_at_finale = None
        self.hung = False

    def record(self, p, oid, kind, pid, seg, last, ret):
        pc = self.pc
        self.steps.append({"p": p, "o": oid, "kind": kind, "pid": pid, "seg": seg, "last": bool(last), "ret": int(ret),
                           "t": int(pc.now.nanoseconds // self.tick_ns), "n": int(pc.pages_cached),
                           "pg": [int(x) for x in pc._pages.keys()],
                           "dirty": sorted(int(k) for k, v in pc._pages.items() if v.dirty),
                           "wb": int(pc.stats.dirty_writebacks)})

    def do_op(self, p, kind, pid):
        pc = self.pc
        self.noid += 1
        oid = self.noid
        gen = pc.read_page(pid) if kind == "read" else pc.write_page(pid) if kind == "write" else pc.flush()
        self.inflight.add(oid)
        seg, send = 0, None
        try:
            while True:
                seg += 1
                try:
                    y = next(gen) if seg == 1 else gen.send(send)
                except StopIteration as e:
                    self.record(p, oid, kind, pid, seg, True, e.value if kind == "flush" else 0)
                    return e.value
                except Hung:
                    raise
                except Exception as ex:      # noqa: BLE001 - the real code raised inside this segment
                    self.errors.append(f"{kind}({pid}) seg {seg}: {type(ex).__name__}: {ex}")
                    self.record(p, oid, kind, pid, seg, True, -1)
                    return None
                self.record(p, oid, kind, pid, seg, False, 0)
                send = yield y
        finally:
            self.inflight.discard(oid)

    def run(self):
        c = self.cfg
        worst = (c["wl"] * (c["cap"] + 1) + c["rl"]) * (c["ra"] + 2) + 2
        horizon = max([sum(g for _, _, g in sc) + len(sc) * worst for sc in self.prog] + [0]) + 10
        sim = Simulation(entities=[self.pc, *self.clients, self.finale])
        for cl in self.clients:
            sim.schedule(Event(time=Instant(0), event_type="go", target=cl))
        sim.schedule(Event(time=Instant(horizon * self.tick_ns), event_type="go", target=self.finale))
        try:
            with time_limit(c.get("limit_s", 5)):
                sim.run()
        except Hung as ex:
            self.hung = True
            self.errors.append(f"simulation did not terminate: {ex}")
        except Exception as ex:      # noqa: BLE001
            self.errors.append(f"simulation: {type(ex).__name__}: {ex}")
        return self

    def trace(self, tid):
        return {"id": tid, "cap": self.cfg["cap"], "ra": self.cfg["ra"], "steps": self.steps}


def world_cfg(*, cap, ra, rl, wl, tick_ns=1_000_000):
    return {"cap": cap, "ra": ra, "rl": rl, "wl": wl, "tick_ns": tick_ns}


def random_case(rng, i):
    npages = rng.choice((3, 4, 6))
    cap = rng.randint(1, 3)
    seq = i % 3 == 0            # single client: none of the overlap defects can occur
    prog = []
    for _ in range(1 if seq else rng.choice((2, 3))):
        prog.append([[rng.choice(("read", "read", "write", "write") + (("flush",) if seq else ())),
                      rng.randint(1, npages), rng.choice((0, 0, 1, 2))]
                     for _ in range(rng.randint(4, 12) if seq else rng.randint(2, 6))])
    return world_cfg(cap=cap, ra=rng.choice((0, 0, 1, 2)), rl=rng.choice((1, 2)), wl=rng.choice((1, 2, 3)),
                     tick_ns=(1_000_000, 1000, 1)[(i // 20) % 3]), prog


def race_cases(quick):
    """Directed overlap grids: dirty pages fill the cache while / before a read_page(p) of a missing page is at
    the disk; a write_page(p) of the same page has to wait for the dirty LRU victim's write-back, and so has
    the reader once its disk read returns (both client orders, small grids of start times and latencies)."""
    out = []
    for cap in ((1, 2) if quick else (1, 2, 3)):
        for rl, wl in (((1, 2), (2, 3), (3, 2)) if quick else ((1, 2), (1, 3), (2, 3), (3, 2), (2, 2), (3, 1), (1, 1))):
            for a in ((0, 1, 2) if quick else (0, 1, 2, 3)):
                for b in ((0, 1) if quick else (0, 1, 2, 3)):
                    fill = [["write", p, 0] for p in range(1, cap + 1)]       # cap dirty pages, page 1 is the LRU
                    reader, writer = [["read", 9, b]], [["write", 9, a]]
                    out.append((world_cfg(cap=cap, ra=0, rl=rl, wl=wl), [reader, fill, writer]))
                    out.append((world_cfg(cap=cap, ra=0, rl=rl, wl=wl), [fill, writer, reader]))
                    if not quick:
                        out.append((world_cfg(cap=cap, ra=1, rl=rl, wl=wl), [[["read", 8, b]], fill, writer]))
    return out


class Runs:
    def __init__(self, chk):
        self.chk = chk
        self.traces, self.meta = [], {}
        self.hung = 0
        self.raised = 0

    def execute(self, cfg, prog, origin):
        if self.hung >= 3:
            return None
        w = PageWorld(cfg, prog).run()
        self.hung += 1 if w.hung else 0
        tid = len(self.traces) + 1
        self.traces.append(w.trace(tid))
        self.meta[tid] = {"origin": origin, "cfg": cfg, "prog": prog, "errors": w.errors}
        self.chk.impl_steps += len(w.steps)
        self.chk.require(w.quiescent_at_finale is not False, "page-cache finale started before the clients finished")
        self.raised += 1 if w.errors else 0
        return w


def validate(traces, label, dev=()):
    wd = tlc.workdir(label)
    cfg = tlc.write_cfg(wd / "trace.cfg", spec="Spec", constants={"Dev": tla_set(dev)})
    f = wd / "traces.json"
    f.write_text(json.dumps(traces, separators=(",", ":")))
    res = tlc.run(SPEC / "PageCacheTrace.tla", cfg, label=label, workers=1, timeout=3000,
                  env={"TRACE_FILE": str(f), "_JAVA_OPTIONS": "-XX:ParallelGCThreads=2 -XX:CICompilerCount=2"})
    f.unlink()
    verdicts, drifts = {}, {}
    for v in res.printed:
        if isinstance(v, tuple) and v and v[0] == "V" and len(v) == 5:
            verdicts[v[1]] = (v[2], v[3], sorted(v[4]))
        elif isinstance(v, tuple) and v and v[0] == "D" and len(v) == 4:
            drifts[v[1]] = (v[2], v[3])
    miss = [t["id"] for t in traces if t["id"] not in verdicts]
    if miss:
        raise tlc.TLCFailure(f"{label}: no verdict for traces {miss[:3]}")
    return verdicts, drifts, res


def judge(chk, runs, verdicts, drifts):
    for tid, (v, pos, taint) in sorted(verdicts.items()):
        if v.startswith("PROP:"):
            m = runs.meta[tid]
            key = "page_cache_" + (KNOWN_CODES[taint[0]] if taint and taint[0] in KNOWN_CODES else v[5:])
            chk.violation(key, f"PageCache {v} at step {pos} of trace {tid} ({m['origin']}): cfg={m['cfg']} "
                               f"prog={m['prog']}",
                          {"family": "page_cache", "cfg": m["cfg"], "prog": m["prog"], "origin": m["origin"]})
    for tid, (d, pos) in sorted(drifts.items()):
        m = runs.meta[tid]
        chk.note_drift(f"page_cache trace {tid} ({m['origin']}): {d} at step {pos}; cfg={m['cfg']} prog={m['prog']} "
                       f"raised={m['errors'][:1]}")


def submit(pool, quick):
    jobs = {"clean": pool.submit(job, "C16_pc_clean", mc_consts(nops=(2, 2, 0) if quick else (2, 2, 1)),
                                 invariants=INVS, workers=4, timeout=6000)}
    if not quick:
        jobs["clean_cap2"] = pool.submit(job, "C16_pc_clean2", mc_consts(cap=2, ra=2, npages=4, nops=(2, 2, 0)),
                                         invariants=INVS, workers=6, timeout=6000)
    for dev in DEVIATIONS:
        jobs[f"dev_{dev}"] = pool.submit(job, f"C16_pc_dev_{dev[:12]}", mc_consts(dev=[dev], nops=(1, 1, 0)),
                                         invariants=INVS, workers=2, light=True)
    return jobs


def collect(chk, jobs, runs):
    for name, fut in jobs.items():
        res = fut.result()
        if name.startswith("clean"):
            chk.add_tlc(f"PageCacheMC Dev={{}} {name}", res)
            chk.require(res.ok, f"PageCacheMC {name} with Dev={{}} violates {res.violated}")
        else:
            dev = name[4:]
            chk.add_tlc(f"PageCacheMC Dev={{{dev}}}", res, count=False, note="sensitivity run, must violate")
            chk.require(res.violated == DEVIATIONS[dev], f"page-cache deviation {dev} not caught (got {res.violated})")
            chk.sensitivity[f"page_cache:{dev}"] = res.violated
            plog = res.trace[-1][1].get("plog") if res.trace else None
            if plog:
                prog = [[[c["kind"], c["pid"], c["gap"]] for c in sc] for sc in plog]
                runs.execute(world_cfg(cap=1, ra=1, rl=1, wl=2), prog, f"tlc_counterexample:{dev}")
                chk.replays += 1
