"""C12 — Paxos family: at most one value per instance, and a proposed one (DESIGN.md section 5/C12).

Sub-families (each: implementation-shaped TLA+ model + contract + trace spec under specs/paxos/,
real objects driven by TLC-generated schedules and by adversarial seeded schedules, recorded
executions validated by the TLA+ trace spec):
  paxos   single-decree Paxos            (c12_paxos.py,  Paxos*.tla)
  multi   Multi-Paxos / Flexible Paxos   (c12_multi.py,  Multi*.tla)
  elect   LeaderElection + strategies    (c12_misc.py,   Election*.tla)
  lock    DistributedLock fencing tokens (c12_misc.py,   Lock*.tla)
"""
from __future__ import annotations

import json
import os
import random
import time
from concurrent.futures import ThreadPoolExecutor

from .. import tlc
from ..common import Check, load_known
from ..probe import quiet_logging

SPEC = tlc.SPECS / "paxos"
W = tlc.DEFAULT_WORKERS


def open_devs(all_devs):
    """Deviations the pinned code is known to have (open known findings of C12).  With C12_DEV_ALL=1
    (builder's diagnostic mode) every deviation of the spec is assumed, to discover attributions."""
    if os.environ.get("C12_DEV_ALL"):
        return list(all_devs)
    known = {e.get("deviation") for e in load_known().get("open", []) if e["property"] == "C12"}
    return [d for d in all_devs if d in known]


def dev_set(devs):
    return "{" + ",".join(f'"{d}"' for d in devs) + "}"


def tf(b):
    return "TRUE" if b else "FALSE"


# ---------------------------------------------------------------------------
# parallel TLC jobs

class Jobs:
    def __init__(self, max_parallel):
        self.pool = ThreadPoolExecutor(max_workers=max_parallel)
        self.futs = {}

    def submit(self, name, fn):
        self.futs[name] = self.pool.submit(fn)

    def result(self, name):
        return self.futs[name].result()

    def close(self):
        self.pool.shutdown(wait=True, cancel_futures=True)


def mc(module, name, consts, invs=(), props=(), spec=None, workers=None, dot=False, timeout=3000):
    lab = f"C12_{name}"
    wd = tlc.workdir(lab)
    cfg = tlc.write_cfg(wd / "mc.cfg", spec=spec, constants=consts, invariants=list(invs), properties=list(props))
    try:
        return tlc.run(SPEC / module, cfg, label=lab, workers=workers or W, timeout=timeout,
                       dump_dot=(wd / "graph.dot") if dot else None)
    except tlc.TLCFailure as ex:
        # this TLC build words a liveness counterexample "Temporal property X was violated"
        if "Temporal propert" not in str(ex):
            raise
        res = tlc.parse_output((wd / "tlc.out").read_text())
        res.violated, res.ok = "temporal", False
        return res


def split_by_steps(traces, k):
    chunks = [[] for _ in range(k)]
    load = [0] * k
    for t in sorted(traces, key=lambda t: -len(t["steps"])):
        i = load.index(min(load))
        chunks[i].append(t)
        load[i] += len(t["steps"]) + 3
    return [c for c in chunks if c]


def validate(module, traces, label, parallel=4, timeout=2400):
    """Run the (total) trace spec over the traces in up to `parallel` TLC processes.
    Returns ({id: (verdict, pos)}, {id: (first model mismatch, pos, exercised mask)},
    {id: [(clause, step, model in sync, exercised mask)]}, [TLCResult])."""
    verdicts, models, props, results = {}, {}, {}, []
    if not traces:
        return verdicts, models, props, results
    steps = sum(len(t["steps"]) for t in traces)
    parallel = max(1, min(parallel, steps // 2500 + 1))
    chunks = split_by_steps(traces, parallel)

    def one(i, part):
        lab = f"{label}_{i}"
        wd = tlc.workdir(lab)
        cfg = tlc.write_cfg(wd / "trace.cfg", spec="Spec")
        f = wd / "traces.json"
        f.write_text(json.dumps(part, separators=(",", ":")))
        res = tlc.run(module, cfg, label=lab, workers=1, timeout=timeout, env={"TRACE_FILE": str(f)}, heap="3g")
        f.unlink()
        return res

    with ThreadPoolExecutor(max_workers=len(chunks)) as ex:
        rs = list(ex.map(lambda a: one(*a), enumerate(chunks)))
    for part, res in zip(chunks, rs):
        results.append(res)
        for v in res.printed:
            if isinstance(v, tuple) and len(v) >= 4 and v[0] == "V":
                verdicts[v[1]] = (v[2], v[3])
            elif isinstance(v, tuple) and len(v) >= 4 and v[0] == "M":
                models[v[1]] = (v[2], v[3], v[4] if len(v) > 4 else 0)      # v[4]: bit mask over trace["dev"]
            elif isinstance(v, tuple) and len(v) == 6 and v[0] == "P":      # clause, step, in sync, mask
                props.setdefault(v[1], []).append((v[2], v[3], bool(v[4]), v[5]))
            elif isinstance(v, tuple) and len(v) == 7 and v[0] == "P":      # clause, instance, step, in sync, mask
                props.setdefault(v[1], []).append((f"{v[2]}@{v[3]}" if v[3] else v[2], v[4], bool(v[5]), v[6]))
        miss = [t["id"] for t in part if t["id"] not in verdicts or t["id"] not in models]
        if miss:
            raise tlc.TLCFailure(f"{label}: no verdict/model line for {len(miss)} traces (first {miss[:3]})")
        lost = [t["id"] for t in part if verdicts[t["id"]][0] == "PROP" and not props.get(t["id"])]
        if lost:
            raise tlc.TLCFailure(f"{label}: PROP verdict without clause lines for traces {lost[:3]}")
    return verdicts, models, props, results


def as_code_for(traces, all_devs):
    as_code = open_devs(all_devs)
    for t in traces:
        t["dev"] = as_code
    return as_code


def judge(chk, fam, module, traces, meta, all_devs, label, parallel, pre=None):
    """code -> spec: validate recorded real executions and classify contract failures (R4).

    Every trace is validated with the implementation model running the deviations of the OPEN known
    findings (the as-code model).  Every clause of the statement that is false somewhere on the observed
    real execution is reported once (clause, step).  It is a known finding only if the as-code model
    reproduced the execution step by step up to and including that step; it is then reported under the
    deviations the execution had exercised by then (steps whose observable outcome changes when that
    deviation alone is switched off; all open deviations if no single step is attributable).  If the
    model had lost the execution before (the code does something the pinned code does not do), or there
    is no open deviation, the key names the clause and the first mismatch: that is a new VIOLATION."""
    as_code = as_code_for(traces, all_devs)
    verdicts, models, props, results = pre if pre is not None else validate(module, traces, label, parallel)
    for r in results:
        chk.add_tlc(f"{fam} trace validation (as-code Dev={as_code})", r, note="one TLC state per recorded step")
    chk.impl_traces += len(traces)
    chk.impl_steps += sum(len(t["steps"]) for t in traces)
    by_id = {t["id"]: t for t in traces}
    stats = {"traces": len(traces), "steps": sum(len(t["steps"]) for t in traces), "accept": 0, "prop": 0, "drift": 0,
             "failures_by_key": {}}
    # A false clause the as-code model does not explain may be a deviation of the spec that is not (or no
    # longer) an open finding, e.g. a repaired defect that came back: re-validate those executions with
    # every deviation of the spec switched on and name the non-open deviations they exercised.
    relapse = {}
    lost = [tid for tid, ps in props.items() if any(not p[2] for p in ps)]
    others = [d for d in all_devs if d not in as_code]
    if lost and others:
        back, copies = {}, []
        for tid in lost:
            for d in others:            # the as-code model plus ONE further deviation of the spec
                cp = dict(by_id[tid], id=len(copies) + 1, dev=list(as_code) + [d])
                back[cp["id"]] = (tid, d)
                copies.append(cp)
        _, _, props2, res2 = validate(module, copies, label + "_attr", parallel)
        for r in res2:
            chk.add_tlc(f"{fam} attribution of unexplained failures (as-code + one more deviation of the spec)", r,
                        count=False)
        for cid, ps in props2.items():
            tid, d = back[cid]
            for clause, at, followed, m in ps:
                if followed and isinstance(m, int) and m >> len(as_code) & 1:
                    relapse.setdefault((tid, clause), []).append(d)
    for tid, (v, pos) in sorted(verdicts.items()):
        mism, mpos, mask = models[tid]
        origin = meta[tid].get("origin")
        if v == "ACCEPT":
            stats["accept"] += 1
            continue
        if v.startswith("MODEL:"):
            stats["drift"] += 1
            chk.note_drift(f"{fam} trace {tid} ({origin}): {v} at step {pos}")
            continue
        stats["prop"] += 1
        if mism != "none":
            stats["drift"] += 1
        found = props.get(tid)
        if not found:       # single-clause trace specs (election, lock) print "PROP:<clause>" only
            found = [(v[5:], pos, mism == "none" or mpos > pos, mask)]
        for inst, at, followed, m in found:
            clause = inst.split("@")[0]     # "agreement@2" = slot 2; keys name the clause, not the slot
            used = [d for i, d in enumerate(as_code) if isinstance(m, int) and m >> i & 1]
            if followed and used:
                keys = list(used)
            elif followed and as_code:
                # reproduced step by step by the model of the pinned code, but no single step is attributable
                keys = list(as_code)
            elif followed:
                keys = [f"{fam}_{clause}_in_corrected_design"]
            elif (tid, inst) in relapse:
                keys = relapse[(tid, inst)]       # deviation(s) of the spec that are not open findings
            else:
                keys = [f"{fam}_{clause}_after_" + mism.replace("MODEL:", "").replace(":", "_")]
            for key in keys:
                stats["failures_by_key"][key] = stats["failures_by_key"].get(key, 0) + 1
                chk.violation(key, f"{fam}: contract clause '{inst}' false at step {at} of a real execution "
                                   f"({origin}); as-code model in sync: {followed}; deviations exercised: {used}",
                              {"family": fam, "meta": meta[tid], "trace": by_id[tid]})
    return stats


class Traces:
    def __init__(self, chk, fam):
        self.chk, self.fam = chk, fam
        self.traces, self.meta = [], {}

    def add(self, trace_fn, info, error=None):
        tid = len(self.traces) + 1
        self.traces.append(trace_fn(tid))
        self.meta[tid] = info
        if error:
            self.chk.note_drift(f"{self.fam} {info.get('origin')}: {error}")
        return tid


# ---------------------------------------------------------------------------
# single-decree Paxos

PAXOS_DEVS = ["phase2_restart_on_late_promise", "retry_keeps_stale_tallies"]
# plausible mutations modelled as deviations (never in the pinned code): sensitivity runs, schedules for the
# real nodes, and names for regressions that match their signature
PAXOS_PLAUSIBLE = ["adopt_by_ballot_number_only", "accept_does_not_raise_promise"]
PAXOS_ALL = PAXOS_DEVS + PAXOS_PLAUSIBLE
PAXOS_INVS = ["InvAgreement", "InvValidity", "InvFutureTruth", "InvFutureValid"]


def paxos_consts(n=3, proposers="{1,2}", once=True, maxb=2, maxp=2, learn=False, quiet=False, dev=(), cut="{}",
                 lost="LostNone"):
    return {"N": n, "Proposers": proposers, "Once": tf(once), "MaxBallot": maxb, "MaxProposals": maxp,
            "Loss": "FALSE", "Learn": tf(learn), "Quiet": tf(quiet), "Dev": dev_set(dev), "Cut": cut,
            "Lost": "<- " + lost}


# n1 and n3 propose at any time (same ballot numbers), are partitioned from each other for the whole run and
# reach each other's values only through n2: retries after nacks, Accepts overtaken by a competing decision
PAXOS_CUT = dict(proposers="{1,3}", cut="{{1,3}}")


def paxos_jobs(jobs, tier):
    big, small = max(2, W // 2), 2
    P = "Paxos.tla"
    if tier == "quick":
        jobs.submit("paxos_clean", lambda: mc(P, "paxos_clean", paxos_consts(quiet=True), PAXOS_INVS,
                                              ["PropStability"], workers=big))
    else:
        jobs.submit("paxos_clean", lambda: mc(P, "paxos_clean", paxos_consts(), PAXOS_INVS, ["PropStability"], workers=W))
        jobs.submit("paxos_clean2", lambda: mc(P, "paxos_clean2", paxos_consts(quiet=True, learn=True),
                                               PAXOS_INVS, ["PropStability"], workers=big))
    # learners + liveness (fault-free clause): single proposer, Decided broadcast on
    live = paxos_consts(proposers="{1}", maxb=1, maxp=1, learn=True)
    jobs.submit("paxos_live_clean", lambda: mc(P, "paxos_live_clean", live, PAXOS_INVS, ["PropStability", "Progress"],
                                               spec="FairSpec", workers=small))
    ascode = dict(live, Dev=dev_set(open_devs(PAXOS_DEVS)))
    jobs.submit("paxos_live_ascode", lambda: mc(P, "paxos_live_ascode", ascode, [], ["Progress"], spec="FairSpec",
                                                workers=small, dot=True))
    jobs.submit("paxos_dev_retry_keeps_stale_tallies", lambda: mc(
        P, "paxos_dev_retry", paxos_consts(dev=["retry_keeps_stale_tallies"]), PAXOS_INVS, workers=big))
    jobs.submit("paxos_dev_phase2_restart_on_late_promise", lambda: mc(
        P, "paxos_dev_restart", paxos_consts(maxb=3, quiet=True, dev=["phase2_restart_on_late_promise"]), PAXOS_INVS,
        workers=big))
    # partitioned competing proposers: corrected design, the plausible tie deviation, and the as-code graph
    cut_kw = dict(maxb=3, maxp=2) if tier == "quick" else dict(maxb=3, maxp=3, once=False)     # 317 / 78 133 states
    jobs.submit("paxos_clean_cut", lambda: mc(P, "paxos_clean_cut", paxos_consts(**cut_kw, **PAXOS_CUT),
                                              PAXOS_INVS, ["PropStability"], workers=small if tier == "quick" else big))
    jobs.submit("paxos_dev_adopt_by_ballot_number_only", lambda: mc(
        P, "paxos_dev_adopt", paxos_consts(dev=["adopt_by_ballot_number_only"], **PAXOS_CUT), PAXOS_INVS, workers=small))
    # an Accept overtakes its own (lost) Prepare, stale Accepts of a lower ballot arrive afterwards
    ov = dict(proposers="{2,3}", lost="LostOvertake")
    jobs.submit("paxos_clean_overtake", lambda: mc(P, "paxos_clean_overtake", paxos_consts(**ov), PAXOS_INVS,
                                                   ["PropStability"], workers=big))
    jobs.submit("paxos_dev_accept_does_not_raise_promise", lambda: mc(
        P, "paxos_dev_noraise", paxos_consts(dev=["accept_does_not_raise_promise"], **(ov if tier == "quick" else
                                                                                      dict(proposers="{2,3}"))),
        PAXOS_INVS, workers=big))
    jobs.submit("paxos_tour_cut", lambda: mc(P, "paxos_tour_cut", paxos_consts(maxb=3, dev=open_devs(PAXOS_DEVS), **PAXOS_CUT),
                                             workers=small, dot=True))


def run_paxos(chk, jobs, tier, rng, parallel):
    from . import c12_paxos as P
    t0 = time.time()
    T = Traces(chk, "paxos")

    def add(rec, info, mode="safety", pval=0):
        T.add(lambda tid: rec.trace(tid, [], mode=mode, pval=pval), info, rec.error)

    n_direct, n_sim, n_prog = (120, 16, 10) if tier == "quick" else (900, 120, 60)
    for k in range(n_direct):
        if k % 6 == 5:
            c, info = P.overtake_direct(rng)
            info["origin"] = "overtake template (Accept before its Prepare, old promise late, stale lower Accept, retry)"
        elif k % 3 == 2:
            c, info = P.rounds_direct(rng)
            info["origin"] = "round-structured direct drive (same-number ballots, held Accepts, retries, heal)"
        else:
            c, info = P.random_direct(rng, strat=P.STRATS[k % len(P.STRATS)])
            info["origin"] = "random direct drive"
        add(c.rec, info)
    for k in range(n_prog):
        n = (3, 4, 5)[k % 3]
        if k % 2:
            c, info = P.random_direct(rng, n=n, progress=True, max_steps=400)
            rec, ok = c.rec, info["drained"]
            info["origin"] = "fault-free single proposer (direct drive, all messages delivered)"
        else:
            rec, info = P.sim_run(rng, n=n, progress=True)
            ok = True
            info["origin"] = "fault-free single proposer (real Simulation, bounded delays)"
        add(rec, info, mode="progress" if ok else "safety", pval=1)
    for k in range(n_sim):
        rec, info = P.sim_run(rng)
        info["origin"] = "real Simulation, scripted latencies"
        add(rec, info)
    gen_s = time.time() - t0
    yield "generated"

    res = jobs.result("paxos_clean")
    chk.add_tlc("Paxos Dev={} (N=3, two competing proposers, retries, ballots<=2" +
                (", propose() only while no Prepare is in flight)" if tier == "quick" else ", propose() at any time)"), res)
    chk.require(res.ok, f"Paxos.tla with Dev={{}} violates {res.violated}: the corrected design is wrong")
    if tier != "quick":
        res = jobs.result("paxos_clean2")
        chk.add_tlc("Paxos Dev={} (two proposers, learners = Decided broadcast delivered, ballots<=2)", res)
        chk.require(res.ok, f"Paxos.tla with Dev={{}} violates {res.violated}")
    res = jobs.result("paxos_live_clean")
    chk.add_tlc("Paxos Dev={} FairSpec: single proposer, learners, Progress", res)
    chk.require(res.ok, f"Paxos.tla Dev={{}} single proposer violates {res.violated}")
    res = jobs.result("paxos_live_ascode")
    chk.add_tlc("Paxos as-code FairSpec: Progress of the single proposer + state graph", res)
    chk.require(res.ok, f"Paxos.tla as-code single proposer violates {res.violated}")
    res = jobs.result("paxos_clean_cut")
    chk.add_tlc("Paxos Dev={} (n1,n3 propose at any time" + (", once each" if tier == "quick" else ", up to 3 proposals") +
                ", partitioned from each other, same ballot numbers, retries, ballots<=3)", res)
    chk.require(res.ok, f"Paxos.tla with Dev={{}} violates {res.violated} (partitioned proposers)")
    res = jobs.result("paxos_clean_overtake")
    chk.add_tlc("Paxos Dev={} (n2,n3 compete with the same ballot number; n3's Prepare to n1 and n2's Prepare to n3 "
                "are lost, Accepts overtake them; retries, ballots<=2)", res)
    chk.require(res.ok, f"Paxos.tla with Dev={{}} violates {res.violated} (Accept overtakes Prepare)")
    res = jobs.result("paxos_tour_cut")
    chk.add_tlc("Paxos as-code, partitioned competing proposers n1|n3: full state graph (dot)", res, count=False)
    # exhaustive tours of the two small as-code graphs, schedule replay on the real nodes
    for lab, what, cap in (("C12_paxos_live_ascode", "single-proposer", 60), ("C12_paxos_tour_cut", "partitioned-proposers", 160)):
        dot = tlc.WORK / lab / "graph.dot"
        g = tlc.parse_dot(dot)
        n_paths = 0
        for root, path in tlc.edge_tour(g, max_paths=cap if tier == "quick" else None, rng=rng):
            states = [g.nodes[root]] + [g.nodes[d] for _, d in path]
            c, skipped = P.replay_choices(3, P.choices_from_states(states))
            chk.replays += 1
            n_paths += 1
            add(c.rec, {"origin": f"edge tour of the {what} state graph", "skipped": skipped})
        dot.unlink(missing_ok=True)
        chk.extra["paxos_tour_" + what] = {"states": len(g.nodes), "edges": g.n_edges(), "paths": n_paths}
    # sensitivity + counterexample replay on the real nodes (R1)
    for dev in PAXOS_ALL:
        res = jobs.result(f"paxos_dev_{dev}")
        chk.add_tlc(f"Paxos Dev={{{dev}}}", res, count=False, note="sensitivity run, must violate")
        chk.require(res.violated in PAXOS_INVS, f"deviation {dev} not caught (got {res.violated})")
        chk.sensitivity[dev] = res.violated
        states = [st for _, st in res.trace]
        c, skipped = P.replay_choices(3, P.choices_from_states(states))
        chk.replays += 1
        add(c.rec, {"origin": f"TLC counterexample for Dev={{{dev}}} ({res.violated})", "skipped": skipped})

    pre = yield [(SPEC / "PaxosTrace.tla", T.traces, PAXOS_ALL, "C12_paxos_trace", parallel)]
    stats = judge(chk, "paxos", SPEC / "PaxosTrace.tla", T.traces, T.meta, PAXOS_ALL, "C12_paxos_trace", parallel, pre[0])
    stats["generation_s"] = round(gen_s, 1)
    chk.extra["paxos"] = stats
    t = T.traces[-1]
    chk.sample({"family": "paxos", "meta": T.meta[t["id"]], "n": t["n"], "steps": t["steps"][:8]})


# ---------------------------------------------------------------------------
# Multi-Paxos / Flexible Paxos

MULTI_DEVS = ["takeover_ignores_promised_entries", "slot_acks_ignore_ballot", "accept_keeps_leadership",
              "accept_rewrites_log_blindly", "self_heartbeat_demotes_leader"]
MULTI_INVS = ["InvAgreement", "InvValidity", "InvFutureTruth"]
MULTI_PLAUSIBLE = ["commit_scan_stops_at_acked_slot"]       # plausible mutation of the repaired _handle_accepted
MULTI_ALL = MULTI_DEVS + MULTI_PLAUSIBLE


def multi_consts(n=3, flex=False, q1=2, q2=2, cands="{1,2}", subs="{1,2}", maxb=2, starts=2, cmds=2, ticks=0,
                 hb=False, leaderonly=False, quiet=False, prefix="PrefixNone", dev=()):
    return {"N": n, "Flex": tf(flex), "Q1": q1, "Q2": q2, "Candidates": cands, "Submitters": subs, "MaxBallot": maxb,
            "MaxStarts": starts, "MaxCmds": cmds, "MaxTicks": ticks, "HB": tf(hb), "LeaderOnly": tf(leaderonly),
            "QuietTicks": tf(quiet), "Prefix": "<- " + prefix, "Dev": dev_set(dev)}


# envelope in which each deviation, switched on alone, breaks a contract invariant (found with TLC)
MULTI_SENS = {
    "takeover_ignores_promised_entries": dict(cands="{3}", subs="{3}", starts=2, cmds=2, maxb=2,
                                              prefix="PrefixLeader1Commit"),
    "accept_rewrites_log_blindly": dict(cands="{}", subs="{1}", starts=1, cmds=2, maxb=1, hb=True, ticks=1, flex=True,
                                        prefix="PrefixLeader1"),
    "accept_keeps_leadership": dict(cands="{}", subs="{1,2}", starts=2, cmds=3, maxb=2, hb=True, ticks=1,
                                    prefix="PrefixImpostor"),
    "slot_acks_ignore_ballot": dict(cands="{3}", subs="{}", starts=4, cmds=3, maxb=3, prefix="PrefixOrphanAck"),
}
MULTI_LIVE = dict(cands="{}", subs="{1}", starts=1, cmds=1, maxb=1, hb=True, quiet=True, leaderonly=True,
                  prefix="PrefixLeader1")


def multi_jobs(jobs, tier):
    big, small = max(2, W // 2), 2
    M = "Multi.tla"
    # corrected design
    clean = [("multi_clean_takeover", MULTI_SENS["takeover_ignores_promised_entries"]),
             ("multi_clean_accept", MULTI_SENS["accept_rewrites_log_blindly"])]
    if tier != "quick":
        clean += [("multi_clean_impostor", MULTI_SENS["accept_keeps_leadership"]),
                  ("multi_clean_free", dict(cands="{1,2}", subs="{1,2}", starts=2, cmds=1, maxb=2, leaderonly=True)),
                  ("multi_clean_flex13", dict(cands="{1,2}", subs="{1,2}", starts=2, cmds=1, maxb=2, leaderonly=True,
                                              flex=True, q1=3, q2=1)),
                  ("multi_clean_flex31", dict(MULTI_SENS["accept_rewrites_log_blindly"], q1=1, q2=3))]
    for name, kw in clean:
        jobs.submit(name, lambda name=name, kw=kw: mc(M, name, multi_consts(**kw), MULTI_INVS, ["PropStability"],
                                                      workers=big))
    for dev, kw in MULTI_SENS.items():
        jobs.submit(f"multi_dev_{dev}", lambda dev=dev, kw=kw: mc(M, f"multi_dev_{dev[:14]}", multi_consts(dev=[dev], **kw),
                                                                  MULTI_INVS, workers=big))
    # fault-free clause (liveness): established leader, commands only to it, ticks at network quiescence
    jobs.submit("multi_live_clean", lambda: mc(M, "multi_live_clean", multi_consts(**MULTI_LIVE), [], ["Progress"],
                                               spec="FairSpec", workers=small))
    jobs.submit("multi_live_dev", lambda: mc(M, "multi_live_dev", multi_consts(dev=["self_heartbeat_demotes_leader"],
                                                                               **MULTI_LIVE), [], ["Progress"],
                                             spec="FairSpec", workers=small))
    jobs.submit("flex_live_dev_scan", lambda: mc(M, "flex_live_dev_scan", multi_consts(
        dev=["commit_scan_stops_at_acked_slot"], **dict(MULTI_LIVE, flex=True, cmds=2)), [], ["Progress"],
        spec="FairSpec", workers=small))
    if tier != "quick":
        jobs.submit("flex_live_clean", lambda: mc(M, "flex_live_clean", multi_consts(**dict(MULTI_LIVE, flex=True, cmds=2)),
                                                  [], ["Progress"], spec="FairSpec", workers=small))
    # small as-code graph for the edge tour (Multi-Paxos as coded, one leader, one command, one tick)
    jobs.submit("multi_tour", lambda: mc(M, "multi_tour", multi_consts(cands="{}", subs="{1}", starts=1, cmds=1, maxb=1,
                                                                       hb=True, ticks=1, prefix="PrefixLeader1",
                                                                       dev=open_devs(MULTI_DEVS)), workers=small, dot=True))
    jobs.submit("multi_nonintersecting", lambda: mc(M, "multi_nonintersect", multi_consts(
        flex=True, q1=1, q2=2, cands="{1,3}", subs="{1,3}", starts=2, cmds=2, maxb=1), MULTI_INVS, workers=small))


def run_multi(chk, jobs, tier, rng, parallel):
    from . import c12_multi as M
    t0 = time.time()
    T = Traces(chk, "multi")

    def add(rec, info, mode="safety", pcmds=()):
        T.add(lambda tid: rec.trace(tid, info["cfg"], mode=mode, pcmds=pcmds), info, rec.error)

    n_direct, n_sim, n_prog = (100, 10, 12) if tier == "quick" else (720, 72, 96)
    for k in range(n_direct):
        cfg = M.random_cfg(rng, flex=bool(k % 2))
        c, info = M.random_direct(rng, cfg=cfg, strat=M.STRATS[k % len(M.STRATS)])
        info["origin"] = "random direct drive"
        add(c.rec, info)
    for k in range(n_prog):
        cfg = M.random_cfg(rng, flex=bool(k % 2))
        if k % 4 < 2:
            c, info, cmds = M.progress_direct(rng, cfg)
            rec = c.rec
            info["origin"] = "fault-free established leader (direct drive, bounded delays)"
        else:
            rec, info, cmds = M.sim_run(rng, cfg=cfg, progress=True)
            info["origin"] = "fault-free established leader (real Simulation, bounded delays)"
        add(rec, info, mode="progress", pcmds=cmds)
    for k in range(n_sim):
        rec, info, _ = M.sim_run(rng, cfg=M.random_cfg(rng, flex=bool(k % 2)))
        info["origin"] = "real Simulation, scripted latencies"
        add(rec, info)
    gen_s = time.time() - t0
    yield "generated"

    clean = ["multi_clean_takeover", "multi_clean_accept"]
    if tier != "quick":
        clean += ["multi_clean_impostor", "multi_clean_free", "multi_clean_flex13", "multi_clean_flex31"]
    for name in clean:
        res = jobs.result(name)
        chk.add_tlc(f"Multi/Flexible Paxos Dev={{}} {name[12:]}", res)
        chk.require(res.ok, f"Multi.tla with Dev={{}} violates {res.violated} in {name}: the corrected design is wrong")
    for name in ("multi_live_clean", "flex_live_clean")[:1 if tier == "quick" else 2]:
        res = jobs.result(name)
        chk.add_tlc(f"{name}: FairSpec, established leader, Progress", res)
        chk.require(res.ok, f"Multi.tla Dev={{}} {name} violates {res.violated}")
    res = jobs.result("multi_live_dev")
    chk.add_tlc("Multi Dev={self_heartbeat_demotes_leader} FairSpec Progress", res, count=False,
                note="sensitivity run, must violate")
    chk.require(res.violated == "temporal", f"deviation self_heartbeat_demotes_leader not caught (got {res.violated})")
    chk.sensitivity["self_heartbeat_demotes_leader"] = "Progress"
    res = jobs.result("flex_live_dev_scan")
    chk.add_tlc("Flexible Dev={commit_scan_stops_at_acked_slot} FairSpec Progress, 2 commands", res, count=False,
                note="sensitivity run, must violate")
    chk.require(res.violated == "temporal", f"deviation commit_scan_stops_at_acked_slot not caught (got {res.violated})")
    chk.sensitivity["commit_scan_stops_at_acked_slot(plausible mutation)"] = "Progress"
    res = jobs.result("multi_nonintersecting")
    chk.add_tlc("Flexible Paxos Dev={} with NON-intersecting quorums Q1=1,Q2=2,N=3", res, count=False,
                note="must violate: shows Agreement depends on Q1+Q2>N")
    chk.require(res.violated in MULTI_INVS, f"non-intersecting quorums not caught (got {res.violated})")
    chk.sensitivity["nonintersecting_quorums(model only)"] = res.violated
    base = {"n": 3, "flex": False, "q1": 2, "q2": 2}
    for dev, kw in MULTI_SENS.items():
        res = jobs.result(f"multi_dev_{dev}")
        chk.add_tlc(f"Multi Dev={{{dev}}} from {kw['prefix']}", res, count=False, note="sensitivity run, must violate")
        chk.require(res.violated in MULTI_INVS, f"deviation {dev} not caught (got {res.violated})")
        chk.sensitivity[dev] = res.violated
        cfg = dict(base, flex=bool(kw.get("flex")), q1=kw.get("q1", 2), q2=kw.get("q2", 2))
        c, skipped = M.replay_choices(cfg, M.choices_from_states([st for _, st in res.trace]), M.PREFIXES[kw["prefix"]])
        chk.replays += 1
        add(c.rec, {"cfg": cfg, "origin": f"TLC counterexample for Dev={{{dev}}} ({res.violated})", "skipped": skipped})
    res = jobs.result("multi_tour")
    chk.add_tlc("Multi-Paxos as-code, established leader, one command, one tick: full state graph (dot)", res, count=False)
    dot = tlc.WORK / "C12_multi_tour" / "graph.dot"
    g = tlc.parse_dot(dot)
    n_paths = 0
    for root, path in tlc.edge_tour(g, max_paths=100 if tier == "quick" else 1500, rng=rng):
        states = [g.nodes[root]] + [g.nodes[d] for _, d in path]
        c, skipped = M.replay_choices(base, M.choices_from_states(states), M.PREFIXES["PrefixLeader1"])
        chk.replays += 1
        n_paths += 1
        add(c.rec, {"cfg": base, "origin": "edge tour of the established-leader state graph", "skipped": skipped})
    dot.unlink(missing_ok=True)
    chk.extra["multi_tour"] = {"states": len(g.nodes), "edges": g.n_edges(), "paths": n_paths}

    pre = yield [(SPEC / "MultiTrace.tla", T.traces, MULTI_ALL, "C12_multi_trace", parallel)]
    stats = judge(chk, "multi", SPEC / "MultiTrace.tla", T.traces, T.meta, MULTI_ALL, "C12_multi_trace", parallel, pre[0])
    stats["generation_s"] = round(gen_s, 1)
    chk.extra["multi"] = stats
    t = T.traces[0]
    chk.sample({"family": "multi", "meta": T.meta[t["id"]], "steps": t["steps"][:5]})


# ---------------------------------------------------------------------------
# leader election and distributed lock

def misc_jobs(jobs, tier):
    small = 2
    big = tier != "quick"
    ec = {"N": 3, "Strategies": '{"bully","ring","random"}', "MaxTerm": 3, "MaxChecks": 3 if big else 2,
          "Dev": "{}"}
    jobs.submit("elect_clean", lambda: mc("Election.tla", "elect_clean", ec, ["InvOneLeaderPerTerm"], workers=small if not big else W // 2))
    jobs.submit("elect_dev", lambda: mc("Election.tla", "elect_dev", dict(ec, Strategies='{"ring"}',
                                                                          Dev='{"ring_winner_is_initiator"}'),
                                        ["InvOneLeaderPerTerm"], workers=small))
    lc = {"Locks": "{1,2}", "Clients": "{1,2,3}", "MaxOps": 6 if big else 5, "MaxWaiters": 0, "Dev": "{}"}
    jobs.submit("lock_clean", lambda: mc("Lock.tla", "lock_clean", lc, ["InvTokensIncrease"], workers=small))
    jobs.submit("lock_dev", lambda: mc("Lock.tla", "lock_dev", dict(lc, Dev='{"waiter_inherits_token"}'),
                                       ["InvTokensIncrease"], workers=small))


def run_misc(chk, jobs, tier, rng, parallel):
    from . import c12_misc as X
    E, L = Traces(chk, "elect"), Traces(chk, "lock")
    n_e, n_es, n_l, n_ls = (30, 6, 40, 8) if tier == "quick" else (270, 54, 360, 72)
    for k in range(n_e):
        rec, info = X.election_direct(rng, strategy=("bully", "ring", "random")[k % 3])
        info["origin"] = "random direct drive"
        E.add(rec.trace, info, rec.error)
    for k in range(n_es):
        rec, info = X.election_sim(rng, strategy=("bully", "ring", "random")[k % 3])
        info["origin"] = "real Simulation, scripted latencies"
        E.add(rec.trace, info, rec.error)
    for k in range(n_l):
        rec, info = X.lock_direct(rng)
        info["origin"] = "random direct drive"
        L.add(rec.trace, info, rec.error)
    for k in range(n_ls):
        rec, info = X.lock_sim(rng)
        info["origin"] = "real Simulation (lease expiry events scheduled by the engine)"
        L.add(rec.trace, info, rec.error)
    yield "generated"
    res = jobs.result("elect_clean")
    chk.add_tlc("Election (bully, ring, randomized; N=3)", res)
    chk.require(res.ok, f"Election.tla violates {res.violated}")
    res = jobs.result("elect_dev")
    chk.add_tlc("Election Dev={ring_winner_is_initiator}", res, count=False, note="sensitivity run, must violate")
    chk.require(res.violated == "InvOneLeaderPerTerm", f"ring_winner_is_initiator not caught (got {res.violated})")
    chk.sensitivity["ring_winner_is_initiator(plausible mutation)"] = res.violated
    res = jobs.result("lock_clean")
    chk.add_tlc("Lock manager (2 locks, 3 clients)", res)
    chk.require(res.ok, f"Lock.tla violates {res.violated}")
    res = jobs.result("lock_dev")
    chk.add_tlc("Lock Dev={waiter_inherits_token}", res, count=False, note="sensitivity run, must violate")
    chk.require(res.violated == "InvTokensIncrease", f"waiter_inherits_token not caught (got {res.violated})")
    chk.sensitivity["waiter_inherits_token(plausible mutation)"] = res.violated
    pre = yield [(SPEC / "ElectionTrace.tla", E.traces, [], "C12_elect_trace", parallel),
                 (SPEC / "LockTrace.tla", L.traces, [], "C12_lock_trace", parallel)]
    chk.extra["elect"] = judge(chk, "elect", SPEC / "ElectionTrace.tla", E.traces, E.meta, [], "C12_elect_trace", parallel, pre[0])
    chk.extra["lock"] = judge(chk, "lock", SPEC / "LockTrace.tla", L.traces, L.meta, [], "C12_lock_trace", parallel, pre[1])


# ---------------------------------------------------------------------------

FAMILIES = ("paxos", "multi", "misc")


def run(tier, seed, replay=None):
    quiet_logging()
    chk = Check("C12", tier, seed)
    if replay:
        return do_replay(chk, replay)
    rng = random.Random(seed)
    state = random.getstate()
    only = [f for f in os.environ.get("C12_ONLY", "").split(",") if f] or FAMILIES
    jobs = Jobs(max_parallel=6 if tier == "quick" else 5)
    try:
        # big model-checking jobs first, they run while the real-code executions are generated
        if "paxos" in only:
            paxos_jobs(jobs, tier)
        if "multi" in only:
            multi_jobs(jobs, tier)
        if "misc" in only:
            misc_jobs(jobs, tier)
        # stage 1 (sequential, deterministic): seeded real executions of every family while TLC is busy
        stages = []
        if "paxos" in only:
            stages.append(run_paxos(chk, jobs, tier, random.Random(rng.random()), parallel=3))
        if "multi" in only:
            stages.append(run_multi(chk, jobs, tier, random.Random(rng.random()), parallel=3))
        if "misc" in only:
            stages.append(run_misc(chk, jobs, tier, random.Random(rng.random()), parallel=1))
        for g in stages:
            next(g)
        # stage 2: model-checking results, replays of TLC behaviours; each family then asks for validation
        requests = [next(g) for g in stages]
        for reqs in requests:
            for (_, traces, devs, _, _) in reqs:
                as_code_for(traces, devs)
        # stage 3: all trace validations concurrently (one TLC process per chunk)
        with ThreadPoolExecutor(max_workers=8) as ex:
            futs = [[ex.submit(validate, m, tr, lab, par) for (m, tr, _, lab, par) in reqs] for reqs in requests]
            pres = [[f.result() for f in fs] for fs in futs]
        # stage 4: verdicts
        for g, pre in zip(stages, pres):
            try:
                g.send(pre)
            except StopIteration:
                pass
    finally:
        jobs.close()
        random.setstate(state)
    chk.exhaustive = False
    chk.explanation = (
        "TLC explores each implementation-shaped model exhaustively inside small envelopes (3 nodes; ballots<=2-3; "
        "<=3 commands; multi-slot runs start from states reached by fixed schedule prefixes); the corrected design "
        "(Dev={}) satisfies every contract invariant there and each deviation alone breaks one.  The real objects are "
        "bound by schedule replay of TLC behaviours and by seeded adversarial schedules (3-5 nodes, all quorum pairs) "
        "whose recorded executions are re-run step by step against the model by the trace specs.")
    chk.assumptions = [
        "message loss and partitions are modelled as messages that are never delivered (for the safety clauses "
        "an undelivered message and a lost one are indistinguishable); the Network never duplicates",
        "clients call propose() and, unless the returned future is already resolved, start_phase1() in the same "
        "event handler (as every test and example of the repository does); commands are handed to Multi/Flexible "
        "Paxos with submit() followed, on a node that reports is_leader, by _replicate_slot(last_index) exactly as "
        "examples/distributed/flexible_paxos_quorums.py does (submit() alone never sends anything)",
        "a future that is still pending under an adversarial network is not a violation (safety reading of "
        "'a proposer's future resolves with the decided value'); on fault-free runs it must resolve",
        "a node 'reports a decided value for slot s' iff s <= log.commit_index; the value is log.get(s).command",
        "leader election: every node knows the full, identical member list; fencing tokens are compared per lock name",
    ]
    return chk.finish()


def do_replay(chk, path):
    """Re-judge a saved failing execution with the current specs and known findings."""
    data = json.loads(open(path).read())
    rep = data["replay"]
    fam = rep["family"]
    module, devs = {"paxos": ("PaxosTrace.tla", PAXOS_ALL), "multi": ("MultiTrace.tla", MULTI_ALL),
                    "elect": ("ElectionTrace.tla", []), "lock": ("LockTrace.tla", [])}[fam]
    t = rep["trace"]
    t["id"] = 1
    meta = {1: dict(rep.get("meta", {}), origin="replay of " + os.path.basename(path))}
    chk.extra[fam] = judge(chk, fam, SPEC / module, [t], meta, devs, "C12_replay", 1)
    chk.assumptions = ["recorded execution re-judged; to re-execute the schedule on the current tree use the choices "
                       "in replay.meta with harness.families.c12_* replay_choices()"]
    return chk.finish()
