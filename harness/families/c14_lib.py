"""C14 helper: run client scripts against the real storage engines inside a real Simulation and
project histories / final states into the vocabulary of specs/storage/Storage.tla."""
from __future__ import annotations

import itertools
import json

from happysimulator.components.datastore.kv_store import KVStore
from happysimulator.components.storage import lsm_tree as _lsm
from happysimulator.components.storage.btree import BTree
from happysimulator.components.storage.lsm_tree import (FIFOCompaction, LeveledCompaction, LSMTree,
                                                        SizeTieredCompaction)
from happysimulator.components.storage.sstable import SSTable
from happysimulator.core.entity import Entity
from happysimulator.core.event import Event
from happysimulator.core.simulation import Simulation
from happysimulator.core.temporal import Instant

TOMB = -1
MEMTABLE_LATENCY_NS = 10_000          # Memtable(write_latency=0.00001), not configurable through LSMTree

CFG_DEFAULT = dict(engine="lsm", memsize=1, strat="st", thr=2, base=1, ratio=2, maxlev=2, ML=1, W=2, RL=1,
                   order=3, BR=1, BW=2, KR=1, KW=2, KD=2, fp=[], dev=[])


# ---------------------------------------------------------------------------
# key universes: model key i (1..nk)  <->  string, order preserving; bloom behaviour known

_CAND = [f"k{c}" for c in "abcdefghijklmnopqrstuvwxyz"] + [f"q{i:02d}" for i in range(40)]
_UNIVERSES = {}


def bloom_fp(names):
    """All (keyset, key) with key not in keyset for which an SSTable holding exactly keyset answers
    `contains(key)` = True (bloom filter false positive).  Deterministic (sha256 based filter)."""
    fps = []
    for r in range(1, len(names) + 1):
        for sub in itertools.combinations(range(len(names)), r):
            sst = SSTable([(names[i], 0) for i in sub])
            for j in range(len(names)):
                if j not in sub and sst.contains(names[j]):
                    fps.append([[i + 1 for i in sub], j + 1])
    return fps


def universe(nk, want_fp=False):
    """Sorted key names for model keys 1..nk with no bloom false positive at all (want_fp=False) or with
    at least one (want_fp=True); returns (names, fp_relation)."""
    key = (nk, want_fp)
    if key in _UNIVERSES:
        return _UNIVERSES[key]
    cands = sorted(_CAND)
    start = 0
    while True:
        names = cands[start:start + nk]
        if len(names) < nk:
            raise RuntimeError("no key universe found")
        fps = bloom_fp(names)
        if bool(fps) == want_fp:
            _UNIVERSES[key] = (names, fps)
            return names, fps
        start += 1


def plain_names(nk):
    """Sorted key names without any bloom analysis (engines that have no bloom filter)."""
    return sorted(_CAND)[:nk]


def universe_with(nk, fps):
    """Sorted key names whose real bloom false-positive relation is exactly `fps` (None if none found)."""
    want = sorted(fps)
    key = (nk, json.dumps(want))
    if key not in _UNIVERSES:
        found = None
        for names in itertools.combinations(sorted(_CAND), nk):
            if sorted(bloom_fp(list(names))) == want:
                found = list(names)
                break
        _UNIVERSES[key] = found
    return _UNIVERSES[key]


# ---------------------------------------------------------------------------

def exact_latency(ns, mults=range(1, 9)):
    """A float number of seconds f with int(k * f * 1e9) == k * ns for the multipliers the code uses."""
    for eps in (0.0001, 0.001, 0.01, 0.00001):
        f = (ns + eps) / 1e9
        if all(int(k * f * 1_000_000_000) == k * ns for k in mults) and int(float(f) * 1_000_000_000) == ns:
            return f
    raise RuntimeError(f"no exact float for {ns} ns")


def tick_ns_of(cfg):
    if cfg["engine"] == "lsm":
        q, r = divmod(MEMTABLE_LATENCY_NS, cfg["ML"])
        if r:
            raise ValueError("ML must divide 10000 ns")
        return q
    return 1000


def build_store(cfg):
    t = tick_ns_of(cfg)
    e = cfg["engine"]
    if e == "lsm":
        strat = {"st": lambda: SizeTieredCompaction(min_sstables=cfg["thr"]),
                 "lv": lambda: LeveledCompaction(level_0_max=cfg["thr"], size_ratio=cfg["ratio"],
                                                 base_size_keys=cfg["base"]),
                 "fifo": lambda: FIFOCompaction(max_total_sstables=cfg["thr"])}[cfg["strat"]]()
        return LSMTree("db", memtable_size=cfg["memsize"], compaction_strategy=strat,
                       sstable_read_latency=exact_latency(cfg["RL"] * t),
                       sstable_write_latency=exact_latency(cfg["W"] * t), max_levels=cfg["maxlev"])
    if e == "btree":
        return BTree("db", order=cfg["order"], page_read_latency=exact_latency(cfg["BR"] * t),
                     page_write_latency=exact_latency(cfg["BW"] * t))
    if e == "kv":
        return KVStore("db", read_latency=exact_latency(cfg["KR"] * t), write_latency=exact_latency(cfg["KW"] * t),
                       delete_latency=exact_latency(cfg["KD"] * t))
    raise ValueError(e)


class World:
    def __init__(self, cfg, scripts, names, yield_from=False):
        self.cfg, self.scripts, self.names = cfg, scripts, names
        self.idx = {n: i + 1 for i, n in enumerate(names)}
        self.tick = tick_ns_of(cfg)
        self.store = build_store(cfg)
        self.hist = []
        self.yield_from = yield_from
        self.bad_time = False
        self.clients = [_Client(c + 1, self) for c in range(len(scripts))]

    def ticks(self, ns):
        q, r = divmod(ns, self.tick)
        if r:
            self.bad_time = True
        return q

    def delay(self, k):
        return 0.0 if k == 0 else exact_latency(k * self.tick, mults=(1,))

    def name(self, i):
        # keys outside the universe (scan bounds): below "first" / above "last"
        if i <= 0:
            return ""
        if i > len(self.names):
            return "~"
        return self.names[i - 1]

    def enc_val(self, v):
        if v is None:
            return 0
        if v is _lsm._TOMBSTONE:
            return TOMB
        if isinstance(v, bool):
            return 1 if v else 0
        if isinstance(v, int):
            return v
        return -2

    def enc_rows(self, rows):
        return [[self.idx.get(k, 99), self.enc_val(v)] for k, v in rows]

    def run(self):
        sim = Simulation(entities=[self.store, *self.clients])
        for c in self.clients:
            sim.schedule(Event(time=Instant(0), event_type="go", target=c))
        err = None
        try:
            sim.run()
        except Exception as ex:                       # noqa: BLE001 - recorded as an observation
            err = f"{type(ex).__name__}: {ex}"
        return err


class _Client(Entity):
    def __init__(self, c, w):
        super().__init__(f"client{c}")
        self.c, self.w = c, w

    def handle_event(self, event):
        w = self.w
        store = w.store
        for st in w.scripts[self.c - 1]:
            yield w.delay(st["th"])
            k = st["k"]
            rec = dict(c=self.c, k=k, key=st["key"], hi=st["hi"], val=st["val"],
                       inv=w.ticks(self.now.nanoseconds), ret=-1, res=0, rows=[])
            w.hist.append(rec)
            if k == "put":
                gen = store.put(w.name(st["key"]), st["val"])
            elif k == "del":
                gen = store.delete(w.name(st["key"]))
            elif k == "get":
                gen = store.get(w.name(st["key"]))
            else:
                gen = store.scan(w.name(st["key"]), w.name(st["hi"]))
            if w.yield_from:
                result = yield from gen
            else:                                      # same thing, spelled out
                result = None
                try:
                    d = next(gen)
                    while True:
                        yield d
                        d = gen.send(None)
                except StopIteration as stop:
                    result = stop.value
            rec["ret"] = w.ticks(self.now.nanoseconds)
            if k == "scan":
                rec["rows"] = w.enc_rows(result if result is not None else [])
            else:
                rec["res"] = w.enc_val(result)


# ---------------------------------------------------------------------------
# projections of the final state (same shape as StorageTrace.tla!Proj)

def _pairs(w, items):
    return sorted([w.idx.get(k, 99), w.enc_val(v)] for k, v in items)


def _nest(w, node):
    return {"leaf": bool(node.leaf), "keys": [w.idx.get(k, 99) for k in node.keys],
            "vals": [w.enc_val(v) for v in node.values], "ch": [_nest(w, c) for c in node.children]}


def project(w):
    s = w.store
    e = w.cfg["engine"]
    if e == "lsm":
        return {"mem": _pairs(w, s._memtable._data.items()),
                "imm": [_pairs(w, im._data.items()) for im in s._immutable_memtables],
                "lv": [[_pairs(w, zip(t._keys, t._values)) for t in level] for level in s._levels]}
    if e == "btree":
        return {"depth": s._depth, "bt": _nest(w, s._root)}
    return {"kv": _pairs(w, s._data.items())}


def run_program(cfg, scripts, names, yield_from=False):
    w = World(cfg, scripts, names, yield_from)
    err = w.run()
    final = project(w) if err is None else {"error": 1}
    return w, err, final


def to_trace(tid, cfg, scripts, w, final):
    c = dict(CFG_DEFAULT)
    c.update(cfg)
    return {"id": tid, "cfg": c, "script": scripts, "hist": w.hist, "final": final}
