"""C08 real-code side: builds real happysimulator components, instruments them from outside
(instance-level wrappers, a recording QueuePolicy proxy, harness entities) and records the
observable vocabulary of specs/queue/QueueTrace.tla.  Nothing in /repo is modified.

Log record: [op, item, t, active, limit, depth, x, c]
  op    psh rej pop pop0 sta rjq req fin snk lim end
  t     tick (simulated nanoseconds / tick_ns)
  x     drops the policy reports itself (DeadlineQueue.expired), else 0
  c     every rejection the component publishes: queue.stats_dropped + requests_rejected /
        reneged / ... + x
Sampling points: push/pop records are completed when Queue.handle_event returns (the handler is
the linearization point), worker records right after the generator segment ran.
"""
from __future__ import annotations

import random
from collections.abc import Generator

from happysimulator.components.industrial.balking import BalkingQueue
from happysimulator.components.industrial.reneging import RenegingQueuedResource
from happysimulator.components.industrial.shift_schedule import Shift, ShiftedServer, ShiftSchedule
from happysimulator.components.queue_policies import DeadlineQueue, FairQueue, WeightedFairQueue
from happysimulator.components.queue_policy import FIFOQueue, LIFOQueue, PriorityQueue, QueuePolicy
from happysimulator.components.queued_resource import QueuedResource
from happysimulator.components.server.concurrency import DynamicConcurrency, WeightedConcurrency
from happysimulator.components.server.server import Server
from happysimulator.core.entity import Entity
from happysimulator.core.event import Event
from happysimulator.core.simulation import Simulation
from happysimulator.core.temporal import Duration, Instant
from happysimulator.distributions.latency_distribution import LatencyDistribution

INF = 999999
BIG_S = 10 ** 6          # "never" (seconds) for the last shift boundary


def item_of(event) -> int:
    return event.context.get("metadata", {}).get("i", 0)


# ---------------------------------------------------------------------------
# policies

def make_policy(prm, W, clock=None, tick_ns=10 ** 9, key_of=None):
    """Real policy object for a parameter record (see Policies.tla).  Items are Events whose
    metadata carry p (priority / deadline tick) and f (flow)."""
    kind = prm["kind"]
    cap = float("inf") if prm["cap"] >= INF else prm["cap"]
    meta = key_of or (lambda e: e.context["metadata"])
    if kind == "fifo":
        pol = FIFOQueue(capacity=cap)
    elif kind == "lifo":
        pol = LIFOQueue(capacity=cap)
    elif kind == "prio":
        pol = PriorityQueue(capacity=cap, key=lambda e: meta(e)["p"])
    elif kind == "deadline":
        pol = DeadlineQueue(get_deadline=lambda e: Instant(meta(e)["p"] * tick_ns),
                            capacity=None if prm["cap"] >= INF else prm["cap"], clock_func=clock)
    elif kind == "fair":
        pol = FairQueue(get_flow_id=lambda e: f"flow{meta(e)['f']}",
                        max_flows=None if prm["mxf"] >= INF else prm["mxf"],
                        per_flow_capacity=None if prm["pfc"] >= INF else prm["pfc"])
    elif kind == "wfair":
        pol = WeightedFairQueue(get_flow_id=lambda e: f"flow{meta(e)['f']}",
                                get_weight=lambda fid: W[int(fid[4:]) - 1],
                                capacity=None if prm["cap"] >= INF else prm["cap"],
                                per_flow_capacity=None if prm["pfc"] >= INF else prm["pfc"])
    else:
        raise ValueError(kind)
    if prm["thr"] < INF:
        pol = BalkingQueue(pol, balk_threshold=prm["thr"], balk_probability={0: 0.0, 1: 1.0, 2: 0.5}[prm["bm"]])
    return pol


def policy_drops(pol) -> int:
    """Drops the policy reports itself (only DeadlineQueue discards accepted items)."""
    inner = pol.inner if isinstance(pol, BalkingQueue) else pol
    if isinstance(inner, DeadlineQueue):
        return inner.stats.expired
    return 0


def rep_cap(pol) -> int:
    c = pol.capacity
    return INF if c == float("inf") or c >= INF else int(c)


class RecPolicy(QueuePolicy):
    """Recording proxy around a real policy (the reference model is fed the same calls)."""

    def __init__(self, inner, rec):
        self._inner = inner
        self._rec = rec

    @property
    def capacity(self):
        return self._inner.capacity

    def push(self, item):
        acc = self._inner.push(item)
        self._rec.on_push(item, acc)
        return acc

    def pop(self):
        it = self._inner.pop()
        self._rec.on_pop(it)
        return it

    def peek(self):
        return self._inner.peek()

    def is_empty(self):
        return self._inner.is_empty()

    def __len__(self):
        return len(self._inner)


# ---------------------------------------------------------------------------
# recorder for one queue-fronted component

class Recorder:
    def __init__(self, tick_ns):
        self.tick_ns = tick_ns
        self.log = []
        self.pending = []        # records waiting for their end-of-handler sample
        self.res = None
        self.policy = None
        self.current = 0
        self.spin = 0
        self.sample_fn = None    # () -> (active, limit, extra_rejections)

    # -- sampling ----------------------------------------------------------
    def tick(self):
        ns = self.res.now.nanoseconds
        q, r = divmod(ns, self.tick_ns)
        return q if r == 0 else 777777

    def sample(self):
        active, limit, extra = self.sample_fn()
        x = policy_drops(self.policy)
        q = self.res._queue if hasattr(self.res, "_queue") else None
        dropped = q.stats_dropped if q is not None else 0
        return [active, INF if limit >= INF else limit, len(self.policy), x, dropped + extra + x]

    def rec(self, op, i, defer=False):
        r = [op, i, self.tick()]
        if defer:
            self.pending.append(r)
        else:
            self.flush()
            r.extend(self.sample())
        self.log.append(r)
        if len(self.log) > 20000:
            raise RuntimeError("C08 recorder overflow (spin?)")

    def flush(self):
        if self.pending:
            s = self.sample()
            for r in self.pending:
                r.extend(s)
            self.pending.clear()

    # -- observation points --------------------------------------------------
    def on_push(self, item, acc):
        self.rec("psh" if acc else "rej", item_of(item), defer=True)

    def on_pop(self, item):
        if item is None:
            self.rec("pop0", 0, defer=True)
        else:
            self.rec("pop", item_of(item), defer=True)


def instrument(res, rec: Recorder, rejected_fn):
    """Instance-level wrappers on a QueuedResource: queue handler (sampling point), worker adapter
    (start / finish / discard), the resource's own handler (limit changes)."""
    rec.res = res
    q = res._queue
    # proxy around whatever policy object the component actually installed
    rec.policy = q.policy
    q.policy = RecPolicy(q.policy, rec)
    q_orig = q.handle_event

    def q_handle(event):
        try:
            return q_orig(event)
        finally:
            rec.flush()

    q.handle_event = q_handle

    wk = res._worker
    wk_orig = wk.handle_event

    def drive(gen, i):
        before = rejected_fn()
        try:
            v = next(gen)
        except StopIteration as e:
            if rejected_fn() > before:
                rec.rec("rjq", i)
            else:
                rec.rec("sta", i)
                rec.rec("fin", i)
            return e.value
        rec.rec("sta", i)
        while True:
            sent = yield v
            try:
                rec.current = i
                v = gen.send(sent)
            except StopIteration as e:
                rec.rec("fin", i)
                return e.value

    def wk_handle(event):
        i = item_of(event)
        rec.current = i
        before = rejected_fn()
        out = wk_orig(event)
        if isinstance(out, Generator):
            return drive(out, i)
        if rejected_fn() > before:
            rec.rec("rjq", i)
        else:
            rec.rec("sta", i)
            rec.rec("fin", i)
        return out

    wk.handle_event = wk_handle

    r_orig = res.handle_event
    last = {"lim": None}

    def r_handle(event):
        if last["lim"] is None:
            last["lim"] = rec.sample_fn()[1]
        try:
            return r_orig(event)
        finally:
            lim = rec.sample_fn()[1]
            if lim != last["lim"]:
                last["lim"] = lim
                rec.rec("lim", 0)

    res.handle_event = r_handle


class Sink(Entity):
    def __init__(self, rec=None, name="sink"):
        super().__init__(name)
        self.rec = rec
        self.got = []

    def handle_event(self, event):
        i = item_of(event)
        self.got.append(i)
        if self.rec is not None:
            self.rec.rec("snk", i)
        return None


class Hop(Entity):
    """Forwarder: re-emits the item as a new event at the same instant (one more causal hop)."""

    def __init__(self, name, nxt, retarget=False):
        super().__init__(name)
        self.nxt = nxt
        self.retarget = retarget

    def handle_event(self, event):
        if self.retarget:
            event.target = self.nxt
            event.time = self.now
            return [event]
        return [Event(time=self.now, event_type=event.event_type, target=self.nxt, context=event.context)]


class ScriptedLatency(LatencyDistribution):
    """Service time of the item that is starting right now (read from the recorder)."""

    def __init__(self, rec, svc, tick_ns):
        super().__init__(0.0)
        self.rec, self.svc, self.tick_ns = rec, svc, tick_ns

    def get_latency(self, current_time):
        return Duration(self.svc[self.rec.current] * self.tick_ns)


# ---------------------------------------------------------------------------
# scenario run (shape of QueuePipe.tla scenarios, also used beyond its bounds)

PIPE_PRM = {"pfc": INF, "mxf": INF, "thr": INF, "bm": 0}


def run_scenario(sc, tick_ns=10 ** 9, retarget_hops=False, end_tick=None):
    """sc = dict(wk, lim, cap, pol, arr=[dict(t,h,s,p)], sh=dict(t,l)).  Returns the trace dict."""
    n = len(sc["arr"])
    rec = Recorder(tick_ns)
    prm = dict(PIPE_PRM, kind=sc["pol"], cap=sc["cap"])
    pol = make_policy(prm, [1])          # the configured policy
    sink = Sink(rec)
    svc = {j + 1: a["s"] for j, a in enumerate(sc["arr"])}
    tick_s = tick_ns // 10 ** 9
    assert tick_s * 10 ** 9 == tick_ns, "ticks are whole seconds (float conversions stay exact)"
    if sc["wk"] == "server":
        res = Server("srv", concurrency=sc["lim"], service_time=ScriptedLatency(rec, svc, tick_ns),
                     queue_policy=pol, downstream=sink)
        rec.sample_fn = lambda: (res.active_requests, res.concurrency, res._requests_rejected)
        instrument(res, rec, lambda: res._requests_rejected)
    else:
        sh = sc["sh"]
        if sh["t"] > 0:
            shifts = [Shift(0.0, float(sh["t"] * tick_s), sc["lim"]),
                      Shift(float(sh["t"] * tick_s), float(BIG_S), sh["l"])]
        else:
            shifts = [Shift(0.0, float(BIG_S), sc["lim"])]
        s0 = sc["arr"][0]["s"] if n else 1
        res = ShiftedServer("shf", ShiftSchedule(shifts, default_capacity=0), service_time=float(s0 * tick_s),
                            downstream=sink, policy=pol)
        rec.sample_fn = lambda: (res._active, res._current_capacity, 0)
        instrument(res, rec, lambda: 0)
    maxh = max([a["h"] for a in sc["arr"]], default=0)
    hops = []
    nxt = res
    for k in range(maxh):
        h = Hop(f"hop{k + 1}", nxt, retarget=retarget_hops)
        hops.append(h)
        nxt = h
    kw = {}
    if end_tick is not None:
        kw["end_time"] = Instant(end_tick * tick_ns)
    sim = Simulation(entities=[res, sink, *hops], **kw)
    for j, a in enumerate(sc["arr"], start=1):
        target = res if a["h"] == 0 else hops[a["h"] - 1]
        sim.schedule(Event(time=Instant(a["t"] * tick_ns), event_type="req", target=target,
                           context={"metadata": {"i": j, "p": a["p"], "f": 1}}))
    err = None
    try:
        sim.run()
    except Exception as ex:      # noqa: BLE001 - recorded as an observation
        err = f"{type(ex).__name__}: {ex}"
    rec.flush()
    rec.log.append(["end", 1 if end_tick is None else 0, rec.tick() if end_tick is None else end_tick,
                    *rec.sample()])
    q = res._queue
    completed = res.stats.requests_completed if sc["wk"] == "server" else res.processed
    tr = _trace(prm, rep_cap(pol), [1], [a["p"] for a in sc["arr"]], [1] * n, sc["lim"], rec.log,
                idle=1, order=1, cnt=1, sink=1, fin=[q.stats_accepted, completed], wk=sc["wk"], sc=sc)
    return tr, err


EMPTY_SC = {"wk": "server", "lim": 1, "cap": INF, "pol": "fifo", "arr": [], "sh": {"t": 0, "l": 0}}


def _trace(prm, rcap, W, P, F, lim0, log, *, idle, order, cnt, sink, fin, wk, allof=1, sc=None):
    return {"prm": prm, "rcap": rcap, "W": W, "P": P, "F": F, "lim0": lim0, "idle": idle, "order": order,
            "cnt": cnt, "sink": sink, "allof": allof, "hassc": 1 if sc else 0, "sc": sc or EMPTY_SC,
            "fin": fin, "log": log, "wk": wk}


# ---------------------------------------------------------------------------
# bare policy objects driven by direct calls (pure push/pop sequence machines)

class _Null(Entity):
    def handle_event(self, event):
        return None


_NULL = _Null("null")


def run_policy_ops(prm, W, ops, seed=0):
    """ops: ("psh", p, f) | ("pop",) | ("tick",).  Returns (trace, results) where results mirrors the
    `hist` variable of PoliciesMC.tla."""
    now = [0]
    tick_ns = 10 ** 9
    pol = make_policy(prm, W, clock=lambda: Instant(now[0] * tick_ns), tick_ns=tick_ns)
    log, results, P, F = [], [], [], []
    enq = 0
    st = random.getstate()
    random.seed(seed)
    try:
        for op in ops:
            if op[0] == "psh":
                i = len(P) + 1
                P.append(op[1])
                F.append(op[2])
                ev = Event(time=Instant(now[0] * tick_ns), event_type="it", target=_NULL,
                           context={"metadata": {"i": i, "p": op[1], "f": op[2]}})
                acc = pol.push(ev)
                enq += 1 if acc else 0
                x = policy_drops(pol)
                log.append(["psh" if acc else "rej", i, now[0], 0, 0, len(pol), x, 0])
                results.append(("psh", op[1], op[2], 1 if acc else 0, len(pol)))
            elif op[0] == "pop":
                it = pol.pop()
                x = policy_drops(pol)
                i = 0 if it is None else item_of(it)
                log.append(["pop0" if it is None else "pop", i, now[0], 0, 0, len(pol), x, 0])
                results.append(("pop", i, len(pol), x))
            else:
                now[0] += 1
                results.append(("tick",))
    finally:
        random.setstate(st)
    x = policy_drops(pol)
    log.append(["end", 0, now[0], 0, 0, len(pol), x, 0])
    inner = pol.inner if isinstance(pol, BalkingQueue) else pol
    pub = inner.stats.enqueued if hasattr(inner, "stats") and hasattr(inner.stats, "enqueued") else enq
    tr = _trace(prm, rep_cap(pol), W, P, F, 0, log, idle=0, order=1, cnt=0, sink=0, fin=[pub, 0], wk="policy")
    return tr, results


# ---------------------------------------------------------------------------
# a Server (any policy, any concurrency model) inside a real Simulation, arrivals through hop chains

class LimitSetter(Entity):
    """Harness entity: calls DynamicConcurrency.set_limit at scheduled instants."""

    def __init__(self, model, rec):
        super().__init__("limsetter")
        self.model = model
        self.rec = rec

    def handle_event(self, event):
        before = self.model.limit
        self.model.set_limit(event.context["metadata"]["lim"])
        if self.model.limit != before:
            self.rec.rec("lim", 0)
        return None


def run_pipeline(cfg, tick_ns=10 ** 9, seed=0):
    """cfg: prm, W, lim, arr=[dict(t,h,s,p,f,w)], optional dyn=[(t, lim)], weighted=bool, end_tick,
    retarget (hops re-use the event object)."""
    rec = Recorder(tick_ns)
    prm, W = cfg["prm"], cfg["W"]
    arr = cfg["arr"]
    svc = {j + 1: a["s"] for j, a in enumerate(arr)}
    holder = {}
    pol = make_policy(prm, W, clock=lambda: holder["res"].now, tick_ns=tick_ns)
    sink = Sink(rec)
    weighted = cfg.get("weighted", False)
    if cfg.get("dyn"):
        model = DynamicConcurrency(cfg["lim"], min_limit=1, max_limit=None)
    elif weighted:
        model = WeightedConcurrency(cfg["lim"])
    else:
        model = cfg["lim"]
    res = Server("srv", concurrency=model, service_time=ScriptedLatency(rec, svc, tick_ns), queue_policy=pol,
                 downstream=sink)
    holder["res"] = res
    rec.sample_fn = lambda: (res.active_requests, res.concurrency, res._requests_rejected)
    instrument(res, rec, lambda: res._requests_rejected)
    maxh = max([a["h"] for a in arr], default=0)
    hops, nxt = [], res
    for k in range(maxh):
        h = Hop(f"hop{k + 1}", nxt, retarget=cfg.get("retarget", False))
        hops.append(h)
        nxt = h
    ents = [res, sink, *hops]
    setter = None
    if cfg.get("dyn"):
        setter = LimitSetter(model, rec)
        ents.append(setter)
    kw = {}
    if cfg.get("end_tick") is not None:
        kw["end_time"] = Instant(cfg["end_tick"] * tick_ns)
    st = random.getstate()
    random.seed(seed)
    err = None
    try:
        sim = Simulation(entities=ents, **kw)
        evs = []
        for j, a in enumerate(arr, start=1):
            target = res if a["h"] == 0 else hops[a["h"] - 1]
            md = {"i": j, "p": a["p"], "f": a["f"]}
            if weighted:
                md["weight"] = a.get("w", 1)
            evs.append(Event(time=Instant(a["t"] * tick_ns), event_type="req", target=target,
                             context={"metadata": md}))
        for (t, lim) in cfg.get("dyn") or []:
            evs.append(Event(time=Instant(t * tick_ns), event_type="setlim", target=setter, daemon=True,
                             context={"metadata": {"lim": lim}}))
        if cfg.get("shuffle") is not None:
            random.Random(cfg["shuffle"]).shuffle(evs)
        for e in evs:
            sim.schedule(e)
        sim.run()
    except Exception as ex:      # noqa: BLE001
        err = f"{type(ex).__name__}: {ex}"
    finally:
        random.setstate(st)
    rec.flush()
    # limit changes made from outside a handler of the component show up as samples only
    end_t = cfg["end_tick"] if cfg.get("end_tick") is not None else rec.tick()
    rec.log.append(["end", 0 if cfg.get("end_tick") is not None else 1, end_t, *rec.sample()])
    n = len(arr)
    tr = _trace(prm, rep_cap(pol), W, [a["p"] for a in arr], [a["f"] for a in arr], cfg["lim"], rec.log,
                idle=0 if weighted else 1, order=1, cnt=1, sink=1, fin=[res.stats_accepted, res.stats.requests_completed],
                wk="server_dyn" if cfg.get("dyn") else "server")
    return tr, err


# ---------------------------------------------------------------------------
# topologies: routers and servers feeding one another (one trace per server)

def run_topology(rng: random.Random, tick_ns=10 ** 9):
    """front (hops) -> S1 -> RandomRouter -> {S2, S3} -> sink ; S2 may feed S3.  Arrivals in bursts."""
    from happysimulator.components.random_router import RandomRouter

    n = rng.randint(3, 8)
    arr = []
    for j in range(n):
        arr.append({"t": rng.choice((0, 0, 1, 1, 2, 3)), "h": rng.randint(0, 2),
                    "s": [rng.randint(0, 2) for _ in range(3)], "p": rng.randint(0, 2)})
    sink = Sink(None)
    recs, servers = [], []

    def mk(name, lim, kind, cap, downstream, stage):
        rec = Recorder(tick_ns)
        prm = dict(PIPE_PRM, kind=kind, cap=cap)
        pol = make_policy(prm, [1])
        svc = {j + 1: a["s"][stage] for j, a in enumerate(arr)}
        srv = Server(name, concurrency=lim, service_time=ScriptedLatency(rec, svc, tick_ns), queue_policy=pol,
                     downstream=downstream)
        rec.sample_fn = lambda: (srv.active_requests, srv.concurrency, srv._requests_rejected)
        instrument(srv, rec, lambda: srv._requests_rejected)
        recs.append((rec, prm, pol, srv, lim))
        servers.append(srv)
        return srv

    kinds = ("fifo", "lifo", "prio")
    caps = (1, 2, 3, INF, INF)
    s3 = mk("s3", rng.randint(1, 2), rng.choice(kinds), rng.choice(caps), sink, 2)
    s2 = mk("s2", rng.randint(1, 3), rng.choice(kinds), rng.choice(caps), rng.choice((sink, s3)), 1)
    router = RandomRouter("router", targets=[s2, s3])
    s1 = mk("s1", rng.randint(1, 3), rng.choice(kinds), rng.choice(caps), router, 0)
    hops, nxt = [], s1
    for k in range(2):
        h = Hop(f"hop{k + 1}", nxt, retarget=rng.random() < 0.3)
        hops.append(h)
        nxt = h
    st = random.getstate()
    random.seed(rng.randrange(10 ** 6))
    err = None
    try:
        sim = Simulation(entities=[*servers, router, sink, *hops])
        for j, a in enumerate(arr, start=1):
            target = s1 if a["h"] == 0 else hops[a["h"] - 1]
            sim.schedule(Event(time=Instant(a["t"] * tick_ns), event_type="req", target=target,
                               context={"metadata": {"i": j, "p": a["p"], "f": 1}}))
        sim.run()
    except Exception as ex:      # noqa: BLE001
        err = f"{type(ex).__name__}: {ex}"
    finally:
        random.setstate(st)
    traces = []
    for rec, prm, pol, srv, lim in recs:
        rec.flush()
        rec.log.append(["end", 1, rec.tick(), *rec.sample()])
        traces.append(_trace(prm, rep_cap(pol), [1], [a["p"] for a in arr], [1] * n, lim, rec.log,
                             idle=1, order=1, cnt=1, sink=0, allof=0,
                             fin=[srv.stats_accepted, srv.stats.requests_completed], wk="server"))
    return traces, err, sorted(sink.got)

STATIONS = []
