"""C08 real-code side: builds real happysimulator components, instruments them from outside
(instance-level wrappers, a recording QueuePolicy proxy, harness entities) and records the
observable vocabulary of specs/queue/QueueTrace.tla.  Nothing in /repo is modified.

Log record: [op, item, t, active, limit, depth, x, c]
  op    psh rej pop pop0 sta rjq req fin snk lim end
  t     tick (simulated nanoseconds / tick_ns)
  x     drops the policy reports itself (DeadlineQueue.expired), else 0
  c     every rejection the component publishes: queue.stats_dropped + requests_rejected /
        reneged / ... + x
Sampling points: push/pop records are completed when Queue.handle_event returns (the handler is
the linearization point), worker records right after the generator segment ran.
"""
from __future__ import annotations

import random
from collections.abc import Generator

from happysimulator.components.industrial.balking import BalkingQueue
from happysimulator.components.industrial.reneging import RenegingQueuedResource
from happysimulator.components.industrial.shift_schedule import Shift, ShiftedServer, ShiftSchedule
from happysimulator.components.queue_policies import DeadlineQueue, FairQueue, WeightedFairQueue
from happysimulator.components.queue_policy import FIFOQueue, LIFOQueue, PriorityQueue, QueuePolicy
from happysimulator.components.queued_resource import QueuedResource
from happysimulator.components.server.concurrency import DynamicConcurrency, WeightedConcurrency
from happysimulator.components.server.server import Server
from happysimulator.core.entity import Entity
from happysimulator.core.event import Event
from happysimulator.core.simulation import Simulation
from happysimulator.core.temporal import Duration, Instant
from happysimulator.distributions.latency_distribution import LatencyDistribution

INF = 999999
BIG_S = 10 ** 6          # "never" (seconds) for the last shift boundary


def item_of(event) -> int:
    return event.context.get("metadata", {}).get("i", 0)


# ---------------------------------------------------------------------------
# policies

def make_policy(prm, W, clock=None, tick_ns=10 ** 9, key_of=None):
    """Real policy object for a parameter record (see Policies.tla).  Items are Events whose
    metadata carry p (priority / deadline tick) and f (flow)."""
    kind = prm["kind"]
    cap = float("inf") if prm["cap"] >= INF else prm["cap"]
    meta = key_of or (lambda e: e.context["metadata"])
    if kind == "fifo":
        pol = FIFOQueue(capacity=cap)
    elif kind == "lifo":
        pol = LIFOQueue(capacity=cap)
    elif kind == "prio":
        pol = PriorityQueue(capacity=cap, key=lambda e: meta(e)["p"])
    elif kind == "deadline":
        pol = DeadlineQueue(get_deadline=lambda e: Instant(meta(e)["p"] * tick_ns),
                            capacity=None if prm["cap"] >= INF else prm["cap"], clock_func=clock)
    elif kind == "fair":
        pol = FairQueue(get_flow_id=lambda e: f"flow{meta(e)['f']}",
                        max_flows=None if prm["mxf"] >= INF else prm["mxf"],
                        per_flow_capacity=None if prm["pfc"] >= INF else prm["pfc"])
    elif kind == "wfair":
        pol = WeightedFairQueue(get_flow_id=lambda e: f"flow{meta(e)['f']}",
                                get_weight=lambda fid: W[int(fid[4:]) - 1],
                                capacity=None if prm["cap"] >= INF else prm["cap"],
                                per_flow_capacity=None if prm["pfc"] >= INF else prm["pfc"])
    elif kind == "codel":
        from happysimulator.components.queue_policies import CoDelQueue
        return CoDelQueue(target_delay=1.0 * (tick_ns // 10 ** 9), interval=2.0 * (tick_ns // 10 ** 9),
                          capacity=None if prm["cap"] >= INF else prm["cap"], clock_func=clock)
    elif kind == "red":
        from happysimulator.components.queue_policies import REDQueue
        return REDQueue(min_threshold=1, max_threshold=3, max_probability=0.5,
                        capacity=None if prm["cap"] >= INF else max(3, prm["cap"]), weight=0.5)
    elif kind == "alifo":
        from happysimulator.components.queue_policies import AdaptiveLIFO
        return AdaptiveLIFO(congestion_threshold=2, capacity=None if prm["cap"] >= INF else prm["cap"])
    else:
        raise ValueError(kind)
    if prm["thr"] < INF:
        pol = BalkingQueue(pol, balk_threshold=prm["thr"], balk_probability={0: 0.0, 1: 1.0, 2: 0.5}[prm["bm"]])
    return pol


def policy_drops(pol) -> int:
    """Drops the policy reports itself (only DeadlineQueue discards accepted items)."""
    inner = pol.inner if isinstance(pol, BalkingQueue) else pol
    if isinstance(inner, DeadlineQueue):
        return inner.stats.expired
    if type(inner).__name__ == "CoDelQueue":
        return inner.stats.dropped
    return 0


UNMODELLED = ("codel", "red", "alifo")     # no sequence machine in Policies.tla: contract clauses only


def held_ids(pol):
    """Ids still held by a policy that may discard accepted items on its own (CoDelQueue); None if the
    policy object cannot be inspected.  Used only to name the discarded items in the log."""
    inner = pol.inner if isinstance(pol, BalkingQueue) else pol
    if type(inner).__name__ != "CoDelQueue":
        return None
    q = getattr(inner, "_queue", None)
    if q is None:
        return None
    return [item_of(getattr(e, "item", e)) for e in q]


def rep_cap(pol) -> int:
    c = pol.capacity
    return INF if c == float("inf") or c >= INF else int(c)


class RecPolicy(QueuePolicy):
    """Recording proxy around a real policy (the reference model is fed the same calls)."""

    def __init__(self, inner, rec):
        self._inner = inner
        self._rec = rec
        self._held = []

    @property
    def capacity(self):
        return self._inner.capacity

    def push(self, item):
        acc = self._inner.push(item)
        if acc:
            self._held.append(item_of(item))
        self._rec.on_push(item, acc)
        return acc

    def pop(self):
        it = self._inner.pop()
        self._rec.on_pop(it)
        if it is not None and item_of(it) in self._held:
            self._held.remove(item_of(it))
        left = held_ids(self._inner)
        if left is not None:
            for i in [i for i in self._held if i not in left]:      # discarded by the policy itself
                self._held.remove(i)
                self._rec.rec("drp", i, defer=True)
        return it

    def peek(self):
        return self._inner.peek()

    def is_empty(self):
        return self._inner.is_empty()

    def __len__(self):
        return len(self._inner)


# ---------------------------------------------------------------------------
# recorder for one queue-fronted component

class Recorder:
    def __init__(self, tick_ns):
        self.tick_ns = tick_ns
        self.log = []
        self.pending = []        # records waiting for their end-of-handler sample
        self.res = None
        self.policy = None
        self.current = 0
        self.spin = 0
        self.sample_fn = None    # () -> (active, limit, extra_rejections)
        self.depth_fn = lambda: len(self.policy)          # items held by the queue
        self.x_fn = lambda: policy_drops(self.policy)     # drops the policy reports itself
        self.qdrop_fn = lambda: self.res._queue.stats_dropped   # refusals counted by the Queue entity
        self.last_lim = None
        self.max_tick = None

    # -- sampling ----------------------------------------------------------
    def tick(self):
        ns = self.res.now.nanoseconds
        q, r = divmod(ns, self.tick_ns)
        return q if r == 0 else 777777

    def sample(self):
        active, limit, extra = self.sample_fn()
        x = self.x_fn()
        return [active, INF if limit >= INF else limit, self.depth_fn(), x, self.qdrop_fn() + extra + x]

    def rec(self, op, i, defer=False):
        r = [op, i, self.tick()]
        if self.max_tick is not None and r[2] > self.max_tick:
            return               # beyond the requested end_time (the loop delivers one later event): not observed
        if defer:
            self.pending.append(r)
        else:
            self.flush()
            r.extend(self.sample())
        self.log.append(r)
        if len(self.log) > 20000:
            raise RuntimeError("C08 recorder overflow (spin?)")

    def note_limit(self):
        """One "lim" record per change of the concurrency limit, whoever changed it."""
        lim = self.sample_fn()[1]
        if lim != self.last_lim:
            self.last_lim = lim
            self.rec("lim", 0)

    def flush(self):
        if self.pending:
            s = self.sample()
            for r in self.pending:
                r.extend(s)
            self.pending.clear()

    # -- observation points --------------------------------------------------
    def on_push(self, item, acc):
        self.rec("psh" if acc else "rej", item_of(item), defer=True)

    def on_pop(self, item):
        if item is None:
            self.rec("pop0", 0, defer=True)
        else:
            self.rec("pop", item_of(item), defer=True)


def instrument(res, rec: Recorder, rejected_fn):
    """Instance-level wrappers on a QueuedResource: queue handler (sampling point), worker adapter
    (start / finish / discard), the resource's own handler (limit changes)."""
    rec.res = res
    q = res._queue
    # proxy around whatever policy object the component actually installed
    rec.policy = q.policy
    q.policy = RecPolicy(q.policy, rec)
    q_orig = q.handle_event

    def q_handle(event):
        try:
            return q_orig(event)
        finally:
            rec.flush()

    q.handle_event = q_handle

    wk = res._worker
    wk_orig = wk.handle_event

    def drive(gen, i):
        before = rejected_fn()
        try:
            v = next(gen)
        except StopIteration as e:
            if rejected_fn() > before:
                rec.rec("rjq", i)
            else:
                rec.rec("sta", i)
                rec.rec("fin", i)
            return e.value
        rec.rec("sta", i)
        while True:
            sent = yield v
            try:
                rec.current = i
                v = gen.send(sent)
            except StopIteration as e:
                rec.rec("fin", i)
                return e.value

    def wk_handle(event):
        i = item_of(event)
        rec.current = i
        before = rejected_fn()
        out = wk_orig(event)
        if isinstance(out, Generator):
            return drive(out, i)
        if rejected_fn() > before:
            rec.rec("rjq", i)
        else:
            rec.rec("sta", i)
            rec.rec("fin", i)
        return out

    wk.handle_event = wk_handle

    r_orig = res.handle_event
    rec.last_lim = rec.sample_fn()[1]

    def r_handle(event):
        try:
            return r_orig(event)
        finally:
            rec.note_limit()

    res.handle_event = r_handle


class Sink(Entity):
    def __init__(self, rec=None, name="sink"):
        super().__init__(name)
        self.rec = rec
        self.got = []

    def handle_event(self, event):
        i = item_of(event)
        self.got.append(i)
        if self.rec is not None:
            self.rec.rec("snk", i)
        return None


class Hop(Entity):
    """Forwarder: re-emits the item as a new event at the same instant (one more causal hop)."""

    def __init__(self, name, nxt, retarget=False):
        super().__init__(name)
        self.nxt = nxt
        self.retarget = retarget

    def handle_event(self, event):
        if self.retarget:
            event.target = self.nxt
            event.time = self.now
            return [event]
        return [Event(time=self.now, event_type=event.event_type, target=self.nxt, context=event.context)]


class ScriptedLatency(LatencyDistribution):
    """Service time of the item that is starting right now (read from the recorder)."""

    def __init__(self, rec, svc, tick_ns):
        super().__init__(0.0)
        self.rec, self.svc, self.tick_ns = rec, svc, tick_ns

    def get_latency(self, current_time):
        return Duration(self.svc[self.rec.current] * self.tick_ns)


# ---------------------------------------------------------------------------
# scenario run (shape of QueuePipe.tla scenarios, also used beyond its bounds)

PIPE_PRM = {"pfc": INF, "mxf": INF, "thr": INF, "bm": 0}


class LimitSetter(Entity):
    """Harness entity: calls DynamicConcurrency.set_limit at scheduled instants."""

    def __init__(self, model, rec):
        super().__init__("limsetter")
        self.model = model
        self.rec = rec

    def handle_event(self, event):
        self.model.set_limit(event.context["metadata"]["lim"])
        self.rec.note_limit()
        return None


def mk_sc(wk="server", lim=1, kind="fifo", cap=INF, arr=(), sh=(0, 0), dyn=(), rt=0, W=(1,), **prm):
    """Scenario record as QueuePipe.tla reads it."""
    p = dict(PIPE_PRM, kind=kind, cap=cap)
    p.update(prm)
    return {"wk": wk, "lim": lim, "prm": p, "W": list(W),
            "arr": [dict(t=a["t"], h=a.get("h", 0), s=a.get("s", 1), p=a.get("p", 0), f=a.get("f", 1)) for a in arr],
            "sh": {"t": sh[0], "l": sh[1]}, "dyn": [{"t": t, "l": l} for (t, l) in dyn], "rt": rt, "endt": 0}


def run_scenario(sc, tick_ns=10 ** 9, end_tick=None, seed=0, weights=None):
    """One queue-fronted worker (Server or ShiftedServer) in a real Simulation.  Arrival events are created
    up front in item order (then the set_limit events), items travel through `h` forwarders.
    weights: per-item capacity units -> Server with WeightedConcurrency (not modelled by QueuePipe)."""
    n = len(sc["arr"])
    rec = Recorder(tick_ns)
    rec.max_tick = end_tick
    sc = dict(sc, endt=end_tick or 0)
    prm, Wt = sc["prm"], sc["W"]
    holder = {}
    pol = make_policy(prm, Wt, clock=lambda: holder["res"].now, tick_ns=tick_ns)   # the configured policy
    sink = Sink(rec)
    svc = {j + 1: a["s"] for j, a in enumerate(sc["arr"])}
    tick_s = tick_ns // 10 ** 9
    assert tick_s * 10 ** 9 == tick_ns, "ticks are whole seconds (float conversions stay exact)"
    setter = None
    if sc["wk"] == "server":
        if weights is not None:
            conc = WeightedConcurrency(sc["lim"])
        elif sc["dyn"]:
            conc = DynamicConcurrency(sc["lim"], min_limit=1, max_limit=None)
            setter = LimitSetter(conc, rec)
        else:
            conc = sc["lim"]
        res = Server("srv", concurrency=conc, service_time=ScriptedLatency(rec, svc, tick_ns),
                     queue_policy=pol, downstream=sink)
        rec.sample_fn = lambda: (res.active_requests, res.concurrency, res._requests_rejected)
        instrument(res, rec, lambda: res._requests_rejected)
    else:
        sh = sc["sh"]
        if sh["t"] > 0:
            shifts = [Shift(0.0, float(sh["t"] * tick_s), sc["lim"]),
                      Shift(float(sh["t"] * tick_s), float(BIG_S), sh["l"])]
        else:
            shifts = [Shift(0.0, float(BIG_S), sc["lim"])]
        s0 = sc["arr"][0]["s"] if n else 1
        res = ShiftedServer("shf", ShiftSchedule(shifts, default_capacity=0), service_time=float(s0 * tick_s),
                            downstream=sink, policy=pol)
        rec.sample_fn = lambda: (res._active, res._current_capacity, 0)
        instrument(res, rec, lambda: 0)
    holder["res"] = res
    maxh = max([a["h"] for a in sc["arr"]], default=0)
    hops = []
    nxt = res
    for k in range(maxh):
        h = Hop(f"hop{k + 1}", nxt, retarget=bool(sc["rt"]))
        hops.append(h)
        nxt = h
    kw = {}
    if end_tick is not None:
        kw["end_time"] = Instant(end_tick * tick_ns)
    ents = [res, sink, *hops] + ([setter] if setter else [])
    st = random.getstate()
    random.seed(seed)
    err = None
    try:
        sim = Simulation(entities=ents, **kw)
        for j, a in enumerate(sc["arr"], start=1):
            target = res if a["h"] == 0 else hops[a["h"] - 1]
            md = {"i": j, "p": a["p"], "f": a["f"]}
            if weights is not None:
                md["weight"] = weights[j - 1]
            sim.schedule(Event(time=Instant(a["t"] * tick_ns), event_type="req", target=target,
                               context={"metadata": md}))
        for d in sc["dyn"]:
            sim.schedule(Event(time=Instant(d["t"] * tick_ns), event_type="setlim", target=setter, daemon=True,
                               context={"metadata": {"lim": d["l"]}}))
        sim.run()
    except Exception as ex:      # noqa: BLE001 - recorded as an observation
        err = f"{type(ex).__name__}: {ex}"
    finally:
        random.setstate(st)
    rec.flush()
    rec.log.append(["end", 1 if end_tick is None else 0, rec.tick() if end_tick is None else end_tick,
                    *rec.sample()])
    q = res._queue
    completed = res.stats.requests_completed if sc["wk"] == "server" else res.processed
    modelled = weights is None and not (prm["thr"] < INF and prm["bm"] == 2) and prm["kind"] not in UNMODELLED
    wk = sc["wk"] if not sc["dyn"] else "server_dyn"
    tr = _trace(prm, rep_cap(pol), [max(1, w) for w in Wt], [a["p"] for a in sc["arr"]],
                [a["f"] for a in sc["arr"]], sc["lim"], rec.log,
                idle=0 if weights is not None else 1, order=0 if prm["kind"] in UNMODELLED else 1, cnt=1, sink=1,
                fin=[q.stats_accepted, completed] if end_tick is None else [-1, -1], wk=wk, sc=sc, wt=weights)
    if not modelled:
        tr["hassc"] = 0
    return tr, err


EMPTY_SC = mk_sc()


def _trace(prm, rcap, W, P, F, lim0, log, *, idle, order, cnt, sink, fin, wk, allof=1, sc=None, wt=None):
    return {"prm": prm, "rcap": rcap, "W": W, "P": P, "F": F, "wt": wt or [1] * len(P),
            "disc": 1 if wk in ("shifted", "reneging") else 0, "lim0": lim0, "idle": idle, "order": order,
            "cnt": cnt, "sink": sink, "allof": allof, "dbg": 0, "cut": 0,
            "nomodel": 1 if prm["kind"] in UNMODELLED else 0, "hassc": 1 if sc else 0, "sc": sc or EMPTY_SC,
            "fin": fin, "log": log, "wk": wk}


# ---------------------------------------------------------------------------
# bare policy objects driven by direct calls (pure push/pop sequence machines)

class _Null(Entity):
    def handle_event(self, event):
        return None


_NULL = _Null("null")


def run_policy_ops(prm, W, ops, seed=0):
    """ops: ("psh", p, f) | ("pop",) | ("tick",).  Returns (trace, results) where results mirrors the
    `hist` variable of PoliciesMC.tla."""
    now = [0]
    tick_ns = 10 ** 9
    pol = make_policy(prm, W, clock=lambda: Instant(now[0] * tick_ns), tick_ns=tick_ns)
    log, results, P, F = [], [], [], []
    enq = 0
    held = []
    st = random.getstate()
    random.seed(seed)
    try:
        for op in ops:
            if op[0] == "psh":
                i = len(P) + 1
                P.append(op[1])
                F.append(op[2])
                ev = Event(time=Instant(now[0] * tick_ns), event_type="it", target=_NULL,
                           context={"metadata": {"i": i, "p": op[1], "f": op[2]}})
                acc = pol.push(ev)
                enq += 1 if acc else 0
                if acc:
                    held.append(i)
                x = policy_drops(pol)
                log.append(["psh" if acc else "rej", i, now[0], 0, 0, len(pol), x, 0])
                results.append(("psh", op[1], op[2], 1 if acc else 0, len(pol)))
            elif op[0] == "pop":
                it = pol.pop()
                x = policy_drops(pol)
                i = 0 if it is None else item_of(it)
                log.append(["pop0" if it is None else "pop", i, now[0], 0, 0, len(pol), x, 0])
                results.append(("pop", i, len(pol), x))
                if i in held:
                    held.remove(i)
                left = held_ids(pol)
                if left is not None:
                    for j in [j for j in held if j not in left]:
                        held.remove(j)
                        log.append(["drp", j, now[0], 0, 0, len(pol), x, 0])
            else:
                now[0] += 1
                results.append(("tick",))
    finally:
        random.setstate(st)
    x = policy_drops(pol)
    log.append(["end", 0, now[0], 0, 0, len(pol), x, 0])
    inner = pol.inner if isinstance(pol, BalkingQueue) else pol
    pub = inner.stats.enqueued if hasattr(inner, "stats") and hasattr(inner.stats, "enqueued") else enq
    # the reference is given the weights the policy documents (a weight below 1 counts as 1)
    tr = _trace(prm, rep_cap(pol), [max(1, w) for w in W], P, F, 0, log, idle=0,
                order=0 if prm["kind"] in UNMODELLED else 1, cnt=0, sink=0, fin=[pub, 0], wk="policy")
    return tr, results


# ---------------------------------------------------------------------------
# topologies: routers and servers feeding one another (one trace per server)

def run_topology(rng: random.Random, tick_ns=10 ** 9):
    """front (hops) -> S1 -> RandomRouter -> {S2, S3} -> sink ; S2 may feed S3.  Arrivals in bursts."""
    from happysimulator.components.random_router import RandomRouter

    n = rng.randint(3, 8)
    arr = []
    for j in range(n):
        arr.append({"t": rng.choice((0, 0, 1, 1, 2, 3)), "h": rng.randint(0, 2),
                    "s": [rng.randint(0, 2) for _ in range(3)], "p": rng.randint(0, 2)})
    sink = Sink(None)
    recs, servers = [], []

    def mk(name, lim, kind, cap, downstream, stage):
        rec = Recorder(tick_ns)
        prm = dict(PIPE_PRM, kind=kind, cap=cap)
        pol = make_policy(prm, [1])
        svc = {j + 1: a["s"][stage] for j, a in enumerate(arr)}
        srv = Server(name, concurrency=lim, service_time=ScriptedLatency(rec, svc, tick_ns), queue_policy=pol,
                     downstream=downstream)
        rec.sample_fn = lambda: (srv.active_requests, srv.concurrency, srv._requests_rejected)
        instrument(srv, rec, lambda: srv._requests_rejected)
        recs.append((rec, prm, pol, srv, lim))
        servers.append(srv)
        return srv

    kinds = ("fifo", "lifo", "prio")
    caps = (1, 2, 3, INF, INF)
    s3 = mk("s3", rng.randint(1, 2), rng.choice(kinds), rng.choice(caps), sink, 2)
    s2 = mk("s2", rng.randint(1, 3), rng.choice(kinds), rng.choice(caps), rng.choice((sink, s3)), 1)
    router = RandomRouter("router", targets=[s2, s3])
    s1 = mk("s1", rng.randint(1, 3), rng.choice(kinds), rng.choice(caps), router, 0)
    hops, nxt = [], s1
    for k in range(2):
        h = Hop(f"hop{k + 1}", nxt, retarget=rng.random() < 0.3)
        hops.append(h)
        nxt = h
    st = random.getstate()
    random.seed(rng.randrange(10 ** 6))
    err = None
    try:
        sim = Simulation(entities=[*servers, router, sink, *hops])
        for j, a in enumerate(arr, start=1):
            target = s1 if a["h"] == 0 else hops[a["h"] - 1]
            sim.schedule(Event(time=Instant(a["t"] * tick_ns), event_type="req", target=target,
                               context={"metadata": {"i": j, "p": a["p"], "f": 1}}))
        sim.run()
    except Exception as ex:      # noqa: BLE001
        err = f"{type(ex).__name__}: {ex}"
    finally:
        random.setstate(st)
    traces = []
    for rec, prm, pol, srv, lim in recs:
        rec.flush()
        rec.log.append(["end", 1, rec.tick(), *rec.sample()])
        traces.append(_trace(prm, rep_cap(pol), [1], [a["p"] for a in arr], [1] * n, lim, rec.log,
                             idle=1, order=1, cnt=1, sink=0, allof=0,
                             fin=[srv.stats_accepted, srv.stats.requests_completed], wk="server"))
    return traces, err, sorted(sink.got)


# ---------------------------------------------------------------------------
# industrial variants (each returns (trace, err)); observation by instance-level wrappers only

def _arrivals(rng, n, tmax, hmax=2):
    burst = rng.random() < 0.6
    return [dict(t=rng.choice((0, tmax)) if burst else rng.randint(0, tmax), h=rng.randint(0, hmax)) for _ in range(n)]


def _run_station(res, rec, arr, extra_entities=(), pre=(), tick_ns=10 ** 9, meta=None, end_tick=None):
    """Common driver: hop chain in front of `res`, arrivals created up front in item order."""
    maxh = max([a["h"] for a in arr], default=0)
    hops, nxt = [], res
    for k in range(maxh):
        h = Hop(f"hop{k + 1}", nxt)
        hops.append(h)
        nxt = h
    kw = {"end_time": Instant(end_tick * tick_ns)} if end_tick is not None else {}
    err = None
    try:
        sim = Simulation(entities=[res, *extra_entities, *hops], **kw)
        for e in pre:
            sim.schedule(e() if callable(e) else e)
        for j, a in enumerate(arr, start=1):
            md = {"i": j, "p": 0, "f": 1}
            ctx = {"metadata": md}
            if meta:
                ctx.update(meta(j, a))
            sim.schedule(Event(time=Instant(a["t"] * tick_ns), event_type="req",
                               target=res if a["h"] == 0 else hops[a["h"] - 1], context=ctx))
        sim.run()
    except Exception as ex:      # noqa: BLE001
        err = f"{type(ex).__name__}: {ex}"
    rec.flush()
    rec.log.append(["end", 1 if end_tick is None else 0, rec.tick() if end_tick is None else end_tick, *rec.sample()])
    return err


def station_reneging(rng: random.Random):
    """RenegingQueuedResource with a worker following the `_in_flight` pattern of QueuedResource."""
    tick_ns = 10 ** 9
    n = rng.randint(2, 7)
    arr = _arrivals(rng, n, rng.choice((0, 1, 3)))
    lim = rng.randint(1, 2)
    svc = {j + 1: rng.randint(0, 3) for j in range(n)}
    pat = {j + 1: rng.choice((0, 1, 2, None)) for j in range(n)}
    kind = rng.choice(("fifo", "fifo", "lifo"))
    prm = dict(PIPE_PRM, kind=kind, cap=rng.choice((2, INF, INF)))
    pol = make_policy(prm, [1])
    rec = Recorder(tick_ns)
    sink, gone = Sink(rec), Sink(None, "reneged")

    class Worker(RenegingQueuedResource):
        def __init__(self):
            super().__init__("ren", reneged_target=gone, default_patience_s=float("inf"), policy=pol)
            self._in_flight = 0

        def has_capacity(self):
            return self._in_flight < lim

        def _handle_served_event(self, event):
            self._in_flight += 1
            yield float(svc[item_of(event)])
            self._in_flight -= 1
            return [self.forward(event, sink)]

    res = Worker()
    rec.sample_fn = lambda: (res._in_flight, lim, res._reneged)
    instrument(res, rec, lambda: res._reneged)

    def meta(j, a):
        return {} if pat[j] is None else {"patience_s": float(pat[j])}

    err = _run_station(res, rec, arr, extra_entities=(sink, gone), meta=meta)
    tr = _trace(prm, rep_cap(pol), [1], [0] * n, [1] * n, lim, rec.log, idle=1, order=1, cnt=1, sink=1,
                fin=[res.stats_accepted, sum(1 for r in rec.log if r[0] == "fin")], wk="reneging")
    return tr, err


class _Depth:
    """len() adapter so that a Recorder can sample a station's own buffer."""

    def __init__(self, fn):
        self.fn = fn

    def __len__(self):
        return self.fn()


def _station_rec(tick_ns, res, depth_fn, sample_fn):
    rec = Recorder(tick_ns)
    rec.res = res
    rec.policy = _Depth(depth_fn)
    rec.x_fn = lambda: 0
    rec.qdrop_fn = lambda: 0
    rec.sample_fn = sample_fn
    return rec


def station_pooled(rng: random.Random):
    from happysimulator.components.industrial.pooled_cycle import PooledCycleResource

    tick_ns = 10 ** 9
    n = rng.randint(2, 8)
    arr = _arrivals(rng, n, rng.choice((0, 1, 2)))
    pool, qc = rng.randint(1, 3), rng.choice((0, 0, 1, 2))
    sink_holder = {}
    res = PooledCycleResource("pool", pool_size=pool, cycle_time=float(rng.randint(0, 2)), downstream=None,
                              queue_capacity=qc)
    rec = _station_rec(tick_ns, res, lambda: res.queued, lambda: (res.active, pool, res.rejected))
    sink = Sink(rec)
    res.downstream = sink
    transit = set()
    orig = res.handle_event

    def drive(gen, i):
        v = next(gen)
        transit.discard(i)
        rec.rec("sta", i)
        sent = yield v
        try:
            gen.send(sent)
        except StopIteration as e:
            rec.rec("fin", i)
            for ev in e.value or []:
                if ev.target is res:
                    transit.add(item_of(ev))
                    rec.rec("pop", item_of(ev))
            return e.value
        raise RuntimeError("PooledCycleResource generator yielded twice")

    def handle(event):
        i = item_of(event)
        b = (res.queued, res.rejected)
        out = orig(event)
        if isinstance(out, Generator):
            return drive(out, i)
        if res.rejected > b[1]:
            rec.rec("rjq" if i in transit else "rej", i)
        elif res.queued > b[0]:
            rec.rec("req" if i in transit else "psh", i)
        transit.discard(i)
        return out

    res.handle_event = handle
    err = _run_station(res, rec, arr, extra_entities=(sink,))
    prm = dict(PIPE_PRM, kind="fifo", cap=INF if qc == 0 else qc)
    tr = _trace(prm, prm["cap"], [1], [0] * n, [1] * n, pool, rec.log, idle=1, order=1, cnt=1, sink=1,
                fin=[sum(1 for r in rec.log if r[0] == "psh"), res.completed], wk="pooled")
    return tr, err


def station_gate(rng: random.Random):
    from happysimulator.components.industrial.gate_controller import _GATE_CLOSE, _GATE_OPEN, GateController

    tick_ns = 10 ** 9
    n = rng.randint(2, 8)
    arr = _arrivals(rng, n, rng.choice((0, 2, 4)))
    qc = rng.choice((0, 0, 1, 2))
    initially_open = rng.random() < 0.4
    sched, t = [], 0
    for _ in range(rng.randint(1, 2)):
        o = t + rng.randint(0, 2)
        c = o + rng.randint(0, 2)
        sched.append((float(o), float(c)))
        t = c
    state = {"n": 0, "depth": None}
    res = GateController("gate", downstream=None, schedule=sched, initially_open=initially_open, queue_capacity=qc)
    rec = _station_rec(tick_ns, res, lambda: res.queue_depth if state["depth"] is None else state["depth"],
                       lambda: (state["n"], INF if res.is_open else 0, res.stats.rejected))
    sink = Sink(rec)
    res.downstream = sink
    rec.last_lim = INF if initially_open else 0
    orig = res.handle_event

    def through(i):
        state["n"] += 1
        rec.rec("sta", i)
        state["n"] -= 1
        rec.rec("fin", i)

    def handle(event):
        b = res.stats
        out = orig(event)
        a = res.stats
        if event.event_type in (_GATE_OPEN, _GATE_CLOSE):
            rec.note_limit()
            state["depth"] = len(out or [])        # the flush empties the queue in one go
            for ev in out or []:
                state["depth"] -= 1
                rec.rec("pop", item_of(ev))
                through(item_of(ev))
            state["depth"] = None
            return out
        i = item_of(event)
        if a.passed_through > b.passed_through:
            through(i)
        elif a.rejected > b.rejected:
            rec.rec("rej", i)
        else:
            rec.rec("psh", i)
        return out

    res.handle_event = handle
    err = _run_station(res, rec, arr, extra_entities=(sink,), pre=[lambda: res.start_events()],
                       end_tick=int(sched[-1][1]) + 3)
    prm = dict(PIPE_PRM, kind="fifo", cap=INF if qc == 0 else qc)
    passed = sum(1 for r in rec.log if r[0] == "fin")
    tr = _trace(prm, prm["cap"], [1], [0] * n, [1] * n, INF if initially_open else 0, rec.log, idle=1, order=1,
                cnt=1, sink=1, fin=[res.stats.queued_while_closed, res.stats.passed_through], wk="gate")
    tr["fin"][1] = passed if passed == res.stats.passed_through else -1
    return tr, err


def station_conveyor(rng: random.Random):
    from happysimulator.components.industrial.conveyor import ConveyorBelt

    tick_ns = 10 ** 9
    n = rng.randint(2, 8)
    arr = _arrivals(rng, n, rng.choice((0, 1, 2)))
    cap = rng.choice((0, 1, 2, 3))
    res = ConveyorBelt("belt", downstream=None, transit_time=float(rng.randint(0, 2)), capacity=cap)
    rec = _station_rec(tick_ns, res, lambda: 0,
                       lambda: (res.items_in_transit, INF if cap == 0 else cap, res.items_rejected))
    sink = Sink(rec)
    res.downstream = sink
    orig = res.handle_event

    def drive(gen, i):
        v = next(gen)
        rec.rec("sta", i)
        sent = yield v
        try:
            gen.send(sent)
        except StopIteration as e:
            rec.rec("fin", i)
            return e.value
        raise RuntimeError("ConveyorBelt generator yielded twice")

    def handle(event):
        i = item_of(event)
        b = res.items_rejected
        out = orig(event)
        if isinstance(out, Generator):
            return drive(out, i)
        if res.items_rejected > b:
            rec.rec("rej", i)
        return out

    res.handle_event = handle
    err = _run_station(res, rec, arr, extra_entities=(sink,))
    prm = dict(PIPE_PRM, kind="fifo", cap=0)
    tr = _trace(prm, 0, [1], [0] * n, [1] * n, INF if cap == 0 else cap, rec.log, idle=0, order=0, cnt=1, sink=1,
                fin=[0, res.items_transported], wk="conveyor")
    return tr, err


def station_batch(rng: random.Random):
    from happysimulator.components.industrial.batch_processor import _BATCH_TIMEOUT, BatchProcessor

    tick_ns = 10 ** 9
    n = rng.randint(2, 9)
    arr = _arrivals(rng, n, rng.choice((0, 1, 3)))
    bs = rng.randint(1, 4)
    timeout = float(rng.choice((0, 0, 1, 2)))
    state = {"n": 0, "depth": None}
    res = BatchProcessor("batch", downstream=None, batch_size=bs, process_time=float(rng.randint(0, 2)),
                         timeout_s=timeout)
    rec = _station_rec(tick_ns, res, lambda: res.buffer_depth if state["depth"] is None else state["depth"],
                       lambda: (state["n"], INF, 0))
    sink = Sink(rec)
    res.downstream = sink
    orig = res.handle_event

    def drive(gen):
        batch = [item_of(e) for e in res._buffer]      # what the first segment is about to take
        v = next(gen)
        state["depth"] = len(batch)
        for j in batch:
            state["depth"] -= 1
            rec.rec("pop", j)
            state["n"] += 1
            rec.rec("sta", j)
        state["depth"] = None
        sent = yield v
        try:
            gen.send(sent)
        except StopIteration as e:
            for j in batch:
                state["n"] -= 1
                rec.rec("fin", j)
            return e.value
        raise RuntimeError("BatchProcessor generator yielded twice")

    def handle(event):
        out = orig(event)
        if event.event_type != _BATCH_TIMEOUT:
            rec.rec("psh", item_of(event))
        if isinstance(out, Generator):
            return drive(out)
        return out

    res.handle_event = handle
    err = _run_station(res, rec, arr, extra_entities=(sink,))
    prm = dict(PIPE_PRM, kind="fifo", cap=INF)
    tr = _trace(prm, INF, [1], [0] * n, [1] * n, INF, rec.log, idle=0, order=1, cnt=0, sink=1,
                fin=[sum(1 for r in rec.log if r[0] == "psh"), res.items_processed], wk="batch")
    if timeout == 0:
        tr["log"][-1][1] = 0      # a partial batch without timeout legitimately stays buffered
    return tr, err


STATIONS = [station_reneging, station_pooled, station_gate, station_conveyor, station_batch]
