"""C16 helper: the nine eviction policies — construction, projection onto the Policies9.tla state,
scripted randomness, and direct-call replay of TLC state-graph paths."""
from __future__ import annotations

from .c16_util import Hung, time_limit
from happysimulator.components.datastore.eviction_policies import (
    ClockEviction, FIFOEviction, LFUEviction, LRUEviction, RandomEviction, SampledLRUEviction,
    SLRUEviction, TTLEviction, TwoQueueEviction,
)

POLICIES = ["LRU", "LFU", "TTL", "FIFO", "RANDOM", "SLRU", "SAMPLED", "CLOCK", "TWOQ"]
PAR = {"ttl": 2, "ss": 2, "a1max": 50}


def key_name(k: int) -> str:
    return f"k{k}"


def key_num(name) -> int:
    if isinstance(name, str) and name[:1] == "k" and name[1:].isdigit():
        return int(name[1:])
    return 99


class Clock:
    """Integer tick clock handed to TTLEviction as clock_func."""

    def __init__(self):
        self.t = 0

    def __call__(self):
        return self.t


class ScriptedRng:
    """Stands in for random.Random inside RandomEviction / SampledLRUEviction so that a replay can
    realise any victim the model allows: `want` is the victim the model's edge names."""

    def __init__(self):
        self.want = None
        self.times = None

    def choice(self, seq):
        return self.want if self.want in seq else seq[0]

    def sample(self, population, k):
        pop = list(population)
        if self.want not in pop:
            return pop[:k]
        newer = sorted((x for x in pop if x != self.want and self.times[x] > self.times[self.want]),
                       key=lambda x: -self.times[x])
        rest = [x for x in pop if x != self.want and x not in newer]
        return ([self.want] + newer + rest)[:k]


def make_policy(name, par=PAR, clock=None, seed=None, scripted=False):
    if name == "LRU":
        return LRUEviction()
    if name == "LFU":
        return LFUEviction()
    if name == "TTL":
        return TTLEviction(ttl=par["ttl"], clock_func=clock)
    if name == "FIFO":
        return FIFOEviction()
    if name == "RANDOM":
        p = RandomEviction(seed=seed)
        if scripted:
            p._rng = ScriptedRng()
        return p
    if name == "SLRU":
        return SLRUEviction()
    if name == "SAMPLED":
        p = SampledLRUEviction(sample_size=par["ss"], seed=seed)
        if scripted:
            p._rng = ScriptedRng()
        return p
    if name == "CLOCK":
        return ClockEviction()
    if name == "TWOQ":
        return TwoQueueEviction()
    raise ValueError(name)


def _nums(it):
    return [key_num(x) for x in it]


def project(name, p):
    """[q1, q2, q3, n] as in Policies9.tla."""
    if name == "LRU":
        return [_nums(p._order.keys()), [], [], 0]
    if name == "LFU":
        return [_nums(p._counts.keys()), [int(c) for c in p._counts.values()], [], 0]
    if name == "TTL":
        return [_nums(p._insert_times.keys()), [int(t) for t in p._insert_times.values()], [], 0]
    if name == "FIFO":
        return [_nums(p._order), [], [], 0]
    if name == "RANDOM":
        return [sorted(_nums(p._keys)), [], [], 0]
    if name == "SLRU":
        return [_nums(p._probationary.keys()), _nums(p._protected.keys()), [], 0]
    if name == "SAMPLED":
        return [_nums(p._access_times.keys()), [int(t) for t in p._access_times.values()], [], int(p._clock)]
    if name == "CLOCK":
        return [_nums(p._keys), [1 if p._ref_bits[k] else 0 for k in p._keys], [], int(p._hand)]
    if name == "TWOQ":
        return [_nums(p._a1in), _nums(p._a1out), _nums(p._am.keys()), 0]
    raise ValueError(name)


def tracked(name, p):
    """The keys the policy believes the cache holds (as key numbers)."""
    if name == "LRU":
        return set(_nums(p._order.keys()))
    if name == "LFU":
        return set(_nums(p._counts.keys()))
    if name == "TTL":
        return set(_nums(p._insert_times.keys()))
    if name == "FIFO":
        return set(_nums(p._order))
    if name == "RANDOM":
        return set(_nums(p._keys))
    if name == "SLRU":
        return set(_nums(p._probationary.keys())) | set(_nums(p._protected.keys()))
    if name == "SAMPLED":
        return set(_nums(p._access_times.keys()))
    if name == "CLOCK":
        return set(_nums(p._keys)) | set(_nums(p._ref_bits.keys()))
    if name == "TWOQ":
        return set(_nums(p._a1in)) | set(_nums(p._am.keys()))
    raise ValueError(name)


def state_proj(st):
    ps = st["ps"]
    return [list(ps["q1"]), list(ps["q2"]), list(ps["q3"]), ps["n"]]


def replay_path(name, path, nodes, root, strict=True):
    """Drive a fresh real policy along a root path of the PoliciesMC state graph.
    Returns (steps_done, mismatch | None, contract_failure | None).
    mismatch = (step index, action, model projection, code projection)          -> drift
    contract_failure = (step index, clause, detail) evaluated on the real object -> violation"""
    from .. import tlc
    clock = Clock()
    p = make_policy(name, clock=clock, scripted=True)
    held = set()
    mismatch = None
    for i, (lab, dst) in enumerate(path):
        act, args = tlc.parse_action(lab)
        st = nodes[dst]
        try:
            if strict and ((act == "Insert" and args[0] in held) or (act == "Access" and args[0] not in held)):
                continue        # not a call a cache would make in the real object's situation
            if act == "Insert":
                p.on_insert(key_name(args[0]))
                held.add(args[0])
            elif act == "Access":
                p.on_access(key_name(args[0]))
            elif act == "Remove":
                p.on_remove(key_name(args[0]))
                held.discard(args[0])
            elif act == "Clear":
                p.clear()
                held.clear()
            elif act == "Tick":
                clock.t += 1
            elif act == "Evict":
                want = args[0]
                if hasattr(p, "_rng") and isinstance(p._rng, ScriptedRng):
                    p._rng.want = key_name(want)
                    if name == "SAMPLED":
                        p._rng.times = dict(p._access_times)
                with time_limit(10):
                    v = p.evict()
                vn = 0 if v is None else key_num(v)
                if not strict:
                    pass
                elif vn == 0 and held:
                    return i + 1, mismatch, (i, "evict_none_while_holding", f"held={sorted(held)}")
                elif vn != 0 and vn not in held:
                    return i + 1, mismatch, (i, "evict_unheld_key", f"victim={vn} held={sorted(held)}")
                held.discard(vn)
                if vn != want and mismatch is None:
                    mismatch = (i, lab, f"victim {want}", f"victim {vn}")
        except Hung as ex:
            return i, (i, lab, "returns", f"did not return: {ex}"), None
        except Exception as ex:      # the model has no exceptions: report as drift, stop this path
            return i, (i, lab, "no exception", f"{type(ex).__name__}: {ex}"), None
        tk = tracked(name, p)
        if strict and tk != held:
            return i + 1, mismatch, (i, "policy_keys", f"tracked={sorted(tk)} held={sorted(held)} after {lab}")
        if mismatch is None:
            got = project(name, p)
            if got != state_proj(st):
                mismatch = (i, lab, state_proj(st), got)
    return len(path), mismatch, None
