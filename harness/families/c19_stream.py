"""C19, event-log / consumer-group part: drive the real EventLog + ConsumerGroup inside a real
Simulation with generated producer / consumer entities; records in the vocabulary of
specs/msg/StreamTrace.tla.  Also: direct-call replay of the three assignment strategies."""
from __future__ import annotations

import random

from happysimulator.components.streaming.consumer_group import (
    ConsumerGroup,
    RangeAssignment,
    RoundRobinAssignment,
    StickyAssignment,
)
from happysimulator.components.streaming.event_log import EventLog, SizeRetention, TimeRetention
from happysimulator.core.entity import Entity
from happysimulator.core.event import Event
from happysimulator.core.simulation import Simulation
from happysimulator.core.temporal import Instant

from .c19_mq import MAX_INVOKES, UNKNOWN, InvokeHook, SpinAbort, exact_delay

STRATS = {"range": RangeAssignment, "rr": RoundRobinAssignment, "sticky": StickyAssignment}


def cname(c):
    return f"c{c}"


class _Actor(Entity):
    """Producer (idx 0) or consumer idx: each op event starts one generator that uses the public
    `yield from` API of the log / group."""

    def __init__(self, idx, w):
        super().__init__(f"actor{idx}")
        self.idx, self.w = idx, w
        self.pos = {}

    def handle_event(self, event):
        op, lv = event.context["op"], event.context["lv"]
        if lv > 0:
            return [Event(time=self.now, event_type="op", target=self, context={"op": op, "lv": lv - 1})]
        return self.do(op)

    def do(self, op):
        w = self.w
        kind, a, b, m = op
        name = cname(self.idx)
        if kind == "append":
            yield from w.elog.append(w.keys[a - 1], {"n": a})
        elif kind == "read":
            yield from w.elog.read(a - 1, b, m)
        elif kind == "join":
            yield from w.group.join(name, self)
        elif kind == "leave":
            yield from w.group.leave(name)
        elif kind == "poll":
            recs = yield from w.group.poll(name, m)
            for r in recs or []:
                if r.offset + 1 > self.pos.get(r.partition, 0):
                    self.pos[r.partition] = r.offset + 1
        elif kind == "commit":
            if self.pos:
                yield from w.group.commit(name, dict(self.pos))
        return None


class StreamWorld:
    """sc = {np, nc, nk, alat, rlat, plat, rdelay, strat, ret {kind, n, every}, loop, horizon,
             ops [[t, lv, actor, kind, a, b, m], ...]}"""

    def __init__(self, sc, tick_ns):
        self.sc, self.tick_ns = sc, tick_ns
        ret = sc["ret"]
        pol = None
        if ret["kind"] == "size":
            pol = SizeRetention(ret["n"])
        elif ret["kind"] == "time":
            pol = TimeRetention((ret["n"] * tick_ns + tick_ns / 2) / 1e9)
        self.elog = EventLog("log", num_partitions=sc["np"], retention_policy=pol,
                             append_latency=exact_delay(sc["alat"], tick_ns),
                             read_latency=exact_delay(sc["rlat"], tick_ns),
                             retention_check_interval=exact_delay(max(1, ret["every"]), tick_ns))
        self.group = ConsumerGroup("group", self.elog, assignment_strategy=STRATS[sc["strat"]](),
                                   rebalance_delay=exact_delay(sc["rdelay"], tick_ns),
                                   poll_latency=exact_delay(sc["plat"], tick_ns))
        self.actors = [_Actor(i, self) for i in range(0, sc["nc"] + 1)]
        self.keys = [f"{sc.get('kprefix', 'key')}-{j}" for j in range(1, sc["nk"] + 1)]
        self.records = []
        self.error = None

    def kidx(self, key):
        try:
            return self.keys.index(key) + 1
        except ValueError:
            return UNKNOWN

    @staticmethod
    def cidx(name):
        try:
            return int(str(name)[1:])
        except (ValueError, TypeError):
            return UNKNOWN

    def snapshot(self):
        lg, g = self.elog, self.group
        n = self.sc["np"]
        parts = lg.partitions
        com = getattr(g, "_committed_offsets", {})
        return {
            "hw": [lg.high_watermark(i) for i in range(n)],
            "len": [len(p.records) for p in parts],
            "first": [p.records[0].offset if p.records else -1 for p in parts],
            "mem": sorted(self.cidx(x) for x in g.consumers),
            "asg": [[self.cidx(k), [p + 1 for p in v]] for k, v in sorted(g.assignments.items())],
            "gen": g.generation,
            "com": [[int(com.get(cname(c), {}).get(p, 0)) for p in range(n)] for c in range(1, self.sc["nc"] + 1)],
        }

    def log(self, a, c=0, p=0, k=0, x=0, y=0, res=()):
        t = self.elog.now.nanoseconds // self.tick_ns
        self.records.append({"a": a, "t": t, "c": c, "p": p, "k": k, "x": x, "y": y, "res": list(res),
                             "o": self.snapshot()})

    @staticmethod
    def _value(fut):
        try:
            return fut.value
        except Exception:   # noqa: BLE001 - unresolved future: reported as an unknown result
            return None

    def after(self, event, cont):
        tgt, et, ctx = event.target, event.event_type, event.context
        if tgt is self.elog:
            if et == "Append":
                k = self.kidx(ctx.get("key"))
                if not cont:
                    self.log("areq", k=k)
                else:
                    rec = self._value(ctx.get("reply_future"))
                    if rec is None:
                        self.log("ado", k=k, p=UNKNOWN, x=UNKNOWN)
                    else:
                        self.log("ado", k=k, p=rec.partition + 1, x=rec.offset)
            elif et == "Read":
                p, off, mx = ctx.get("partition", 0) + 1, ctx.get("offset", 0), ctx.get("max_records", 100)
                if not cont:
                    self.log("rreq", p=p, x=off, y=mx)
                else:
                    recs = self._value(ctx.get("reply_future")) or []
                    self.log("rdo", p=p, x=off, y=mx, res=[[r.partition + 1, r.offset] for r in recs])
            elif et == "RetentionCheck":
                self.log("ret")
        elif tgt is self.group:
            c = self.cidx(ctx.get("consumer_name"))
            if et == "Join":
                self.log("jdo" if cont else "jreq", c=c)
            elif et == "Leave":
                self.log("ldo" if cont else "lreq", c=c)
            elif et == "Poll":
                mx = ctx.get("max_records", 100)
                if not cont:
                    self.log("preq", c=c, y=mx)
                else:
                    recs = self._value(ctx.get("reply_future")) or []
                    self.log("pdo", c=c, y=mx, res=[[r.partition + 1, r.offset] for r in recs])
            elif et == "Commit":
                offs = ctx.get("offsets", {})
                self.log("com", c=c, res=[[p + 1, int(o)] for p, o in sorted(offs.items())])

    def discarded(self, event):
        return None

    def run(self):
        sc = self.sc
        ents = [self.elog, self.group, *self.actors]
        last = max([op[0] for op in sc["ops"]] + [0])
        kw = {}
        if sc["ret"]["kind"] != "none" or sc.get("loop") == "fast":
            kw["end_time"] = Instant((max(last, sc.get("horizon", 0)) + 6) * self.tick_ns)
        sim = Simulation(entities=ents, **kw)
        if sc.get("loop") == "control":
            sim.control.on_event(lambda e: None)
        for t, lv, actor, kind, a, b, m in sc["ops"]:
            sim.schedule(Event(time=Instant(t * self.tick_ns), event_type="op", target=self.actors[actor],
                               context={"op": (kind, a, b, m), "lv": lv}))
        hook = InvokeHook(self.after, self.discarded)
        with hook:
            try:
                sim.run()
            except SpinAbort:
                self.error = "spin: more than %d handler invocations" % MAX_INVOKES
            except Exception as ex:   # noqa: BLE001
                self.error = f"{type(ex).__name__}: {ex}"
        self.log("end")
        return self


def to_trace(tid, sc, w):
    cfg = {k: sc[k] for k in ("np", "nc", "nk", "alat", "rlat", "plat", "rdelay", "strat")}
    cfg["ret"] = {"kind": sc["ret"]["kind"], "n": sc["ret"]["n"], "every": max(1, sc["ret"]["every"])}
    return {"id": tid, "cfg": cfg, "log": w.records}


def run_scenario(sc, tick_ns):
    return StreamWorld(sc, tick_ns).run()


def scenario_from_path(path, cfg):
    """A TLC behaviour of StreamMC reduced to its environment choices."""
    ops, t = [], 0
    for k, (act, _dst) in enumerate(path):
        name, args = act[0], act[1:]
        lv = k % 3
        if name == "Tick":
            t += 1
        elif name == "EAppend":
            ops.append([t, lv, 0, "append", args[0], 0, 0])
        elif name == "ERead":
            ops.append([t, lv, 0, "read", args[0], args[1], 2])
        elif name == "EJoin":
            ops.append([t, lv, args[0], "join", 0, 0, 0])
        elif name == "ELeave":
            ops.append([t, lv, args[0], "leave", 0, 0, 0])
        elif name == "EPoll":
            ops.append([t, lv, args[0], "poll", 0, 0, 2])
        elif name == "ECommit":
            ops.append([t, lv, args[0], "commit", 0, 0, 0])
    return dict(cfg, ops=ops, horizon=t)


def random_scenario(rng: random.Random):
    np_, nc, nk = rng.randint(1, 5), rng.randint(1, 4), rng.randint(1, 6)
    kind = rng.choice(("none", "none", "size", "time"))
    sc = {"np": np_, "nc": nc, "nk": nk, "alat": rng.choice((0, 1, 1, 2)), "rlat": rng.choice((0, 1)),
          "plat": rng.choice((0, 1)), "rdelay": rng.choice((0, 1, 2, 3)), "strat": rng.choice(tuple(STRATS)),
          "ret": {"kind": kind, "n": rng.randint(1, 3), "every": rng.randint(1, 4)},
          "loop": rng.choice(("auto", "fast", "control")), "kprefix": rng.choice(("key", "user", "order", "k"))}
    horizon = rng.randint(2, 14)
    ops = []
    for _ in range(rng.randint(5, 34)):
        t = rng.randint(0, horizon)
        lv = rng.choice((0, 0, 1, 2))
        r = rng.random()
        c = rng.randint(1, nc)
        if r < 0.36:
            ops.append([t, lv, 0, "append", rng.randint(1, nk), 0, 0])
        elif r < 0.52:
            ops.append([t, lv, c, "join", 0, 0, 0])
        elif r < 0.60:
            ops.append([t, lv, c, "leave", 0, 0, 0])
        elif r < 0.80:
            ops.append([t, lv, c, "poll", 0, 0, rng.choice((1, 2, 3, 100))])
        elif r < 0.91:
            ops.append([t, lv, c, "commit", 0, 0, 0])
        else:
            ops.append([t, lv, 0, "read", rng.randint(1, np_), rng.randint(0, 4), rng.choice((1, 2, 5))])
    ops.sort(key=lambda o: o[0])
    sc["ops"], sc["horizon"] = ops, horizon
    return sc


# ---------------------------------------------------------------------------
# assignment strategies: direct calls

def call_strategy(strategy, np_, members, shuffle_rng=None):
    """strategy.assign(partitions, consumer names) -> {member int: sorted partitions}, plus the raw dict."""
    parts = list(range(np_))
    names = [cname(m) for m in sorted(members)]
    if shuffle_rng is not None:
        shuffle_rng.shuffle(parts)
        shuffle_rng.shuffle(names)
    raw = strategy.assign(parts, names)
    return {StreamWorld.cidx(k): list(v) for k, v in raw.items()}


def one_owner(np_, members, asg):
    """The contract clause on a real result: every partition in exactly one member's list, owners are members."""
    if not members:
        return True
    if any(k not in members for k in asg):
        return False
    flat = [p for v in asg.values() for p in v]
    return sorted(flat) == list(range(np_))
