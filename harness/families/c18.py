"""C18 — logical clocks respect causality; CRDT replicas converge to the specified value.

specs/clocks/Clocks.tla + ClocksTrace.tla  (LamportClock, VectorClock, HybridLogicalClock, NodeClock)
specs/clocks/Crdt.tla   + CrdtTrace.tla    (GCounter, PNCounter, LWWRegister, ORSet, CRDTStore gossip)

1. TLC: both models exhaustively with no deviation (contract invariants hold), each deviation alone
   (named invariant must fail).
2. spec -> code: every history of a bounded Clocks.tla configuration (terminal states of a -dump) and
   a transition tour of the Crdt.tla state graphs (dot dump, every edge) are executed call by call on
   the real objects (CRDTStore: inside a real Simulation with a real Network).
3. code -> spec: all those executions plus seeded random / adversarial ones beyond the bounds are
   validated by the TLA+ trace specs: contract clauses on the observed values (PROP), and equality
   of the observed private state with the model run as-code (MODEL = drift).
4. A PROP failure is a known finding only if Crdt.tla with a subset of the registered open
   deviations reproduces the observed objects step by step up to the failing step; the key is the
   deviation(s) of the smallest such subset.  Anything else is a VIOLATION."""
from __future__ import annotations

import itertools
import json
import os
import random
import re
from concurrent.futures import ThreadPoolExecutor

from .. import tlc
from ..common import Check, load_known
from ..probe import quiet_logging
from . import c18_clocks as CK
from . import c18_crdt as CR

SPEC = tlc.SPECS / "clocks"
CLOCK_INVS = ["InvLamport", "InvHLC", "InvVCForward", "InvVCBackward", "InvKeys"]
CRDT_INVS = ["InvCounterValue", "InvORValue", "InvLWWValue", "InvConverge", "InvMergeCommutative",
             "InvMergeIdempotent", "InvMergeAssociative"]
# deviation -> (invariant that must catch it, known-finding key)
CLOCK_DEVS = {"lamport_recv_no_increment": "InvLamport", "vc_recv_no_increment": "InvVCForward",
              "hlc_recv_ignores_remote": "InvHLC", "vc_compare_own_keys_only": "InvVCForward"}
MEM3 = ("all", "prefix", "self")
CRDT_DEVS = {"orset_remove_without_tombstone": "InvORValue", "to_dict_stringifies_elements": "InvORValue",
             "store_adopts_remote_node_id": "InvCounterValue", "gcounter_merge_adds": "InvMergeIdempotent",
             "lww_merge_takes_remote": "InvMergeCommutative", "lww_merge_skips_none_value": "InvMergeCommutative"}
KEY = {"orset_remove_without_tombstone": "orset_removed_element_resurrected_by_merge",
       "to_dict_stringifies_elements": "orset_roundtrip_stringifies_elements",
       "store_adopts_remote_node_id": "crdtstore_new_key_adopts_remote_node_id"}
ALL_ELEMS = ["x", "y", "z", "#1", "1"]


def known_open_devs():
    return sorted({e["deviation"] for e in load_known().get("open", [])
                   if e["property"] == "C18" and e.get("deviation") in KEY})


def S(xs):
    return "{" + ",".join(f'"{d}"' for d in xs) + "}"


def clock_consts(nn, me, mp, dev=(), mems=("all",)):
    return {"NN": nn, "MaxEv": me, "MaxPT": mp, "Mems": S(mems), "Dev": S(dev)}


def crdt_consts(nr, kinds, elems, steps, *, store=False, dup=False, dev=(), maxinc=1, mp=1, ml=0,
                vals=("a", "b")):
    return {"NR": nr, "Kinds": S(kinds), "Elems": S(elems), "Vals": S(vals), "MaxSteps": steps,
            "MaxInc": maxinc, "MaxPhys": mp, "MaxLog": ml, "Store": "TRUE" if store else "FALSE",
            "Dup": "TRUE" if dup else "FALSE", "DevC": S(dev)}


# ---------------------------------------------------------------------------
# 1. model checking

def _tlc_job(job):
    name, module, consts, invs, extra, label = job
    wd = tlc.workdir(label)
    cfg = tlc.write_cfg(wd / "mc.cfg", constants=consts, invariants=invs)
    per = max(2, tlc.DEFAULT_WORKERS // 4) if label.startswith('C18_mc') or label == 'C18_sens0' else 1
    return name, tlc.run(SPEC / module, cfg, label=label, timeout=7200, workers=per, extra=extra)


def run_jobs(jobs, par=None):
    """Run TLC jobs concurrently (each with a few workers); results in job order."""
    par = par or max(2, tlc.DEFAULT_WORKERS // 3)
    with ThreadPoolExecutor(max_workers=par) as ex:
        return list(ex.map(_tlc_job, jobs))


def mc_jobs(tier):
    q = tier == "quick"
    K4 = ["G", "PN", "LWW", "OR"]
    clean = [
        ("Clocks Dev={} 3 nodes", "Clocks.tla", clock_consts(3, 4 if q else 5, 1, mems=("all", "self")), CLOCK_INVS),
        ("Clocks Dev={} 2 nodes", "Clocks.tla", clock_consts(2, 4 if q else 5, 1 if q else 2, mems=("all", "prefix")), CLOCK_INVS),
        ("Crdt Dev={} store 2 replicas", "Crdt.tla",
         crdt_consts(2, ["G", "OR"] if q else ["G", "PN", "OR"], ["x"], 5 if q else 6, store=True, dup=True),
         CRDT_INVS),
        ("Crdt Dev={} plain 2 replicas all kinds", "Crdt.tla",
         crdt_consts(2, K4, ["x"] if q else ["x", "y"], 4 if q else 5, maxinc=1 if q else 2,
                     vals=("a", "none") if q else ("a", "b", "none")), CRDT_INVS),
        ("Crdt Dev={} plain 3 replicas", "Crdt.tla",
         crdt_consts(3, K4 if not q else ["OR", "G"], ["x"], 4 if q else 5), CRDT_INVS),
    ]
    if not q:
        clean.append(("Clocks Dev={} 4 nodes", "Clocks.tla", clock_consts(4, 4, 1, mems=("prefix", "self")), CLOCK_INVS))
        clean.append(("Crdt Dev={} store 2 replicas G 7 steps", "Crdt.tla",
                      crdt_consts(2, ["G"], ["x"], 7, store=True), CRDT_INVS))
        clean.append(("Crdt Dev={} plain OR int element", "Crdt.tla",
                      crdt_consts(2, ["OR"], ["#1", "x"], 5), CRDT_INVS))
        clean.append(("Crdt Dev={} store 3 replicas", "Crdt.tla",
                      crdt_consts(3, ["G", "OR"], ["x"], 5, store=True), CRDT_INVS))
    sens = [
        ("store_adopts_remote_node_id", "Crdt.tla",      # deepest counterexample (7 actions): value/convergence
         crdt_consts(2, ["G"], ["x"], 7, store=True, dev=["store_adopts_remote_node_id"]), CRDT_INVS[:4]),
        ("orset_remove_without_tombstone", "Crdt.tla",
         crdt_consts(2, ["OR"], ["x"], 4, dev=["orset_remove_without_tombstone"]), CRDT_INVS),
        ("to_dict_stringifies_elements", "Crdt.tla",
         crdt_consts(2, ["OR"], ["#1"], 3, dev=["to_dict_stringifies_elements"]), CRDT_INVS),
        ("gcounter_merge_adds", "Crdt.tla", crdt_consts(2, ["G"], ["x"], 3, dev=["gcounter_merge_adds"]),
         CRDT_INVS),
        ("lww_merge_takes_remote", "Crdt.tla", crdt_consts(2, ["LWW"], ["x"], 4, dev=["lww_merge_takes_remote"]),
         CRDT_INVS),
        ("lww_merge_skips_none_value", "Crdt.tla",
         crdt_consts(2, ["LWW"], ["x"], 4, dev=["lww_merge_skips_none_value"], vals=("a", "none")), CRDT_INVS),
    ]
    sens += [(d, "Clocks.tla", clock_consts(2, 3, 1, [d], mems=("all", "self")), CLOCK_INVS) for d in CLOCK_DEVS]
    jobs = [(n, m, c, i, None, f"C18_mc{k}") for k, (n, m, c, i) in enumerate(clean)]
    jobs += [(n, m, c, i, None, f"C18_sens{k}") for k, (n, m, c, i) in enumerate(sens)]
    return jobs


def mc_consume(chk, jobs, results):
    for (name, res), job in zip(results, jobs):
        if job[5].startswith("C18_mc"):
            chk.add_tlc(name, res)
            chk.require(res.ok, f"{name}: model with no deviation violates {res.violated}")
        else:
            chk.add_tlc(f"{job[1][:-4]} Dev={{{name}}}", res, count=False, note="sensitivity run, must violate")
            want = {**CLOCK_DEVS, **CRDT_DEVS}[name]
            chk.require(res.violated == want, f"deviation {name} not caught by {want} (got {res.violated})")
            chk.sensitivity[name] = res.violated


# ---------------------------------------------------------------------------
# 2. behaviours generated by TLC

_EDGE = re.compile(r'^(-?\d+) -> (-?\d+) \[label="(.*?)",color')
_NODE = re.compile(r'^(-?\d+) \[label="(.*)"(,style = filled)?\]')


def light_dot(path):
    """Edges + init nodes (with their kind) of a TLC dot dump, without parsing every state."""
    edges, inits = {}, {}
    with open(path) as f:
        for ln in f:
            me = _EDGE.match(ln)
            if me:
                lab = me.group(3).replace('\\"', '"')
                edges.setdefault(int(me.group(1)), []).append((lab, int(me.group(2))))
                continue
            if "style = filled" in ln:
                mn = _NODE.match(ln)
                mk = re.search(r'kind = \\"(\w+)\\"', ln)
                if mn and mk:
                    inits[int(mn.group(1))] = mk.group(1)
    return tlc.Graph({}, edges, list(inits)), inits


def label_to_action(lab):
    name, args = tlc.parse_action(lab)
    m = {"Inc": "inc", "Dec": "dec", "SetReg": "set", "Add": "add", "Rem": "rem", "Merge": "merge",
         "RoundTrip": "rt", "Tick": "tick", "DeliverPush": "dpush", "DeliverResp": "dresp"}
    return [m[name], *args]


def tour_confs(tier, dev):
    q = tier == "quick"
    K4 = ["G", "PN", "LWW", "OR"]
    confs = [
        ("store2", 2, crdt_consts(2, ["G", "OR"], ["x"], 4 if q else 6, store=True, dup=True, dev=dev), True, ["x"]),
        ("plain2", 2, crdt_consts(2, K4, ["x"], 4, dev=dev, vals=("a", "none")), False, ["x"]),
        ("plain2_int", 2, crdt_consts(2, ["OR"], ["#1"], 4, dev=dev), False, ["#1", "1"]),
        ("plain3_or", 3, crdt_consts(3, ["OR", "G"], ["x"], 3 if q else 4, dev=dev), False, ["x"]),
    ]
    if not q:
        confs.append(("plain2_xy", 2, crdt_consts(2, ["OR", "PN"], ["x", "y"], 4, dev=dev, maxinc=2), False,
                      ["x", "y"]))
        confs.append(("store3", 3, crdt_consts(3, ["G"], ["x"], 5, store=True, dev=dev), True, ["x"]))
    return confs


def tour_jobs(confs):
    jobs = []
    for k, (name, nr, consts, store, el) in enumerate(confs):
        wd = tlc.workdir(f"C18_tour{k}")
        jobs.append((name, "Crdt.tla", consts, [], ["-dump", "dot,actionlabels", str(wd / "g.dot")], f"C18_tour{k}"))
    return jobs


def tour_consume(chk, confs, results):
    """Transition tours of small as-code Crdt.tla graphs -> schedules (kind, nr, store, el, actions, origin)."""
    scheds, total_edges = [], 0
    for k, ((name, res), (cname, nr, consts, store, el)) in enumerate(zip(results, confs)):
        chk.add_tlc(f"Crdt as-code state graph {cname}", res, count=False, note="dot dump for the transition tour")
        g, inits = light_dot(tlc.WORK / f"C18_tour{k}" / "g.dot")
        total_edges += g.n_edges()
        for root, p in tlc.edge_tour(g):
            scheds.append((inits[root], nr, store, el, [label_to_action(lab) for lab, _ in p], f"tour:{cname}"))
        (tlc.WORK / f"C18_tour{k}" / "g.dot").unlink(missing_ok=True)
    chk.extra["crdt_tour_edges"] = total_edges
    chk.extra["crdt_tour_paths"] = len(scheds)
    return scheds


def hist_confs(tier):
    return [(3, 3, 1), (2, 4, 1)] if tier == "quick" else [(3, 4, 1), (2, 5, 1), (3, 3, 2)]


def hist_jobs(confs):
    jobs = []
    for k, (nn, me, mp) in enumerate(confs):
        wd = tlc.workdir(f"C18_hist{k}")
        jobs.append((f"{nn}n{me}e", "Clocks.tla", clock_consts(nn, me, mp), [], ["-dump", str(wd / "states")],
                     f"C18_hist{k}"))
    return jobs


def hist_consume(chk, confs, results):
    out = []
    for k, ((name, res), (nn, me, mp)) in enumerate(zip(results, confs)):
        chk.add_tlc(f"Clocks history enumeration {name}", res, count=False, note="terminal states = histories")
        f = tlc.WORK / f"C18_hist{k}" / "states.dump"
        for h in CK.histories_from_dump(f, me):
            out.append((nn, h))
        f.unlink(missing_ok=True)
    return out


# ---------------------------------------------------------------------------
# 3. random / adversarial schedules beyond the model's bounds

def random_plain(rng, kind, nr, ne):
    el = rng.choice((["x"], ["x", "y"], ["x", "y", "z"], ["#1", "1", "x"], ["#0", "@empty", "x"]))
    addable = [e for e in el if e != "1"]
    acts, used = [], set()
    style = rng.random()
    for _ in range(ne):
        r = rng.randint(1, nr)
        x = rng.random()
        if x < (0.55 if style < 0.5 else 0.35):
            if kind == "G":
                acts.append(["inc", r, rng.choice((1, 1, 2, 7))])
            elif kind == "PN":
                acts.append([rng.choice(("inc", "dec")), r, rng.choice((1, 1, 3))])
            elif kind == "LWW":
                for _try in range(5):
                    p, l = rng.randint(0, 3), rng.randint(0, 2)
                    if (p, l, r) not in used:
                        used.add((p, l, r))
                        acts.append(["set", r, rng.choice(("a", "b", "none", "none", "@0", "@empty", "@False")), p, l])
                        break
            else:
                acts.append([rng.choice(("add", "add", "rem")), r, rng.choice(addable)])
        elif x < 0.93:
            a, b = rng.randint(1, nr), rng.randint(1, nr)
            acts.append(["merge", a, b])
            if rng.random() < 0.3:
                acts.append(["merge", b, a])
            if rng.random() < 0.15:
                acts.append(["merge", a, b])          # duplicated merge
        else:
            acts.append(["rt", r])
    return el, acts[:ne + 4]


def int_safe(el, acts):
    """from_dict(to_dict()) with both 1 and "1" as keys depends on dict insertion order, which the
    model does not carry: such schedules are not generated (assumption)."""
    return True


def random_store(rng, kind, nr, ne):
    el = rng.choice((["x"], ["x", "y"]))
    acts, pending, nmsg = [], [], 0
    for _ in range(ne):
        x = rng.random()
        r = rng.randint(1, nr)
        if x < 0.4:
            if kind == "G":
                acts.append(["inc", r, rng.choice((1, 2))])
            elif kind == "PN":
                acts.append([rng.choice(("inc", "dec")), r, rng.choice((1, 2))])
            else:
                acts.append([rng.choice(("add", "add", "rem")), r, rng.choice(el)])
        elif x < 0.62 or not pending:
            b = rng.choice([k for k in range(1, nr + 1) if k != r])
            nmsg += 1
            pending.append((nmsg, "push"))
            acts.append(["tick", r, b])
        else:
            i = rng.randrange(len(pending))             # any pending message: reordering
            m, t = pending[i]
            if rng.random() < 0.8:                      # else: stays deliverable = duplication
                pending.pop(i)
            if t == "push":
                nmsg += 1
                pending.append((nmsg, "resp"))
                acts.append(["dpush", m])
            else:
                acts.append(["dresp", m])
    return el, acts


# ---------------------------------------------------------------------------
# 4. validation and classification

def validate(module, traces, label, chunk):
    """-> verdicts {id: (verdict, pos)}, mismatches {id: (what, pos)}, TLC results"""
    wd = tlc.WORK / label
    wd.mkdir(parents=True, exist_ok=True)
    consts = None
    if module == "CrdtTrace.tla":
        consts = crdt_consts(CR.NRMAX, ["G", "PN", "LWW", "OR"], ["x", "y", "z", "#1", "#0", "@empty"], 0,
                             dup=True, vals=("a", "b", "none"))
    else:
        consts = clock_consts(1, 0, 0)
    parts = [traces[k:k + chunk] for k in range(0, len(traces), chunk)]

    def one(ix):
        lab = f"{label}_{ix}"
        d = tlc.workdir(lab)
        cfg = tlc.write_cfg(d / "trace.cfg", spec="TSpec", constants=consts)
        f = d / "traces.json"
        f.write_text(json.dumps(parts[ix], separators=(",", ":")))
        res = tlc.run(SPEC / module, cfg, label=lab, workers=1, timeout=7200, env={"TRACE_FILE": str(f)})
        f.unlink()
        return res

    with ThreadPoolExecutor(max_workers=6) as ex:
        results = list(ex.map(one, range(len(parts))))
    verdicts, mism = {}, {}
    for res in results:
        for v in res.printed:
            if isinstance(v, tuple) and len(v) == 4 and v[0] == "V":
                verdicts[v[1]] = (v[2], v[3])
            elif isinstance(v, tuple) and len(v) == 4 and v[0] == "M":
                mism[v[1]] = (v[2], v[3])
    miss = [t["id"] for t in traces if t["id"] not in verdicts]
    if miss:
        raise tlc.TLCFailure(f"{label}: no verdict for traces {miss[:3]} (see {tlc.WORK}/{label}_*/tlc.out)")
    return verdicts, mism, results


def classify_crdt(chk, failing, traces_by_id, verdicts, meta):
    """R4: which registered deviations (smallest subset) make Crdt.tla reproduce the observed objects
    up to the failing step?  Returns {tid: [keys]} ; [] = unexplained."""
    # all deviations that have a finding key, whether or not the entry is (still) open: the key names
    # what fails; common.Check decides KNOWN-FINDING (open entry) vs VIOLATION (no / fixed entry)
    known = sorted(KEY)
    subsets = [list(c) for n in range(1, len(known) + 1) for c in itertools.combinations(known, n)]
    out = {tid: [] for tid in failing}
    if not subsets:
        return out
    batch, back = [], {}
    for tid in failing:
        for si, sub in enumerate(subsets):
            t = dict(traces_by_id[tid])
            t["id"] = len(batch) + 1
            t["dev"] = sub
            back[t["id"]] = (tid, si)
            batch.append(t)
    v2, m2, res = validate("CrdtTrace.tla", batch, "C18_classify", 1500)
    for r in res:
        chk.add_tlc("CrdtTrace classification batch (deviation subsets)", r, count=False)
    best = {}
    for bid, (tid, si) in back.items():
        what, mpos = m2.get(bid, ("?", 0))
        pos = verdicts[tid][1]
        reproduced = v2[bid][0] == verdicts[tid][0] and v2[bid][1] == pos and (what == "" or mpos > pos)
        if reproduced and (tid not in best or len(subsets[si]) < len(subsets[best[tid]])):
            best[tid] = si
    for tid, si in best.items():
        out[tid] = [KEY[d] for d in subsets[si]]
    return out


# ---------------------------------------------------------------------------

def run(tier, seed, replay=None):
    quiet_logging()
    chk = Check("C18", tier, seed)
    rng = random.Random(seed)
    q = tier == "quick"
    if replay:
        return do_replay(chk, replay)
    dev = known_open_devs()
    # all TLC exploration jobs in one pool: clean models, sensitivity, history dumps, state graphs
    j_mc, c_t, c_h = mc_jobs(tier), tour_confs(tier, dev), hist_confs(tier)
    if os.environ.get("C18_SKIP_MC"):      # development aid (mutation runs): models do not depend on the repo
        j_mc = []
    j_t, j_h = tour_jobs(c_t), hist_jobs(c_h)
    cache = os.environ.get("C18_CACHE")     # development aid: reuse TLC-generated schedules
    cached = None
    if cache and os.path.exists(cache):
        cached = json.loads(open(cache).read())
        j_t, j_h = [], []
    results = run_jobs(j_mc + j_t + j_h)
    mc_consume(chk, j_mc, results[:len(j_mc)])

    # ---------------- clocks ----------------
    ctraces, cmeta = [], {}

    def clock_exec(nn, events, origin, **kw):
        tid = len(ctraces) + 1
        try:
            if origin == "random_simulation":
                pts, L, V, H, ids = CK.run_history_sim(nn, events, kw["models"], kw["true_times"],
                                                       kw.get("serialise", False), kw.get("member"))
            else:
                pts, L, V, H, ids = CK.run_history(nn, events, **kw)
        except CK.HarnessLimit as ex:
            chk.note_drift(f"clock recorder: {ex}")
            return
        except Exception as ex:   # the real objects raised on a legal history
            chk.violation(f"clock_exception:{type(ex).__name__}", f"{type(ex).__name__}: {ex}",
                          {"half": "clocks", "nn": nn, "events": events, "origin": origin})
            return
        try:
            ctraces.append(CK.to_trace(tid, nn, events, pts, L, V, H, ids, kw.get("member")))
        except CK.HarnessLimit as ex:
            chk.note_drift(f"clock recorder: {ex}")
            return
        cmeta[tid] = {"half": "clocks", "origin": origin, "nn": nn, "events": [list(e) for e in events],
                      "readings_ns": pts,
                      "models": CK.describe_models(kw["models"]) if kw.get("models") else None,
                      "true_times": kw.get("true_times"), "serialise": kw.get("serialise", False),
                      "member": kw.get("member")}
        chk.impl_steps += len(events)

    if cached:
        hists = [(nn, [tuple(e) for e in h]) for nn, h in cached["hists"]]
        tours = [tuple(t) for t in cached["tours"]]
    else:
        hists = hist_consume(chk, c_h, results[len(j_mc) + len(j_t):])
        tours = tour_consume(chk, c_t, results[len(j_mc):len(j_mc) + len(j_t)])
        if cache:
            open(cache, "w").write(json.dumps({"hists": hists, "tours": tours}))
    cap = 2500 if q else 30000
    chosen = hists if len(hists) <= cap else rng.sample(hists, cap)
    chk.extra["clock_model_histories_total"] = len(hists)
    chk.extra["clock_model_histories_replayed"] = len(chosen)
    scales = (1, 1000, 10**9 + 7, 3 * 10**12)
    for i, (nn, h) in enumerate(chosen):
        sc = scales[i % len(scales)]
        clock_exec(nn, [(n, k, s) for (n, k, s, p) in h], "model", readings=[p * sc for (_, _, _, p) in h],
                   serialise=(i % 2 == 1), member=CK.membership(MEM3[i % 3], nn))
        chk.replays += 1
    n_rand = 400 if q else 8000
    for i in range(n_rand):
        nn = 2 + i % 4
        ne = rng.randint(4, 14 if q else 30)
        events = CK.random_history(rng, nn, ne, burst=(i % 3 == 0))
        member = CK.membership(("self", "prefix", "random", "all", "self")[i % 5], nn, rng)
        if i % 2 == 0:
            # NodeClock skew / drift over one true clock (true time non-decreasing, bursts at one instant)
            t, tt = 0, []
            for _ in events:
                t += rng.choice((0, 0, 1, 999, 10**6, 10**9, 7 * 10**9))
                tt.append(t)
            clock_exec(nn, events, "random_simulation" if i % 4 == 2 else "random_nodeclock",
                       models=CK.random_models(rng, nn), true_times=tt, serialise=(i % 4 == 0), member=member)
        else:
            # arbitrary readings, also stepping backwards
            base = rng.choice((0, 5, 10**9))
            rd = [base + rng.choice((0, 0, 1, 2, 3, 10, 10**6)) * rng.choice((1, 1, 1000)) for _ in events]
            clock_exec(nn, events, "random_wall", readings=rd, serialise=(i % 3 == 0), member=member)

    # ---------------- CRDTs ----------------
    traces, meta = [], {}

    def crdt_exec(kind, nr, store, el, acts, origin):
        tid = len(traces) + 1
        try:
            if store:
                steps, laws, _ = CR.run_store(kind, nr, el, acts)
            else:
                steps, laws = CR.run_plain(kind, nr, el, acts)
        except Exception as ex:
            chk.violation(f"crdt_exception:{type(ex).__name__}", f"{type(ex).__name__}: {ex}",
                          {"half": "crdt", "kind": kind, "nr": nr, "store": store, "el": el, "actions": acts,
                           "origin": origin})
            return
        if store and len(steps) != len(acts):
            chk.note_drift(f"store schedule {acts}: {len(steps)} observations for {len(acts)} actions")
            return
        t = CR.make_trace(tid, kind, nr, store, el, steps, laws)
        t["dev"] = dev
        traces.append(t)
        meta[tid] = {"half": "crdt", "origin": origin, "kind": kind, "nr": nr, "store": store, "el": el,
                     "actions": acts}
        chk.impl_steps += len(acts)

    capt = 1000 if q else 15000
    chosen_t = tours if len(tours) <= capt else rng.sample(tours, capt)
    chk.extra["crdt_tour_paths_replayed"] = len(chosen_t)
    for (kind, nr, store, el, acts, origin) in chosen_t:
        crdt_exec(kind, nr, store, el, acts, origin)
        chk.replays += 1
    chk.exhaustive = len(chosen) == len(hists) and len(chosen_t) == len(tours)
    n_plain = 300 if q else 6000
    for i in range(n_plain):
        kind = ("OR", "G", "PN", "LWW", "OR")[i % 5]
        nr = 2 + i % 4
        el, acts = random_plain(rng, kind, nr, rng.randint(5, 14 if q else 36))
        if "#1" in el:
            acts = drop_colliding(kind, nr, el, acts)
        crdt_exec(kind, nr, False, el, acts, "random_plain")
    n_store = 80 if q else 1000
    for i in range(n_store):
        kind = ("G", "OR", "PN")[i % 3]
        nr = 2 + i % 3
        el, acts = random_store(rng, kind, nr, rng.randint(5, 12 if q else 24))
        crdt_exec(kind, nr, True, el, acts, "random_store")

    # ---------------- validation ----------------
    cv, cm, cres = validate("ClocksTrace.tla", ctraces, "C18_ctrace", 1500 if q else 6000)
    for r in cres:
        chk.add_tlc("ClocksTrace batch", r, note="trace validation")
    v, m, res = validate("CrdtTrace.tla", traces, "C18_trace", 800 if q else 3000)
    for r in res:
        chk.add_tlc(f"CrdtTrace batch (model as-code Dev={dev})", r, note="trace validation")
    chk.impl_traces = len(ctraces) + len(traces)

    for tid, (verdict, pos) in sorted(cv.items()):
        if verdict == "ACCEPT":
            continue
        if verdict.startswith("PROP:"):
            chk.violation("clock_" + verdict[5:], f"{verdict} at event {pos} of history {cmeta[tid]['events']}",
                          {"meta": cmeta[tid], "trace": ctraces[tid - 1]})
        else:
            chk.note_drift(f"clock trace {tid}: {verdict} at event {pos} ({cmeta[tid]['origin']})")

    failing = [tid for tid, (verdict, _) in sorted(v.items()) if verdict.startswith("PROP:")]
    by_id = {t["id"]: t for t in traces}
    expl = classify_crdt(chk, failing, by_id, v, meta) if failing else {}
    n_known = 0
    for tid in sorted(failing, key=lambda t: (len(expl.get(t) or []), v[t][1], t)):
        verdict, pos = v[tid]
        keys = expl.get(tid) or []
        desc = (f"{verdict} after step {pos} of {meta[tid]['kind']} schedule "
                f"{meta[tid]['actions'][:pos]} ({'CRDTStore gossip' if meta[tid]['store'] else 'plain objects'})")
        if not keys:
            chk.violation("crdt_" + verdict[5:], desc, {"meta": meta[tid], "trace": by_id[tid]})
        for key in keys:
            n_known += 1
            chk.violation(key, desc, {"meta": meta[tid], "trace": by_id[tid]})
    for tid, (verdict, pos) in sorted(v.items()):
        if verdict.startswith("MODEL:"):
            chk.note_drift(f"crdt trace {tid} ({meta[tid]['origin']}, {meta[tid]['kind']}): {verdict} at step {pos} "
                           f"of {meta[tid]['actions']}")
    chk.extra["crdt_traces_failing_contract"] = len(failing)
    chk.extra["crdt_traces_explained_by_registered_deviation"] = sum(1 for t in failing if expl.get(t))
    chk.extra["clock_traces"] = len(ctraces)
    chk.extra["crdt_traces"] = len(traces)

    if ctraces:
        chk.sample({"clock_trace": ctraces[-1], "meta": cmeta[ctraces[-1]["id"]]})
    for t in traces[:1] + traces[-1:]:
        chk.sample({"crdt_meta": meta[t["id"]], "verdict": v[t["id"]], "last_obs": t["steps"][-1] if t["steps"] else None})
    chk.assumptions = [
        "physical clock readings are abstracted to order-preserving ranks (the HLC algorithm only compares "
        "and maximises them); readings are arbitrary per event in the model (superset of NodeClock models)",
        "a receive event's HLC timestamp is read from the private field _last (receive() returns nothing)",
        "distinct LWW writes carry distinct timestamps (HLC timestamps embed the node id)",
        "'received the same updates' = equal sets of update operations reached through local calls and "
        "(transitive) state merges; a remove observes exactly the adds its replica had received",
        "OR-set element 1 (int) and '1' (str) are never keys of the same object when it is serialised "
        "(the result would depend on dict insertion order, which the model does not carry)",
        "CRDTStore is driven with one key and operations increment/decrement/add/remove (its 'set' on an "
        "LWWRegister raises TypeError for lack of a timestamp and is not part of the statement)",
    ]
    chk.explanation = ("Clocks.tla/Crdt.tla explored exhaustively within the listed bounds; every history / graph "
                       "edge of the smaller configurations executed on the real classes; random executions "
                       "beyond the bounds judged by the TLA+ trace specs")
    return chk.finish()


def drop_colliding(kind, nr, el, acts):
    """Remove round trips that would serialise an object holding both 1 and "1" as keys (see
    assumptions).  Keys only grow (add, merge) or are renamed (round trip)."""
    keys = [set() for _ in range(nr)]
    out = []
    for a in acts:
        if a[0] == "add":
            keys[a[1] - 1].add(a[2])
        elif a[0] == "merge":
            keys[a[1] - 1] |= keys[a[2] - 1]
        elif a[0] == "rt":
            k = keys[a[1] - 1]
            if "#1" in k and "1" in k:
                continue
            keys[a[1] - 1] = {("1" if e == "#1" else e) for e in k}
        out.append(a)
    return out


def do_replay(chk, path):
    """Re-execute a saved case on the current code and judge it again."""
    data = json.loads(open(path).read())
    rp = data["replay"]
    mt = rp["meta"] if "meta" in rp else rp
    if mt.get("half") == "clocks":
        events = [tuple(e) for e in mt["events"]]
        kw = {"serialise": mt.get("serialise", False), "member": mt.get("member")}
        if mt.get("models"):
            from happysimulator.core.node_clock import FixedSkew, LinearDrift
            from happysimulator.core.temporal import Duration
            ms = []
            for d in mt["models"]:
                if d == "identity":
                    ms.append(None)
                elif d.startswith("FixedSkew"):
                    ms.append(FixedSkew(Duration(int(d[10:-3]))))
                else:
                    ms.append(LinearDrift(rate_ppm=float(d[12:-4])))
            kw.update(models=ms, true_times=mt["true_times"])
        else:
            kw.update(readings=mt["readings_ns"])
        if mt.get("origin") == "random_simulation":
            pts, L, V, H, ids = CK.run_history_sim(mt["nn"], events, kw["models"], kw["true_times"],
                                                   kw["serialise"], kw["member"])
        else:
            pts, L, V, H, ids = CK.run_history(mt["nn"], events, **kw)
        tr = CK.to_trace(1, mt["nn"], events, pts, L, V, H, ids, kw["member"])
        v, m, res = validate("ClocksTrace.tla", [tr], "C18_replay", 10)
        verdict, pos = v[1]
        if verdict.startswith("PROP:"):
            chk.violation("clock_" + verdict[5:], f"{verdict} at event {pos}", {"meta": mt, "trace": tr})
    else:
        kind, nr, store, el, acts = mt["kind"], mt["nr"], mt["store"], mt["el"], mt["actions"]
        steps, laws = (CR.run_store(kind, nr, el, acts)[:2] if store else CR.run_plain(kind, nr, el, acts))
        tr = CR.make_trace(1, kind, nr, store, el, steps, laws)
        tr["dev"] = known_open_devs()
        v, m, res = validate("CrdtTrace.tla", [tr], "C18_replay", 10)
        verdict, pos = v[1]
        if verdict.startswith("PROP:"):
            expl = classify_crdt(chk, [1], {1: tr}, v, {1: mt})
            keys = expl.get(1) or ["crdt_" + verdict[5:]]
            for key in keys:
                chk.violation(key, f"{verdict} after step {pos} of {acts[:pos]}", {"meta": mt, "trace": tr})
    chk.impl_traces = 1
    return chk.finish()
