"""C19, message-queue part: drive the real MessageQueue / DeadLetterQueue inside a real Simulation and
record, per handler segment / API call, the action and the queue's observable state (ordinals instead
of uuid4 ids) in the vocabulary of specs/msg/MQueueTrace.tla."""
from __future__ import annotations

import random

from happysimulator.components.messaging.dlq import DeadLetterQueue
from happysimulator.components.messaging.message_queue import MessageQueue
from happysimulator.core.entity import Entity
from happysimulator.core.event import Event, ProcessContinuation
from happysimulator.core.event_heap import EventHeap
from happysimulator.core.simulation import Simulation
from happysimulator.core.temporal import Instant

UNKNOWN = 99          # ordinal used for an id the harness never saw published
MAX_INVOKES = 20000   # spin guard per run


class SpinAbort(RuntimeError):
    pass


class InvokeHook:
    """Class-level wrappers (harness process only): call `after(event, is_continuation)` when a
    top-level invoke returns, and `discarded(event)` for an event that was popped from the heap but
    never invoked and not cancelled (the engine dropped it as lying in the past)."""

    def __init__(self, after, discarded):
        self.after, self.discarded = after, discarded
        self.depth = 0
        self.count = 0
        self.popped = None
        self._o = {}

    def flush(self):
        ev, self.popped = self.popped, None
        if ev is not None and not ev.cancelled:
            self.discarded(ev)

    def __enter__(self):
        hook, o = self, self._o
        o["ev"], o["pc"], o["pop"] = Event.invoke, ProcessContinuation.invoke, EventHeap.pop

        def mk(orig, cont):
            def invoke(self):
                top = hook.depth == 0
                if top:
                    hook.popped = None
                    hook.count += 1
                    if hook.count > MAX_INVOKES:
                        raise SpinAbort()
                hook.depth += 1
                try:
                    return orig(self)
                finally:
                    hook.depth -= 1
                    if top:
                        hook.after(self, cont)
            return invoke

        def pop(self):
            hook.flush()
            ev = o["pop"](self)
            hook.popped = ev
            return ev

        Event.invoke = mk(o["ev"], False)
        ProcessContinuation.invoke = mk(o["pc"], True)
        EventHeap.pop = pop
        return self

    def __exit__(self, *a):
        Event.invoke, ProcessContinuation.invoke, EventHeap.pop = self._o["ev"], self._o["pc"], self._o["pop"]


def exact_delay(k: int, tick_ns: int) -> float:
    """A float number of seconds that the engine converts to exactly k ticks."""
    if k == 0:
        return 0.0
    d = (k * tick_ns + 0.5) / 1e9
    assert int(d * 1_000_000_000) == k * tick_ns
    return d


class _Consumer(Entity):
    def __init__(self, idx, w):
        super().__init__(f"consumer{idx}")
        self.idx, self.w = idx, w

    def handle_event(self, event):
        if event.event_type != "message_delivery":
            return None
        w = self.w
        mid = event.context["message_id"]
        m = w.ordinal(mid)
        w.log("recv", m=m, c=self.idx, x=int(event.context.get("delivery_count", -1)))
        k = w.nrecv[m] = w.nrecv.get(m, 0) + 1
        act = w.react.get((m, k))
        if act is None:
            return None
        what, delay = act
        if delay > 0:
            return self._later(what, mid, m, delay)
        return w.call(what, m, mid)

    def _later(self, what, mid, m, delay):
        yield exact_delay(delay, self.w.tick_ns)
        return self.w.call(what, m, mid)


class _Script(Entity):
    def __init__(self, w):
        super().__init__("script")
        self.w = w

    def handle_event(self, event):
        op, lv = event.context["op"], event.context["lv"]
        if lv > 1:
            return [Event(time=self.now, event_type="chain", target=self, context={"op": op, "lv": lv - 1})]
        if lv == 1:
            return [self.w.op_event(op, self.now, 0)]
        return self.w.do_op(op)


class MQWorld:
    """One scenario:
       sc = {nc, lat, rdel, maxr, cap (0 = none), dlq (bool), subs0 [consumer..],
             ops [[t, lv, op, a], ...]   op in pub poll ack rej drop tmo sub unsub,
             react [[m, k, what, delay], ...]   what the receiving consumer does on the k-th reception of m,
             loop 'auto'|'fast'|'control'}"""

    def __init__(self, sc, tick_ns):
        self.sc, self.tick_ns = sc, tick_ns
        self.dlq = DeadLetterQueue("dlq") if sc["dlq"] else None
        self.q = MessageQueue("q", delivery_latency=exact_delay(sc["lat"], tick_ns),
                              redelivery_delay=exact_delay(sc["rdel"], tick_ns), max_redeliveries=sc["maxr"],
                              capacity=(sc["cap"] or None), dead_letter_queue=self.dlq)
        self.consumers = [_Consumer(i, self) for i in range(1, sc["nc"] + 1)]
        self.script = _Script(self)
        for c in sc["subs0"]:
            self.q.subscribe(self.consumers[c - 1])
        self.react = {(m, k): (what, d) for m, k, what, d in sc.get("react", [])}
        self.nrecv = {}
        self.ids = {}        # uuid -> ordinal
        self.byord = []      # ordinal-1 -> uuid
        self.msgs = []       # ordinal-1 -> Message object (kept to read delivery_count after it left)
        self.records = []
        self.last_cn = []
        self.emit = {}       # id(context) -> (context, m, c)
        self.inexact = 0
        self.error = None

    # -- observation -------------------------------------------------------
    def ordinal(self, mid):
        return self.ids.get(mid, UNKNOWN)

    def ticks(self):
        ns = self.q.now.nanoseconds
        qn, r = divmod(ns, self.tick_ns)
        if r:
            self.inexact += 1
        return qn

    def cidx(self, ent):
        for c in self.consumers:
            if c is ent:
                return c.idx
        return UNKNOWN

    def snapshot(self):
        q = self.q
        o = self.ordinal
        st = q.stats
        return {
            "p": [o(i) for i in q._pending_queue],
            "f": sorted(o(i) for i in q._in_flight),
            "lv": sorted(o(i) for i in q._messages),
            "rs": sorted(o(i) for i in q._redelivery_scheduled),
            "d": [o(m.id) for m in self.dlq.messages] if self.dlq is not None else [],
            "sb": [self.cidx(e) for e in q.downstream_entities() if e is not self.dlq],
            "cn": [int(m.delivery_count) for m in self.msgs],
            "st": [st.messages_published, st.messages_delivered, st.messages_redelivered,
                   st.messages_acknowledged, st.messages_dead_lettered],
            "np": len(self.byord),
            "pc": q.pending_count, "fc": q.in_flight_count,      # the public counters
        }

    def log(self, a, m=0, c=0, x=0, snap=None):
        s = snap or self.snapshot()
        self.last_cn = s["cn"]
        self.records.append({"a": a, "t": self.ticks(), "m": m, "c": c, "x": x, "o": s})

    # -- API calls made by the environment ------------------------------------
    def call(self, what, m, mid):
        q = self.q
        if what == "ack":
            q.acknowledge(mid)
            self.log("ack", m=m)
        elif what == "rej":
            q.reject(mid, requeue=True)
            self.log("rej", m=m, x=1)
        elif what == "drop":
            q.reject(mid, requeue=False)
            self.log("rej", m=m, x=0)
        elif what == "tmo":
            ev = q.schedule_redelivery(mid)
            self.log("tmo", m=m, x=1 if ev is not None else 0)
            return [ev] if ev is not None else None
        return None

    def op_event(self, op, when, lv):
        if lv == 0 and op[0] == "poll":
            return Event(time=when, event_type="poll", target=self.q)
        return Event(time=when, event_type="chain" if lv else "op", target=self.script, context={"op": op, "lv": lv})

    def do_op(self, op):
        kind, a = op
        if kind == "pub":
            return self._publish()
        if kind in ("ack", "rej", "drop", "tmo"):
            if not 1 <= a <= len(self.byord):
                return None
            return self.call(kind, a, self.byord[a - 1])
        if kind == "sub":
            self.q.subscribe(self.consumers[a - 1])
            self.log("sub", c=a)
        elif kind == "unsub":
            self.q.unsubscribe(self.consumers[a - 1])
            self.log("unsub", c=a)
        return None

    def _publish(self):
        """`mid = yield from q.publish(payload)` spelled out so that the state change of the first
        segment can be logged when it happens (before the publish latency)."""
        q = self.q
        payload = Event(time=q.now, event_type="payload", target=self.script, context={"op": ("noop", 0), "lv": 0})
        gen = q.publish(payload)
        try:
            d = next(gen)
        except RuntimeError:
            self.log("pub", x=0)
            return None
        except StopIteration as stop:
            self._register(stop.value)
            self.log("pub", m=len(self.byord), x=1)
            return None
        new = [k for k in q._messages if k not in self.ids]
        if len(new) == 1:
            self._register(new[0])
        logged = len(new) == 1
        if logged:
            self.log("pub", m=len(self.byord), x=1)
        while True:
            sent = yield d
            try:
                d = gen.send(sent)
            except StopIteration as stop:
                if not logged:
                    self._register(stop.value)
                    self.log("pub", m=len(self.byord), x=1)
                return None

    def _register(self, mid):
        if mid in self.ids or mid is None:
            return
        self.byord.append(mid)
        self.ids[mid] = len(self.byord)
        self.msgs.append(self.q.get_message(mid) or _Gone())

    # -- engine hooks -----------------------------------------------------------
    def after(self, event, cont):
        if event.target is not self.q:
            return
        if cont:
            got = self.emit.pop(id(event.context), None)
            if got is not None:
                self.log("emit", m=got[1], c=got[2])
            return
        et = event.event_type
        if et not in ("poll", "message_redelivery"):
            return
        prev = self.last_cn
        s = self.snapshot()
        cn = s["cn"]
        inc = [i for i in range(len(cn)) if cn[i] != (prev[i] if i < len(prev) else 0)]
        m = c = x = 0
        if len(inc) == 1:
            m, x = inc[0] + 1, cn[inc[0]]
            c = self.cidx(self.msgs[inc[0]].consumer)
        elif len(inc) > 1:
            m, c, x = UNKNOWN, UNKNOWN, 0
        if m:
            self.emit[id(event.context)] = (event.context, m, c)
        if et == "poll":
            self.log("poll", m=m, c=c, x=x, snap=s)
        else:
            tm = self.ordinal(event.context.get("message_id"))
            self.log("fire", m=tm, c=c if m == tm else (UNKNOWN if m else 0), x=x, snap=s)

    def discarded(self, event):
        if event.event_type == "message_delivery":
            self.log("disc", m=self.ordinal(event.context.get("message_id")), c=self.cidx(event.target),
                     x=event.time.nanoseconds // self.tick_ns)     # x = the instant the event was stamped with

    # -- run ------------------------------------------------------------------------
    def run(self):
        sc = self.sc
        ents = [self.q, self.script, *self.consumers] + ([self.dlq] if self.dlq is not None else [])
        last = max([op[0] for op in sc["ops"]] + [0])
        kw = {}
        if sc.get("loop") == "fast":
            kw["end_time"] = Instant((last + 1000) * self.tick_ns)
        sim = Simulation(entities=ents, **kw)
        if sc.get("loop") == "control":
            sim.control.on_event(lambda e: None)
        for t, lv, op, a in sc["ops"]:
            sim.schedule(self.op_event((op, a), Instant(t * self.tick_ns), lv))
        hook = InvokeHook(self.after, self.discarded)
        with hook:
            try:
                sim.run()
            except SpinAbort:
                self.error = "spin: more than %d handler invocations" % MAX_INVOKES
            except Exception as ex:   # noqa: BLE001 - anything the real code raises is an observation
                self.error = f"{type(ex).__name__}: {ex}"
            hook.flush()
        self.log("end", x=1 if (self.error is None and not sim._event_heap.has_events()) else 0)
        return self


class _Gone:
    delivery_count = 0
    consumer = None


def to_trace(tid, sc, w):
    return {"id": tid, "cfg": {"lat": sc["lat"], "rdel": sc["rdel"], "maxr": sc["maxr"], "cap": sc["cap"],
                               "dlq": bool(sc["dlq"])},
            "subs0": list(sc["subs0"]), "log": w.records}


def run_scenario(sc, tick_ns):
    return MQWorld(sc, tick_ns).run()


# ---------------------------------------------------------------------------
# scenario sources

def scenario_from_path(root_state, path, cfg):
    """A TLC behaviour of MQueueMC (edge labels) reduced to its environment choices."""
    q0 = root_state["q"]
    ops, t = [], 0
    for k, (act, _dst) in enumerate(path):
        name, args = act[0], act[1:]
        if name == "Tick":
            t += 1
        elif name == "EPub":
            ops.append([t, k % 3, "pub", 0])
        elif name == "EPoll":
            ops.append([t, k % 3, "poll", 0])
        elif name == "EAck":
            ops.append([t, k % 3, "ack", args[0]])
        elif name == "ERej":
            ops.append([t, k % 3, "rej" if args[1] else "drop", args[0]])
        elif name == "ETimeout":
            ops.append([t, k % 3, "tmo", args[0]])
        elif name == "ESub":
            ops.append([t, k % 3, "sub", args[0]])
        elif name == "EUnsub":
            ops.append([t, k % 3, "unsub", args[0]])
    return dict(cfg, subs0=list(q0["subs"]), ops=ops, react=[])


def adversarial_scenario(rng: random.Random):
    """Several redeliveries outstanding at once (timeouts in a burst, in publish or reverse order), late
    acks / rejects of timed-out messages, then fresh publishes and polls after the timers fired."""
    nc = rng.randint(1, 2)
    n = rng.randint(2, 4)
    lat, rdel = rng.choice((0, 0, 1)), rng.randint(1, 3)
    sc = {"nc": nc, "lat": lat, "rdel": rdel, "maxr": rng.choice((2, 3, 5)), "cap": 0, "dlq": rng.random() < 0.8,
          "loop": rng.choice(("auto", "fast", "control")), "subs0": list(range(1, nc + 1))}
    ops = [[0, 0, "pub", 0] for _ in range(n)] + [[1, 0, "poll", 0] for _ in range(n)]
    t = 2 + lat
    order = list(range(1, n + 1))
    if rng.random() < 0.5:
        order.reverse()
    for m in order:
        if rng.random() < 0.85:
            ops.append([t + (rng.randint(0, 1) if rng.random() < 0.3 else 0), rng.choice((0, 0, 1)), "tmo", m])
    # between the timeouts and the timers: late settlements and polls
    for m in range(1, n + 1):
        r = rng.random()
        if r < 0.3:
            ops.append([t + rng.randint(0, rdel), rng.choice((0, 1, 2)), rng.choice(("ack", "rej", "drop")), m])
    for _ in range(rng.randint(0, 2)):
        ops.append([t + rng.randint(0, rdel), rng.choice((0, 1)), "poll", 0])
    # after the timers fired: settle some, publish more, poll a lot
    t2 = t + rdel + lat + 1
    for m in range(1, n + 1):
        if rng.random() < 0.6:
            ops.append([t2 + rng.randint(0, 1), 0, rng.choice(("ack", "ack", "rej")), m])
    extra = rng.randint(1, 2)
    ops += [[t2 + 1, 0, "pub", 0] for _ in range(extra)]
    ops += [[t2 + 2 + k, 0, "poll", 0] for k in range(extra + 2)]
    ops.sort(key=lambda o: o[0])
    react = []
    for m in range(n + 1, n + extra + 1):
        react.append([m, 1, "ack", rng.choice((0, 1))])
    for m in range(1, n + 1):
        if rng.random() < 0.5:
            react.append([m, 2, rng.choice(("ack", "rej")), rng.choice((0, 0, 1))])
    sc["ops"], sc["react"] = ops, react
    return sc


def random_scenario(rng: random.Random, lat=None):
    if lat is None and rng.random() < 0.25:
        return adversarial_scenario(rng)
    nc = rng.randint(1, 3)
    sc = {"nc": nc, "lat": rng.choice((0, 0, 1, 2)) if lat is None else lat, "rdel": rng.randint(1, 3),
          "maxr": rng.choice((0, 1, 2, 2, 3, 4)), "cap": rng.choice((0, 0, 0, 2, 3)),
          "dlq": rng.random() < 0.8, "loop": rng.choice(("auto", "fast", "control")),
          "subs0": rng.sample(range(1, nc + 1), rng.randint(0, nc))}
    n = rng.randint(4, 28)
    horizon = rng.randint(1, 12)
    ops, npub = [], 0
    for _ in range(n):
        t = rng.randint(0, horizon)
        r = rng.random()
        lv = rng.choice((0, 0, 1, 2))
        if r < 0.28:
            ops.append([t, lv, "pub", 0])
            npub += 1
        elif r < 0.62:
            ops.append([t, lv, "poll", 0])
        elif r < 0.70:
            ops.append([t, lv, "tmo", rng.randint(1, max(1, npub + 1))])
        elif r < 0.76:
            ops.append([t, lv, "ack", rng.randint(1, max(1, npub + 1))])
        elif r < 0.82:
            ops.append([t, lv, "rej", rng.randint(1, max(1, npub + 1))])
        elif r < 0.85:
            ops.append([t, lv, "drop", rng.randint(1, max(1, npub + 1))])
        elif r < 0.93:
            ops.append([t, lv, "sub", rng.randint(1, nc)])
        else:
            ops.append([t, lv, "unsub", rng.randint(1, nc)])
    ops.sort(key=lambda o: o[0])
    react = []
    for m in range(1, npub + 2):
        for k in range(1, 6):
            r = rng.random()
            if r < 0.3:
                react.append([m, k, "ack", rng.choice((0, 0, 1, 2))])
            elif r < 0.55:
                react.append([m, k, "rej", rng.choice((0, 0, 1))])
            elif r < 0.62:
                react.append([m, k, "drop", 0])
            elif r < 0.85:
                react.append([m, k, "tmo", rng.choice((0, 1, 2))])
    sc["ops"], sc["react"] = ops, react
    return sc
