"""C18, CRDT half: apply action schedules to the real GCounter / PNCounter / LWWRegister / ORSet
objects (plain) or to CRDTStore entities gossiping inside a real Simulation, and record them for
specs/clocks/CrdtTrace.tla.

Action vocabulary (same as Crdt.tla / CrdtTrace.tla):
  ["inc",r,n] ["dec",r,n] ["set",r,v,p,l] ["add",r,e] ["rem",r,e] ["merge",a,b] ["rt",r]
  ["tick",a,b] ["dpush",i] ["dresp",i]
Elements: "#1" is the integer 1, every other name is the string itself."""
from __future__ import annotations

import copy

from happysimulator.components.crdt.crdt_store import CRDTStore
from happysimulator.components.crdt.g_counter import GCounter
from happysimulator.components.crdt.lww_register import LWWRegister
from happysimulator.components.crdt.or_set import ORSet
from happysimulator.components.crdt.pn_counter import PNCounter
from happysimulator.components.network.link import NetworkLink
from happysimulator.components.network.network import Network
from happysimulator.core.event import Event
from happysimulator.core.logical_clocks import HLCTimestamp
from happysimulator.core.simulation import Simulation
from happysimulator.core.temporal import Instant
from happysimulator.distributions.latency_distribution import LatencyDistribution

NRMAX = 5
CLS = {"G": GCounter, "PN": PNCounter, "LWW": LWWRegister, "OR": ORSet}
PHYS_SCALE = 1_000_003          # physical rank p -> p * PHYS_SCALE ns


def nid(r):
    return f"n{r}"


def nidx(s):
    try:
        return int(str(s)[1:]) if str(s).startswith("n") else 0
    except ValueError:
        return 0


def dec_elem(e):
    if e == "@empty":
        return ""
    return int(e[1:]) if isinstance(e, str) and e.startswith("#") else e


def enc_elem(e):
    if isinstance(e, bool):
        return f"?{e}"
    if isinstance(e, int):
        return f"#{e}"
    if e == "":
        return "@empty"
    return e if isinstance(e, str) else f"?{e!r}"


_VALS = {"none": None, "@0": 0, "@empty": "", "@False": False}


def dec_val(v):
    return _VALS[v] if v in _VALS else v


def enc_val(v):
    if v is None:
        return "none"
    if v is False:
        return "@False"
    if isinstance(v, int) and not isinstance(v, bool) and v == 0:
        return "@0"
    if v == "":
        return "@empty"
    return v if isinstance(v, str) else f"?{v!r}"


def ts_of(p, l, r):
    return HLCTimestamp(physical_ns=p * PHYS_SCALE, logical=l, node_id=nid(r))


def enc_ts(ts):
    q, rem = divmod(ts.physical_ns, PHYS_SCALE)
    return [q if rem == 0 else 99999, int(ts.logical), nidx(ts.node_id)]


def counts(d):
    out = [0] * NRMAX
    for k, v in d.items():
        i = nidx(k)
        if 1 <= i <= NRMAX:
            out[i - 1] = int(v)
        else:
            out[0] = -777
    return out


def project(kind, obj, el):
    """Real object -> observation record (private state for drift, public value for the contract).
    If the private fields are not where this harness expects them (refactored code) only the public
    value is recorded and the private part is marked (nid = -1) so that it shows up as drift."""
    try:
        return _project(kind, obj, el)
    except (AttributeError, TypeError, KeyError, IndexError):
        o = {"has": True, "nid": -1, "cnt": [0] * NRMAX, "neg": [0] * NRMAX, "reg": [], "ent": [[] for _ in el],
             "keys": [], "seq": 0}
        if kind in ("G", "PN"):
            o["val"] = int(obj.value)
        elif kind == "LWW":
            o["val"] = enc_val(obj.value)
        else:
            o["val"] = sorted(enc_elem(e) for e in obj.value)
        return o


def _project(kind, obj, el):
    if obj is None:
        return {"has": False, "nid": 0, "cnt": [0] * NRMAX, "neg": [0] * NRMAX, "reg": [], "ent": [[] for _ in el],
                "keys": [], "seq": 0, "val": 0}
    o = {"has": True, "nid": nidx(obj.node_id), "cnt": [0] * NRMAX, "neg": [0] * NRMAX, "reg": [],
         "ent": [[] for _ in el], "keys": [], "seq": 0}
    if kind == "G":
        o["cnt"] = counts(obj._counts)
        o["val"] = int(obj.value)
    elif kind == "PN":
        o["cnt"] = counts(obj._p._counts)
        o["neg"] = counts(obj._n._counts)
        o["val"] = int(obj.value)
    elif kind == "LWW":
        if obj.timestamp is not None:
            o["reg"] = [enc_val(obj.value), enc_ts(obj.timestamp)]
        o["val"] = enc_val(obj.get())
    else:
        ent = {enc_elem(e): sorted([nidx(t[0]), int(t[1])] for t in tags) for e, tags in obj._entries.items()}
        o["ent"] = [ent.get(e, []) for e in el]
        o["keys"] = sorted(ent)
        if any(k not in el for k in ent):
            o["keys"].append("?outside")
        o["seq"] = int(obj._seq)
        vals = {enc_elem(e) for e in obj.value}
        # the three public views must agree (value / contains / iteration)
        if {enc_elem(e) for e in obj} != vals or any(not obj.contains(dec_elem(e)) for e in vals) \
                or len(obj) != len(vals):
            vals = vals | {"?views_disagree"}
        o["val"] = sorted(vals)
    return o


def eq_matrix(objs):
    out = []
    n = len(objs)
    for a in range(n):
        for b in range(a + 1, n):
            if objs[a] is None or objs[b] is None:
                continue
            e = (objs[a] == objs[b]) and (objs[b] == objs[a]) and (objs[a].value == objs[b].value)
            out.append([a + 1, b + 1, bool(e)])
    return out


def apply_update(kind, obj, a):
    op = a[0]
    if op == "inc":
        obj.increment(a[2])
    elif op == "dec":
        obj.decrement(a[2])
    elif op == "set":
        obj.set(dec_val(a[2]), ts_of(a[3], a[4], a[1]))
    elif op == "add":
        obj.add(dec_elem(a[2]))
    elif op == "rem":
        obj.remove(dec_elem(a[2]))
    else:
        raise ValueError(op)


def merged(x, y):
    z = copy.deepcopy(x)
    z.merge(copy.deepcopy(y))
    return z


def same(x, y):
    return bool(x == y and y == x and x.value == y.value)


def merge_laws(objs, cap=40):
    """commutative / associative / idempotent, evaluated with the real merge on copies."""
    live = [(i + 1, o) for i, o in enumerate(objs) if o is not None]
    laws = []
    for a, x in live:
        s = copy.deepcopy(x)
        s.merge(s)                                   # merging an object with itself
        laws.append(["idempotent", a, a, a, same(merged(x, x), x) and same(s, x)])
    for a, x in live:
        for b, y in live:
            if a < b:
                laws.append(["commutative", a, b, b, same(merged(x, y), merged(y, x))])
                # a repeated merge changes nothing
                laws.append(["idempotent", a, b, b, same(merged(merged(x, y), y), merged(x, y))])
    n = 0
    for a, x in live:
        for b, y in live:
            for c, z in live:
                if len({a, b, c}) == 3 and n < cap:
                    n += 1
                    laws.append(["associative", a, b, c,
                                 same(merged(merged(x, y), z), merged(x, merged(y, z)))])
    return laws


def run_plain(kind, nr, el, actions):
    """Plain objects: apply every action, observe all replicas after each one."""
    objs = [CLS[kind](nid(r)) for r in range(1, nr + 1)]
    steps = []
    for a in actions:
        op = a[0]
        if op == "merge":
            objs[a[1] - 1].merge(objs[a[2] - 1])
        elif op == "rt":
            o = objs[a[1] - 1]
            objs[a[1] - 1] = type(o).from_dict(copy.deepcopy(o.to_dict()))
        else:
            apply_update(kind, objs[a[1] - 1], a)
        steps.append({"a": list(a), "obs": [project(kind, o, el) for o in objs], "eq": eq_matrix(objs)})
    return steps, merge_laws(objs)


# ---------------------------------------------------------------------------
# CRDTStore under a real Simulation

class _Scripted(LatencyDistribution):
    """Latency of the k-th message on one link, in seconds, read from the schedule."""

    def __init__(self, plan):
        super().__init__(0.0)
        self.plan = plan        # list of delays (seconds), consumed in send order

    def get_latency(self, current_time=None):
        from happysimulator.core.temporal import Duration
        d = self.plan.pop(0) if self.plan else 10.0 ** 7
        return Duration.from_seconds(d)


class _DupLink(NetworkLink):
    """The real NetworkLink plus network-level duplication: extra copies of the forwarded event
    are delivered at scripted later instants."""

    def handle_event(self, event):
        extra = self.dups.pop(0) if self.dups else []
        fwd = yield from NetworkLink.handle_event(self, event)
        if fwd is None:
            return None
        out = [fwd]
        for t in extra:
            out.append(Event(time=Instant.from_seconds(t), event_type=fwd.event_type, target=fwd.target,
                             daemon=fwd.daemon, context=event.context.copy()))
        return out


def plan_store(actions):
    """Assign simulated instants: action k happens at k seconds; every message gets the delay that
    makes it arrive exactly at the step(s) that deliver it (never, if no step does)."""
    sends = {}      # msg id -> (link (src,dst), send step)
    nmsg = 0
    deliveries = {}  # msg id -> [steps]
    order = {}       # link -> [msg ids in send order]
    src_dst = {}
    for k, a in enumerate(actions, start=1):
        if a[0] == "tick":
            nmsg += 1
            sends[nmsg] = ((a[1], a[2]), k)
            src_dst[nmsg] = (a[1], a[2])
            order.setdefault((a[1], a[2]), []).append(nmsg)
        elif a[0] == "dpush":
            deliveries.setdefault(a[1], []).append(k)
            s, d = src_dst[a[1]]
            nmsg += 1
            sends[nmsg] = ((d, s), k)
            src_dst[nmsg] = (d, s)
            order.setdefault((d, s), []).append(nmsg)
        elif a[0] == "dresp":
            deliveries.setdefault(a[1], []).append(k)
    return sends, deliveries, order


def run_store(kind, nr, el, actions, factory=None):
    """CRDTStore entities (one key) under a real Simulation with a real Network; gossip ticks,
    pushes and responses happen at the instants the schedule prescribes."""
    sends, deliveries, order = plan_store(actions)
    net = Network(name="net")
    fac = factory or (lambda node: CLS[kind](node))
    stores = [CRDTStore(nid(r), network=net, crdt_factory=fac, gossip_interval=10.0 ** 7)
              for r in range(1, nr + 1)]
    for a in range(1, nr + 1):
        for b in range(1, nr + 1):
            if a == b:
                continue
            ids = order.get((a, b), [])
            delays, dups = [], []
            for m in ids:
                ds = deliveries.get(m, [])
                k0 = sends[m][1]
                delays.append(float(ds[0] - k0) if ds else 10.0 ** 7)
                dups.append([float(d) for d in ds[1:]])
            link = _DupLink(name=f"l{a}{b}", latency=_Scripted(delays))
            link.dups = dups
            net.add_link(stores[a - 1], stores[b - 1], link)
    sim = Simulation(start_time=Instant.Epoch, end_time=Instant.from_seconds(len(actions) + 1.0),
                     sources=[], entities=[*stores, net])
    steps = []

    def observe(a):
        objs = [s.crdts.get("k") for s in stores]
        steps.append({"a": list(a), "obs": [project(kind, o, el) for o in objs], "eq": eq_matrix(objs)})

    evs = []
    for k, a in enumerate(actions, start=1):
        t = Instant.from_seconds(k)
        if a[0] in ("inc", "dec", "add", "rem"):
            opname = {"inc": "increment", "dec": "decrement", "add": "add", "rem": "remove"}[a[0]]
            val = dec_elem(a[2]) if a[0] in ("add", "rem") else a[2]
            evs.append(Event(time=t, event_type="Write", target=stores[a[1] - 1],
                             context={"metadata": {"key": "k", "operation": opname, "value": val}}))
        elif a[0] == "tick":
            src, dst = stores[a[1] - 1], stores[a[2] - 1]
            evs.append(Event.once(time=t, event_type="peers", fn=lambda e, s=src, d=dst: s.add_peers([d])))
            evs.append(Event(time=t, event_type="GossipTick", target=src))
        elif a[0] == "dpush":
            pass    # arrives through the network at this instant; the responder needs the peer list
        elif a[0] == "dresp":
            pass
        else:
            raise ValueError(f"store mode cannot run {a}")
        evs.append(Event.once(time=Instant(k * 10**9 + 5 * 10**8), event_type="observe",
                              fn=lambda e, a=a: observe(a)))
    # a push is answered only to a known peer: give every store all peers up front; ticks narrow it
    for s in stores:
        s.add_peers([p for p in stores if p is not s])
    # restore full peer lists right after each tick was handled (same instant, created later)
    for k, a in enumerate(actions, start=1):
        if a[0] == "tick":
            src = stores[a[1] - 1]
            evs.append(Event.once(time=Instant(k * 10**9 + 10**8), event_type="peers_back",
                                  fn=lambda e, s=src: s.add_peers([p for p in stores if p is not s])))
    sim.schedule(evs)
    sim.run()
    objs = [s.crdts.get("k") for s in stores]
    return steps, merge_laws(objs), stores


def make_trace(tid, kind, nr, store, el, steps, laws):
    return {"id": tid, "kind": kind, "nr": nr, "store": bool(store), "el": list(el), "steps": steps,
            "laws": laws if laws else [["none", 1, 1, 1, True]]}
