"""C16 / MultiTierCache: TLC jobs (TieredMC.tla), real executions (two write-through CachedStore tiers over
one KVStore inside a real Simulation, one trace step per generator segment) and trace validation
(TieredTrace.tla)."""
from __future__ import annotations

import json

from happysimulator.components.datastore.cached_store import CachedStore
from happysimulator.components.datastore.kv_store import KVStore
from happysimulator.components.datastore.multi_tier_cache import MultiTierCache
from happysimulator.core.entity import Entity
from happysimulator.core.event import Event
from happysimulator.core.simulation import Simulation
from happysimulator.core.temporal import Instant

from .. import tlc
from . import c16_policies as pol9
from .c16_util import Hung, exact_delay, time_limit

SPEC = tlc.SPECS / "cache"
INVS = ["InvCapacity", "InvPolicyKeys", "InvReadFresh"]
DEVIATIONS = {"tier_promotion_overwrites_newer_write": "InvReadFresh", "l1_put_rewrites_backing_late": "InvReadFresh"}
KNOWN_CODES = {1: "tier_promotion_overwrites_newer_write", 2: "l1_put_rewrites_backing_late"}
# the as-code second backing write of L1.put() needs five operations in three clients to matter: its sensitivity
# run (and the Dev={} counterpart) executes the directed program of TieredMC.tla instead of enumerating
SCRIPTED = {"l1_put_rewrites_backing_late": dict(nops=(1, 3, 1), gaps=(0, 1, 2), kinds=("get", "put", "inv"),
                                                 l2pre=(), script="rewrite")}
LIGHT_JVM = {"_JAVA_OPTIONS": "-XX:TieredStopAtLevel=1 -XX:ParallelGCThreads=2 -XX:CICompilerCount=1"}
LAT0 = {"CL1": 1, "CL2": 2, "RL": 2, "WL": 2, "DL": 2}
PROMO = {"always": "always", "second": "on_second_access", "never": "never"}


def tla_set(items):
    return "{" + ",".join(f'"{d}"' if isinstance(d, str) else str(d) for d in items) + "}"


def mc_consts(*, K=2, cap1=1, cap2=2, pol="ANY", promo="always", dev=(), nops=(2, 1, 0), gaps=(0, 1),
              kinds=("get", "put", "del", "inv"), pre=(1, 2), l2pre=(1,), lat=None, script="none"):
    lat = lat or LAT0
    c = {"K": K, "Cap1": cap1, "Cap2": cap2, "Pol": f'"{pol}"', "Promo": f'"{promo}"', "Dev": tla_set(dev),
         "NP": len([n for n in nops if n > 0]), "N1": nops[0], "N2": nops[1], "N3": nops[2],
         "Kinds": tla_set(kinds), "Gaps": tla_set(gaps), "Pre": tla_set(pre), "L2Pre": tla_set(l2pre),
         "TTLv": pol9.PAR["ttl"], "SS": pol9.PAR["ss"], "UseScript": f'"{script}"'}
    c.update(lat)
    return c


def job(label, consts, *, invariants=(), timeout=900, workers=4, light=False):
    wd = tlc.workdir(label)
    cfg = tlc.write_cfg(wd / "mc.cfg", spec="Spec", constants=consts, invariants=invariants, view="View")
    return tlc.run(SPEC / "TieredMC.tla", cfg, label=label, timeout=timeout, workers=workers,
                   env=LIGHT_JVM if light else None)


class _Client(Entity):
    def __init__(self, p, world, script):
        super().__init__(f"client{p}")
        self.p, self.w, self.script = p, world, script
        self.finished = False

    def handle_event(self, event):
        return self.body()

    def body(self):
        w = self.w
        for kind, k, gap in self.script:
            yield exact_delay(gap, w.tick_ns)
            yield from w.do_op(self.p, kind, k)
        self.finished = True


class _Warmer(Entity):
    def __init__(self, world):
        super().__init__("l2_reader")
        self.w = world

    def handle_event(self, event):
        return self.body()

    def body(self):
        for k in self.w.warm:
            yield from self.w.l2.get(pol9.key_name(k))


class _Finale(Entity):
    def __init__(self, world):
        super().__init__("finale")
        self.w = world

    def handle_event(self, event):
        return self.body()

    def body(self):
        w = self.w
        w.quiescent_at_finale = all(c.finished for c in w.clients) and not w.inflight
        for k in range(1, w.K + 1):
            yield from w.do_op(0, "get", k)


class TierWorld:
    """cfg = {K, cap1, cap2, pol, par, promo, lat{CL1,CL2,RL,WL,DL}, tick_ns, pre[K], l2[K], seed}"""

    def __init__(self, cfg, prog):
        self.cfg, self.prog = cfg, prog
        self.K, self.tick_ns, self.pol_name = cfg["K"], cfg["tick_ns"], cfg["pol"]
        lat = cfg["lat"]
        d = lambda n: exact_delay(lat[n], self.tick_ns)       # noqa: E731
        self.backing = KVStore("db", read_latency=d("RL"), write_latency=d("WL"), delete_latency=d("DL"))
        for k, v in enumerate(cfg["pre"], start=1):
            if v:
                self.backing.put_sync(pol9.key_name(k), v)
        self.p1 = pol9.make_policy(self.pol_name, par=cfg["par"], clock=self.tick, seed=cfg.get("seed", 0))
        self.p2 = pol9.make_policy(self.pol_name, par=cfg["par"], clock=self.tick, seed=cfg.get("seed", 0) + 1)
        self.l1 = CachedStore("l1", self.backing, cfg["cap1"], self.p1, cache_read_latency=d("CL1"))
        self.l2 = CachedStore("l2", self.backing, cfg["cap2"], self.p2, cache_read_latency=d("CL2"))
        self.mt = MultiTierCache("mt", tiers=[self.l1, self.l2], backing_store=self.backing,
                                 promotion_policy=PROMO[cfg["promo"]])
        # a warm L2: another client of the shared L2 tier reads the keys through L2's public get() first
        self.warm = [k for k, v in enumerate(cfg["l2"], start=1) if v]
        self.l2t = [0] * self.K
        for i, k in enumerate(self.warm, start=1):
            self.l2t[k - 1] = i * lat["RL"]
        self.t0 = len(self.warm) * lat["RL"] + (1 if self.warm else 0)       # clients start after the warm-up
        self.clients = [_Client(p, self, sc) for p, sc in enumerate(prog, start=1)]
        self.finale = _Finale(self)
        self.steps, self.errors = [], []
        self.nv = self.noid = 0
        self.inflight = set()
        self.quiescent_at_finale = None
        self.hung = False

    def tick(self):
        try:
            return self.mt.now.nanoseconds // self.tick_ns
        except RuntimeError:
            return 0

    def tier_snap(self, c, pol):
        K = self.K
        keys = [pol9.key_num(x) for x in c.get_cached_keys()]
        trk = pol9.tracked(self.pol_name, pol)
        extra = len([x for x in keys if not 1 <= x <= K]) + len([x for x in trk if not 1 <= x <= K])
        return (int(c.cache_size),
                [int(c._cache.get(pol9.key_name(k), 0) or 0) if k in keys else 0 for k in range(1, K + 1)],
                [1 if k in trk else 0 for k in range(1, K + 1)], pol9.project(self.pol_name, pol), extra)

    def record(self, p, oid, kind, k, v, seg, last, ret):
        n1, c1, k1, a1, x1 = self.tier_snap(self.l1, self.p1)
        n2, c2, k2, a2, x2 = self.tier_snap(self.l2, self.p2)
        self.steps.append({
            "p": p, "o": oid, "kind": kind, "k": k, "v": v, "seg": seg, "last": bool(last), "ret": int(ret or 0),
            "t": int(self.tick()), "n1": n1, "n2": n2, "c1": c1, "c2": c2, "k1": k1, "k2": k2, "a1": a1, "a2": a2,
            "back": [int(self.backing.get_sync(pol9.key_name(k_)) or 0) for k_ in range(1, self.K + 1)],
            "acc": [int(self.mt._access_counts.get(pol9.key_name(k_), 0)) for k_ in range(1, self.K + 1)],
            "xk": x1 + x2})

    def do_op(self, p, kind, k):
        mt = self.mt
        name = pol9.key_name(k)
        self.noid += 1
        oid = self.noid
        if kind == "inv":
            mt.invalidate(name)
            self.record(p, oid, kind, k, 0, 1, True, 0)
            return None
        if kind == "invall":
            mt.invalidate_all()
            self.record(p, oid, kind, 0, 0, 1, True, 0)
            return None
        v = 0
        if kind == "get":
            gen = mt.get(name)
        elif kind == "put":
            self.nv += 1
            v = self.nv
            gen = mt.put(name, v)
        elif kind == "del":
            gen = mt.delete(name)
        else:
            raise ValueError(kind)
        self.inflight.add(oid)
        seg, send = 0, None
        try:
            while True:
                seg += 1
                try:
                    y = next(gen) if seg == 1 else gen.send(send)
                except StopIteration as e:
                    ret = (1 if e.value else 0) if kind == "del" else (e.value if kind == "get" else 0)
                    self.record(p, oid, kind, k, v, seg, True, ret)
                    return e.value
                self.record(p, oid, kind, k, v, seg, False, 0)
                send = yield y
        except Hung:
            raise
        except Exception as ex:      # noqa: BLE001
            self.errors.append(f"{kind}({k}) seg {seg}: {type(ex).__name__}: {ex}")
            return None
        finally:
            self.inflight.discard(oid)

    def run(self):
        lat = self.cfg["lat"]
        worst = max(lat.values()) * 3 + 2
        horizon = max([sum(g for _, _, g in sc) + len(sc) * worst for sc in self.prog] + [0]) + 10
        warmer = _Warmer(self)
        sim = Simulation(entities=[self.backing, self.l1, self.l2, self.mt, warmer, *self.clients, self.finale])
        sim.schedule(Event(time=Instant(0), event_type="go", target=warmer))
        for cl in self.clients:
            sim.schedule(Event(time=Instant(self.t0 * self.tick_ns), event_type="go", target=cl))
        sim.schedule(Event(time=Instant((self.t0 + horizon) * self.tick_ns), event_type="go", target=self.finale))
        try:
            with time_limit(self.cfg.get("limit_s", 5)):
                sim.run()
        except Hung as ex:
            self.hung = True
            self.errors.append(f"simulation did not terminate: {ex}")
        except Exception as ex:      # noqa: BLE001
            self.errors.append(f"simulation: {type(ex).__name__}: {ex}")
        return self

    def trace(self, tid):
        c = self.cfg
        return {"id": tid, "K": self.K, "cap1": c["cap1"], "cap2": c["cap2"], "pol": c["pol"], "par": c["par"],
                "promo": c["promo"], "pre": list(c["pre"]), "l2": list(c["l2"]), "l2t": list(self.l2t),
                "steps": self.steps}


def world_cfg(*, K, cap1, cap2, pol, promo, lat, pre, l2, tick_ns=1_000_000, seed=0):
    return {"K": K, "cap1": cap1, "cap2": cap2, "pol": pol, "par": dict(pol9.PAR), "promo": promo, "lat": dict(lat),
            "tick_ns": tick_ns, "pre": list(pre), "l2": list(l2), "seed": seed}


LATS = [LAT0, {"CL1": 0, "CL2": 1, "RL": 2, "WL": 3, "DL": 1}, {"CL1": 1, "CL2": 3, "RL": 1, "WL": 1, "DL": 2}]
KINDS_W = ("get", "get", "get", "put", "put", "del", "inv", "invall")


def random_case(rng, i):
    K = rng.choice((2, 3))
    pol = pol9.POLICIES[i % 9]
    pre_keys = [k for k in range(1, K + 1) if rng.random() < 0.7]
    pre = [100 + k if k in pre_keys else 0 for k in range(1, K + 1)]
    cap2 = rng.randint(1, K)
    warm = rng.sample(pre_keys, min(len(pre_keys), rng.randint(0, cap2)))
    l2 = [100 + k if k in warm else 0 for k in range(1, K + 1)]
    overlap = (i // 9) % 3 != 0
    nprocs = rng.choice((2, 3)) if overlap else 1
    prog = []
    for _ in range(nprocs):
        sc = []
        for _ in range(rng.randint(3, 8) if overlap else rng.randint(6, 12)):
            kind = rng.choice(KINDS_W)
            sc.append([kind, 0 if kind == "invall" else rng.randint(1, K), rng.choice((0, 0, 1, 2, 3))])
        prog.append(sc)
    return world_cfg(K=K, cap1=rng.randint(1, K), cap2=cap2, pol=pol, promo=rng.choice(("always", "second", "never")),
                     lat=rng.choice(LATS), pre=pre, l2=l2, tick_ns=(1_000_000, 1000, 1)[(i // 30) % 3],
                     seed=rng.randrange(1 << 30)), prog


def race_cases(quick):
    """Directed overlap grids: two overlapping put()s to one key, the key invalidated (or evicted from the
    capacity-1 L1 by a fill of another key) after the first put landed, and a get whose fetch returns inside
    the window in which the first put's late second write has rolled the backing store back."""
    out = []
    n = 0
    lats = [LAT0] if quick else LATS + [{"CL1": 1, "CL2": 1, "RL": 1, "WL": 3, "DL": 3}]
    for lat in lats:
        for pol in pol9.POLICIES:
            for rem in (["inv", 1], ["get", 2]):
                for b in ((1,) if quick else (1, 2)):
                    for r in ((2, 3) if quick else (1, 2, 3, 4)):
                        for g in ((0, 1) if quick else (0, 1, 2)):
                            n += 1
                            cfg = world_cfg(K=2, cap1=1, cap2=2, pol=pol, promo=("always", "second", "never")[n % 3],
                                            lat=lat, pre=[101, 102], l2=[0, 0], seed=n)
                            out.append((cfg, [[["put", 1, 0]], [["inv", 2, 0], rem + [r], ["get", 1, g]],
                                              [["put", 1, b]]]))
    return out


class Runs:
    def __init__(self, chk):
        self.chk = chk
        self.traces, self.meta = [], {}
        self.hung = 0

    def execute(self, cfg, prog, origin):
        if self.hung >= 3:
            return None
        w = TierWorld(cfg, prog).run()
        self.hung += 1 if w.hung else 0
        tid = len(self.traces) + 1
        self.traces.append(w.trace(tid))
        self.meta[tid] = {"origin": origin, "cfg": cfg, "prog": prog}
        self.chk.impl_steps += len(w.steps)
        self.chk.require(w.quiescent_at_finale is not False, "multi-tier finale started before the clients finished")
        for err in w.errors:
            self.chk.note_drift(f"multi_tier trace {tid} ({origin}): real code raised {err}; cfg={cfg} prog={prog}")
        return w


def validate(traces, label, dev=()):
    wd = tlc.workdir(label)
    cfg = tlc.write_cfg(wd / "trace.cfg", spec="Spec", constants={"Dev": tla_set(dev)})
    f = wd / "traces.json"
    f.write_text(json.dumps(traces, separators=(",", ":")))
    res = tlc.run(SPEC / "TieredTrace.tla", cfg, label=label, workers=1, timeout=3000,
                  env={"TRACE_FILE": str(f), "_JAVA_OPTIONS": "-XX:ParallelGCThreads=2 -XX:CICompilerCount=2"})
    f.unlink()
    verdicts, drifts = {}, {}
    for v in res.printed:
        if isinstance(v, tuple) and v and v[0] == "V" and len(v) == 5:
            verdicts[v[1]] = (v[2], v[3], sorted(v[4]))
        elif isinstance(v, tuple) and v and v[0] == "D" and len(v) == 4:
            drifts[v[1]] = (v[2], v[3])
    miss = [t["id"] for t in traces if t["id"] not in verdicts]
    if miss:
        raise tlc.TLCFailure(f"{label}: no verdict for traces {miss[:3]}")
    return verdicts, drifts, res


def judge(chk, runs, verdicts, drifts):
    for tid, (v, pos, taint) in sorted(verdicts.items()):
        if v.startswith("PROP:"):
            m = runs.meta[tid]
            key = "multi_tier_" + (KNOWN_CODES[taint[0]] if taint and taint[0] in KNOWN_CODES else v[5:])
            chk.violation(key, f"MultiTierCache {v} at step {pos} of trace {tid} ({m['origin']}): cfg={m['cfg']} "
                               f"prog={m['prog']}",
                          {"family": "multi_tier", "cfg": m["cfg"], "prog": m["prog"], "origin": m["origin"]})
    for tid, (d, pos) in sorted(drifts.items()):
        m = runs.meta[tid]
        chk.note_drift(f"multi_tier trace {tid} ({m['origin']}): {d} at step {pos}; cfg={m['cfg']} prog={m['prog']}")


def submit(pool, quick):
    jobs = {}
    if quick:
        jobs["clean"] = pool.submit(job, "C16_mt_clean", mc_consts(), invariants=INVS, workers=4)
    else:
        jobs["clean"] = pool.submit(job, "C16_mt_clean", mc_consts(nops=(2, 2, 0)), invariants=INVS, workers=6,
                                    timeout=6000)
        jobs["clean_second"] = pool.submit(job, "C16_mt_clean2", mc_consts(promo="second", gaps=(0, 2)),
                                           invariants=INVS, workers=6, timeout=6000)
        jobs["clean_3p"] = pool.submit(job, "C16_mt_clean3", mc_consts(nops=(1, 1, 1), kinds=("get", "put", "inv")),
                                       invariants=INVS, workers=6, timeout=6000)
    for dev in DEVIATIONS:
        kw = SCRIPTED.get(dev, {})
        jobs[f"dev_{dev}"] = pool.submit(job, f"C16_mt_dev_{dev[:8]}", mc_consts(dev=[dev], **kw), invariants=INVS,
                                         workers=2, light=True)
        if kw:      # the same directed program must satisfy the contract in the repaired design
            jobs[f"clean_script_{dev}"] = pool.submit(job, f"C16_mt_scr_{dev[:8]}", mc_consts(**kw), invariants=INVS,
                                                      workers=1, light=True)
    return jobs


def collect(chk, jobs, runs):
    for name, fut in jobs.items():
        res = fut.result()
        if name.startswith("clean"):
            chk.add_tlc(f"TieredMC Dev={{}} {name}", res)
            chk.require(res.ok, f"TieredMC {name} with Dev={{}} violates {res.violated}")
        else:
            dev = name[4:]
            chk.add_tlc(f"TieredMC Dev={{{dev}}}", res, count=False, note="sensitivity run, must violate")
            chk.require(res.violated == DEVIATIONS[dev], f"multi-tier deviation {dev} not caught (got {res.violated})")
            chk.sensitivity[f"multi_tier:{dev}"] = res.violated
            plog = res.trace[-1][1].get("plog") if res.trace else None
            if plog:
                prog = [[[c["kind"], c["k"], c["gap"]] for c in sc] for sc in plog]
                l2 = [0, 0] if dev in SCRIPTED else [101, 0]
                for pol in ("LRU", "FIFO"):
                    runs.execute(world_cfg(K=2, cap1=1, cap2=2, pol=pol, promo="always", lat=LAT0, pre=[101, 102],
                                           l2=l2), prog, f"tlc_counterexample:{dev}")
                    chk.replays += 1
