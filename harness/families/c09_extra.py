"""C09 real-code side, further primitives: Barrier, ThreadPool (worker slots), PreemptibleResource with
priorities and preemption.  Same observation rules as c09_world.py (public API, harness entities, control hooks)."""
from __future__ import annotations

from happysimulator.core.entity import Entity
from happysimulator.core.event import Event
from happysimulator.core.simulation import Simulation
from happysimulator.core.temporal import Instant

from . import c09_world as cw


# ---------------------------------------------------------------------------
# Barrier: workers call wait(); scenario {"prim": "Barrier", "parties": n, "tick_ns", "order",
#                                         "workers": [{"arr", "rounds": [{"pre", "a": 1, "m": "x", "holds": []}]}]}

class BarrierAd(cw._Ad):
    kind = "barrier"
    polling = True

    def __init__(self, world, scen):
        from happysimulator.components.sync.barrier import Barrier
        self.w = world
        self.cap = scen["parties"]
        self.prim = Barrier("prim", parties=self.cap)

    def counters(self):
        return self.cap - self.prim.waiting, self.prim.waiting

    def acquire(self, wk, a, m):
        n0 = self.prim.waiting

        def after():
            self.w.req(wk, 1, "x", 1 if self.prim.waiting > n0 else 0)
        yield from cw._delegate(self.prim.wait(), after)
        return True

    def release(self, wk, h, a, m):
        pass


cw.ADAPTERS["Barrier"] = BarrierAd


class BarrierWorld(cw.World):
    def trace(self, tid):
        return {"id": tid, "n": self.scen["parties"], "nr": max(self.nreq, 1), "log": self.log}


def barrier_scenario(parties, arrs, tick_ns, order=None, rounds=1):
    return {"prim": "Barrier", "parties": parties, "cap": parties, "tick_ns": tick_ns, "order": order,
            "workers": [{"arr": a, "rounds": [{"pre": 0, "a": 1, "m": "x", "holds": []} for _ in range(rounds)]}
                        for a in arrs]}


def random_barrier_scenario(rng, spin_prone):
    n = rng.choice((1, 2, 2, 3, 4))
    gens = rng.randint(1, 3)
    nw = n * gens + (rng.randint(0, n - 1) if rng.random() < 0.3 else 0)
    same = spin_prone and rng.random() < 0.8
    t0 = rng.randint(0, 2)
    arrs = [t0 if same else rng.randint(0, 4) for _ in range(nw)]
    order = list(range(nw))
    rng.shuffle(order)
    return barrier_scenario(n, arrs, rng.choice((10**6, 10**3, 10**9)), order)


# ---------------------------------------------------------------------------
# ThreadPool: tasks are events; a worker slot (FixedConcurrency) is taken for the processing time

class ThreadPoolWorld:
    """scenario {"prim": "ThreadPool", "cap": workers, "tick_ns", "order", "workers": [{"arr", "rounds":[{"holds":[d]}]}]}"""
    full = False

    def __init__(self, scen):
        from happysimulator.components.server.thread_pool import ThreadPool
        self.scen = scen
        self.tick_ns = scen["tick_ns"]
        self.log = []
        self.nreq = 0
        self.dirty = False
        self.delivery_no = 0
        self.gt = {}
        self.abort = None
        self.err = None
        self.rid_of = {}
        self.pool = ThreadPool("tp", num_workers=scen["cap"], processing_time_extractor=self._extract)
        self._snap = (0, 0)
        self.sim = None

    def counters(self):
        return self.pool.idle_workers, 0

    def rec(self, op, rid=0, a=0, flag=0, mark=True):
        if op == "q" and self.log and self.log[-1][0] == "q":
            return
        av, nw = self.counters()
        self.log.append([op, rid, a, "x", flag, av, nw])
        if mark:
            self.dirty = True

    def _extract(self, task):
        # called by handle_queued_event right after the worker slot was acquired
        md = task.context["metadata"]
        self.nreq += 1
        rid = self.nreq
        self.rid_of[md["widx"]] = rid
        self.rec("req", rid, 1, 0)
        self.rec("grant", rid)
        self.gt[rid] = self.sim._clock.now.nanoseconds // self.tick_ns
        return cw.delay_s(md["hold"], self.tick_ns)

    def _on_event(self, ev):
        st = self.pool.stats
        snap = (st.tasks_completed, st.tasks_rejected)
        if snap[0] > self._snap[0]:
            rid = self.rid_of.get(ev.context.get("metadata", {}).get("widx"))
            if rid is not None:
                self.rec("rel", rid)
        if snap[1] > self._snap[1]:
            self.nreq += 1
            self.rec("req", self.nreq, 1, 2)
        self._snap = snap
        if self.dirty:
            self.rec("d")
        self.dirty = False
        self.delivery_no += 1
        if self.delivery_no > cw.MAX_DELIVERIES:
            raise cw.Overrun()

    def _on_time(self, t):
        self.rec("q", mark=False)

    def run(self):
        self.sim = Simulation(entities=[self.pool])
        ws = self.scen["workers"]
        for i in self.scen.get("order") or range(len(ws)):
            self.sim.schedule(Event(time=Instant(ws[i]["arr"] * self.tick_ns), event_type="task", target=self.pool,
                                    context={"metadata": {"widx": i, "hold": ws[i]["rounds"][0]["holds"][0]}}))
        self.sim.control.on_event(self._on_event)
        self.sim.control.on_time_advance(self._on_time)
        try:
            self.sim.run()
            self.rec("q", mark=False)
            self.rec("end", mark=False)
        except cw.Overrun:
            self.abort = "overrun"
        except Exception as ex:
            self.err = f"{type(ex).__name__}: {ex}"
        return self

    def trace(self, tid):
        return {"id": tid, "kind": "try", "cap": self.scen["cap"], "qmax": 0, "nr": max(self.nreq, 1),
                "pl": True, "full": False, "log": self.log}


def random_threadpool_scenario(rng):
    nw = rng.randint(2, 8)
    burst = rng.random() < 0.5
    order = list(range(nw))
    rng.shuffle(order)
    return {"prim": "ThreadPool", "cap": rng.choice((1, 2, 3)), "tick_ns": rng.choice((10**6, 10**3, 10**9)),
            "order": order,
            "workers": [{"arr": 0 if burst else rng.randint(0, 5), "rounds": [{"holds": [rng.choice((0, 1, 1, 2, 4))]}]}
                        for _ in range(nw)]}


# ---------------------------------------------------------------------------
# PreemptibleResource with priorities and preemption (counting clauses only)

class _PWorker(Entity):
    """acquire(amount, priority, preempt); hold; release -- the holder releases its grant *unconditionally*
    (also after it was preempted, as in a try/finally clean-up), optionally twice, optionally already inside
    the on_preempt callback: all of these must be no-ops for a grant whose capacity was taken away."""

    def __init__(self, idx, world, spec):
        super().__init__(f"p{idx}")
        self.idx, self.world, self.spec = idx, world, spec

    def handle_event(self, event):
        return self.body()

    def body(self):
        W = self.world
        res = W.res
        for rnd in self.spec["rounds"]:
            if rnd.get("pre"):
                yield W.delay(rnd["pre"])
            cell = {}

            def on_preempt(cell=cell, rnd=rnd):
                cell["pre"] = True
                if "rid" in cell:
                    W.rec("rel", cell["rid"])      # evicted: the capacity is taken away here
                    if rnd.get("rel_in_cb") and "grant" in cell:
                        cell["grant"].release()   # clean-up inside the callback: nothing left to return
                        W.rec("xrel", cell["rid"])
            fut = res.acquire(amount=rnd["a"], priority=float(rnd["prio"]), preempt=rnd["preempt"],
                              on_preempt=on_preempt)
            W.nreq += 1
            rid = cell["rid"] = W.nreq
            blk = 0 if fut.is_resolved else 1
            W.rec("req", rid, rnd["a"], blk)
            if blk:
                W.pending.append([rid, fut])
            else:
                W.rec("grant", rid)
            grant = yield fut
            cell["grant"] = grant
            W.rec("got", rid)
            W.gt[rid] = W.sim._clock.now.nanoseconds // W.tick_ns
            for d in rnd["holds"]:
                yield W.delay(d)
            if rnd.get("guarded") and grant.preempted:
                continue                          # the careful holder: `if not grant.preempted: release()`
            was_preempted = bool(cell.get("pre"))
            grant.release()
            W.rec("xrel" if was_preempted else "rel", rid)
            W.scan()
            for d in rnd.get("again", ()):        # late / repeated release of the same grant
                if d:
                    yield W.delay(d)
                grant.release()
                W.rec("xrel", rid)
                W.scan()
        return None


class PreemptWorld:
    full = False

    def __init__(self, scen):
        from happysimulator.components.industrial.preemptible_resource import PreemptibleResource
        self.scen = scen
        self.tick_ns = scen["tick_ns"]
        self.log = []
        self.nreq = 0
        self.dirty = False
        self.delivery_no = 0
        self.pending = []
        self.gt = {}
        self.abort = None
        self.err = None
        self.res = PreemptibleResource("prim", capacity=scen["cap"])
        self.workers = [_PWorker(i, self, w) for i, w in enumerate(scen["workers"])]
        self.sim = None

    def delay(self, k):
        return cw.delay_s(k, self.tick_ns)

    def rec(self, op, rid=0, a=0, flag=0, mark=True):
        if op == "q" and self.log and self.log[-1][0] == "q":
            return
        self.log.append([op, rid, a, "x", flag, self.res.available, -1])
        if mark:
            self.dirty = True

    def scan(self):
        keep = []
        for rid, fut in self.pending:
            if fut.is_resolved:
                self.rec("grant", rid)
            else:
                keep.append([rid, fut])
        self.pending = keep

    def _on_event(self, ev):
        self.scan()
        if self.dirty:
            self.rec("d")
        self.dirty = False
        self.delivery_no += 1
        if self.delivery_no > cw.MAX_DELIVERIES:
            raise cw.Overrun()

    def _on_time(self, t):
        self.scan()
        self.rec("q", mark=False)

    def run(self):
        self.sim = Simulation(entities=[self.res, *self.workers])
        for i in self.scen.get("order") or range(len(self.workers)):
            self.sim.schedule(Event(time=Instant(self.scen["workers"][i]["arr"] * self.tick_ns), event_type="go",
                                    target=self.workers[i]))
        self.sim.control.on_event(self._on_event)
        self.sim.control.on_time_advance(self._on_time)
        try:
            self.sim.run()
            self.scan()
            self.rec("q", mark=False)
            self.rec("end", mark=False)
        except cw.Overrun:
            self.abort = "overrun"
        except Exception as ex:
            self.err = f"{type(ex).__name__}: {ex}"
        return self

    def trace(self, tid):
        return {"id": tid, "kind": "fifo", "cap": self.scen["cap"], "qmax": 0, "nr": max(self.nreq, 1),
                "pl": True, "full": False, "log": self.log}


def random_preempt_scenario(rng):
    nw = rng.randint(2, 7)
    cap = rng.choice((1, 1, 2, 3, 4))
    burst = rng.random() < 0.4
    ws = []
    for _ in range(nw):
        rounds = []
        for _ in range(rng.choice((1, 1, 2))):
            rnd = {"pre": rng.choice((0, 0, 1)), "a": rng.randint(1, cap), "prio": rng.choice((0, 1, 2, 3)),
                   "preempt": rng.random() < 0.7, "holds": [rng.choice((0, 1, 2, 3, 5))]}
            r = rng.random()
            if r < 0.15:
                rnd["guarded"] = True
            if rng.random() < 0.3:
                rnd["again"] = [rng.choice((0, 0, 1, 3)) for _ in range(rng.randint(1, 2))]
            if rng.random() < 0.2:
                rnd["rel_in_cb"] = True
            rounds.append(rnd)
        ws.append({"arr": 0 if burst else rng.randint(0, 4), "rounds": rounds})
    order = list(range(nw))
    rng.shuffle(order)
    return {"prim": "PreemptibleResource+prio", "cap": cap, "tick_ns": rng.choice((10**6, 10**3, 10**9)),
            "order": order, "workers": ws}


def preempt_scenario_from_model(cap, amt, prio, pre, arr, hold, tick_ns, order=None, again=False):
    """scenario of the Preempt.tla envelope: every holder releases unconditionally after its hold"""
    ws = []
    for i in range(len(amt)):
        rnd = {"pre": 0, "a": amt[i], "prio": prio[i], "preempt": bool(pre[i]), "holds": [hold[i]]}
        if again:
            rnd["again"] = [0, 1]
        ws.append({"arr": arr[i], "rounds": [rnd]})
    return {"prim": "PreemptibleResource+prio", "cap": cap, "tick_ns": tick_ns, "order": order, "workers": ws}
