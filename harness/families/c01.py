"""C01 — every live event delivered exactly once, in time order, FIFO ties (DESIGN.md section 5)."""
from __future__ import annotations

import random

from .. import tlc
from ..common import Check, load_known
from ..engine_lib import INF, Program, add_crashes, random_program, run_program, to_trace
from ..probe import quiet_logging

SPEC = tlc.SPECS / "engine"
INVS = ["InvOrder", "InvOnce", "InvNoCancelled", "InvClock", "InvDone", "InvDaemon",
        "InvPrimCounter", "InvNoLoss"]
DEVIATIONS = {"per_heap_counter_restart": "InvOrder"}


def as_code_dev(prop="C01"):
    """Deviations the pinned code is known to have (open known findings)."""
    return sorted({e["deviation"] for e in load_known().get("open", [])
                   if e["property"] == prop and e.get("deviation")})


def consts(max_ev, max_t, end_t, dev, targets=("A",), max_out=2, allow_past=True):
    return {"Targets": "{" + ",".join(f'"{t}"' for t in targets) + "}", "MaxEv": max_ev, "MaxT": max_t,
            "EndT": end_t, "MaxOut": max_out, "AllowPast": "TRUE" if allow_past else "FALSE",
            "Dev": "{" + ",".join(f'"{d}"' for d in dev) + "}"}


def model_check(chk: Check, tier):
    wd = tlc.workdir("C01_mc")
    big = 4 if tier == "quick" else 5
    # design holds without deviations: no end_time, and end_time inside the horizon
    for end_t, max_ev in ((INF, big), (1, big)):
        cfg = tlc.write_cfg(wd / f"clean_{end_t}.cfg", constants=consts(max_ev, 2, end_t, []),
                            invariants=INVS, properties=["ClockMonotone"])
        res = tlc.run(SPEC / "Engine.tla", cfg, label="C01_mc", timeout=3000)
        chk.add_tlc(f"Engine Dev={{}} EndT={end_t} MaxEv={max_ev}", res)
        chk.require(res.ok, f"Engine.tla with Dev={{}} violates {res.violated}: the model itself is wrong")
    # sensitivity: each deviation must be caught by TLC (non-vacuity of the invariants)
    for dev, inv in DEVIATIONS.items():
        cfg = tlc.write_cfg(wd / f"dev_{dev}.cfg", constants=consts(4, 2, INF, [dev]), invariants=INVS)
        res = tlc.run(SPEC / "Engine.tla", cfg, label="C01_mc", timeout=900)
        chk.add_tlc(f"Engine Dev={{{dev}}}", res, count=False, note="sensitivity run, must violate")
        chk.require(res.violated == inv, f"deviation {dev} not caught (got {res.violated})")
        chk.sensitivity[dev] = res.violated


def model_programs(chk: Check, tier, rng):
    """Terminal states of the as-code model = all programs within the bounds."""
    dev = as_code_dev()
    wd = tlc.workdir("C01_gen")
    progs = []
    for end_t, targets, max_ev in ((INF, ("A", "B"), 3), (1, ("A",), 3), (INF, ("A",), 4)):
        if tier == "quick" and max_ev == 4:
            continue
        cfg = tlc.write_cfg(wd / "gen.cfg", constants=consts(max_ev, 2, end_t, dev, targets=targets))
        dump = wd / "states"
        res = tlc.run(SPEC / "Engine.tla", cfg, label="C01_gen", extra=["-dump", str(dump)], timeout=1800)
        chk.add_tlc(f"program enumeration EndT={end_t} targets={len(targets)} MaxEv={max_ev}", res,
                    count=False, note="terminal states enumerate programs")
        seen = set()
        for st in tlc.parse_dump(wd / "states.dump", must_contain='phase = "done"'):
            p = Program.from_state(st, end_t)
            if p.key() in seen or not p.events:
                continue
            seen.add(p.key())
            progs.append(p)
        (wd / "states.dump").unlink(missing_ok=True)
    return progs


VARIANTS = [("list", False), ("list", True), ("single", False), ("gen_return", False), ("gen_yield", True),
            ("gen_sleep", False), ("gen_sleep", True)]


def run(tier, seed, replay=None):
    quiet_logging()
    chk = Check("C01", tier, seed)
    rng = random.Random(seed)
    if replay:
        return do_replay(chk, replay)
    model_check(chk, tier)

    traces, meta = [], {}

    def execute(prog, form, control, origin, step_ns=1, shuffle=None, early=0, prior=0, inject=None):
        labels, probe, w, err = run_program(prog, form=form, control=control, step_ns=step_ns,
                                            shuffle_push=shuffle, early=early, prior=prior,
                                            inject=random.Random(inject) if inject is not None else None)
        tid = len(traces) + 1
        end_ns = None if prog.end_t == INF else prog.end_t * step_ns
        traces.append(to_trace(tid, probe.log, end_ns, probe.targets, prog.crashes, step_ns))
        meta[tid] = dict(crashes=prog.crashes, origin=origin, form=form, control=control, step_ns=step_ns, end_t=prog.end_t,
                         events=prog.events, delivered=labels, early=early, prior=prior, inject=inject)
        chk.impl_steps += len(labels)
        if err:
            chk.violation(f"exception:{err.split(':')[0]}", f"real engine raised {err}", meta[tid])
        return labels

    # spec -> code: every program of the bounded model, state-checked delivery order
    progs = model_programs(chk, tier, rng)
    cap = 1500 if tier == "quick" else len(progs)
    chosen = progs if len(progs) <= cap else rng.sample(progs, cap)
    chk.exhaustive = len(chosen) == len(progs)
    matched = ambiguous = 0
    for p in chosen:
        for form, control in (VARIANTS if tier == "thorough" else VARIANTS[:2]):
            labels = execute(p, form, control, "model")
            if form in ("list", "single"):
                if p.ambiguous:
                    ambiguous += 1
                elif labels == p.expected:
                    matched += 1
                else:
                    chk.note_drift(f"delivery order differs from Engine.tla: model={p.expected} code={labels} "
                                   f"events={p.events} end={p.end_t}")
        chk.replays += 1
    chk.extra["replay_state_matched"] = matched
    chk.extra["replay_ambiguous_ties"] = ambiguous
    chk.extra["model_programs_total"] = len(progs)

    # code -> spec: random programs beyond the bounds, all return forms, both loops, ns/us/s ticks
    n_rand = 600 if tier == "quick" else 12000
    for k in range(n_rand):
        p = random_program(rng, burst=(k % 3 == 0), max_total=12 + (k % 5) * 10)
        form, control = VARIANTS[k % len(VARIANTS)]
        if k % 6 == 4:        # injected crash/restart windows on some targets (ticks of 1 us or 1 s only)
            add_crashes(p, rng)
        # every 4th program: some pre-run events are created before Simulation() exists, after
        # unrelated earlier activity in the interpreter (sort indices must still follow creation)
        early = rng.randint(1, 4) if k % 4 == 1 else 0
        # every 5th program is driven through pause/step and gets events scheduled while paused
        inject = rng.randint(1, 10**9) if k % 5 == 2 else None
        execute(p, form, control, "random", step_ns=(1, 1000, 10**9)[k % 3] if not p.crashes else (1000, 10**9)[k % 2],
                shuffle=rng if k % 2 else None, early=early, prior=rng.randint(0, 7) if early else 0,
                inject=inject)

    verdicts, results = tlc.validate_traces(SPEC / "EngineTrace.tla", traces, label="C01_trace")
    for r in results:
        chk.add_tlc("EngineTrace batch", r, note="trace validation (one state per record)")
    chk.impl_traces = len(traces)
    for tid, (v, pos) in sorted(verdicts.items()):
        if v == "ACCEPT":
            continue
        m = meta[tid]
        if v.startswith("PROP:"):
            chk.violation(classify(v, traces[tid - 1], pos), f"{v} at record {pos}",
                          {"meta": m, "trace": traces[tid - 1]})
        else:
            chk.note_drift(f"trace {tid}: {v} at {pos}")
    for t in traces[:2]:
        chk.sample({"trace": t, "meta": {k: meta[t["id"]][k] for k in ("origin", "form", "control")}})
    chk.assumptions = [
        "events are identified by Python object identity; creation order is the order of construction "
        "observed by the harness-side probe (independent of the code's own sort index)",
        "a non-daemon cancelled event that is still in the heap counts as pending (permissive reading)",
        "events later than end_time are outside the statement: the one the loop still delivers is not judged",
    ]
    return chk.finish()


def classify(verdict, trace, pos):
    """Name a contract failure so that known findings are matched by what fails, not by property."""
    if verdict == "PROP:order":
        # the known defect: an event created inside run() overtakes an earlier-created pre-run event
        # that carries the same timestamp.  Identify by: the delivered event was created during the
        # run (after the first pop) and every overtaken event was created before the run.
        log = trace["log"]
        first_pop = next((i for i, r in enumerate(log) if r[0] == "o"), len(log))
        pre_pushed = {r[1] for r in log[:first_pop] if r[0] == "p"}
        e = log[pos - 1][1]
        # reconstruct pending set at that record
        P, X = set(), set()
        clock = 0
        for r in log[:pos - 1]:
            if r[0] == "p":
                P.add(r[1])
            elif r[0] == "o":
                P.discard(r[1])
            elif r[0] == "x":
                X.add(r[1])
            elif r[0] == "i":
                clock = trace["evs"][r[1] - 1][0]
        te = trace["evs"][e - 1][0]
        over = [o for o in P if o not in X and trace["evs"][o - 1][0] >= clock
                and (trace["evs"][o - 1][0] < te or (trace["evs"][o - 1][0] == te and o < e))]
        if over and e not in pre_pushed and all(o in pre_pushed and trace["evs"][o - 1][0] == te for o in over):
            return "run_created_event_overtakes_prerun_tie"
        return "order"
    return verdict[5:]


def do_replay(chk, path):
    """Re-execute a saved case on the real engine and judge it again with EngineTrace.tla."""
    import json
    m = json.loads(open(path).read())["replay"]["meta"]
    prog = Program(m["events"], m["end_t"], crashes=[tuple(c) for c in m.get("crashes", [])])
    inj = m.get("inject")
    labels, probe, w, err = run_program(prog, form=m["form"], control=m["control"], step_ns=m["step_ns"],
                                        early=m.get("early", 0), prior=m.get("prior", 0),
                                        inject=random.Random(inj) if inj is not None else None)
    end_ns = None if prog.end_t == INF else prog.end_t * m["step_ns"]
    tr = to_trace(1, probe.log, end_ns, probe.targets, prog.crashes, m["step_ns"])
    verdicts, results = tlc.validate_traces(SPEC / "EngineTrace.tla", [tr], label="C01_replay")
    for r in results:
        chk.add_tlc("EngineTrace replay", r)
    chk.impl_traces = 1
    v, pos = verdicts[1]
    if err:
        chk.violation(f"exception:{err.split(':')[0]}", f"real engine raised {err}", {"meta": m})
    if v.startswith("PROP:"):
        chk.violation(classify(v, tr, pos), f"{v} at record {pos}", {"meta": dict(m, delivered=labels), "trace": tr})
    elif v != "ACCEPT":
        chk.note_drift(f"replay: {v} at {pos}")
    chk.sample({"trace": tr})
    return chk.finish()
