"""C16 helper: watchdog and exact tick-to-seconds conversion."""
from __future__ import annotations

NS = 1_000_000_000


class Hung(Exception):
    """The real code did not return within the watchdog limit (e.g. an evict-until-fits loop that never
    shrinks the cache at a frozen clock)."""


class time_limit:
    """Watchdog for code that may spin forever inside a single call (main thread only).
    Counts CPU time of the process (ITIMER_VIRTUAL), so a descheduled process on a busy machine is not
    mistaken for a spinning one."""

    def __init__(self, seconds):
        self.seconds = seconds
        self.armed = False

    def __enter__(self):
        import signal
        import threading
        if threading.current_thread() is threading.main_thread():
            def onalarm(signum, frame):
                raise Hung(f"no return within {self.seconds}s of CPU time")
            self.old = signal.signal(signal.SIGVTALRM, onalarm)
            signal.setitimer(signal.ITIMER_VIRTUAL, self.seconds)
            self.armed = True
        return self

    def __exit__(self, *a):
        import signal
        if self.armed:
            signal.setitimer(signal.ITIMER_VIRTUAL, 0)
            signal.signal(signal.SIGVTALRM, self.old)
        return False


def exact_delay(ticks: int, tick_ns: int) -> float:
    """A float number of seconds that the engine's int(d * 1e9) turns into exactly ticks*tick_ns."""
    want = ticks * tick_ns
    d = want / NS
    if int(d * NS) != want:
        d = (want + 0.5) / NS
        assert int(d * NS) == want
    return d
