"""C16 — caches stay within capacity, never lose writes, respect staleness bounds.

Pipeline (DESIGN.md section 5/C16):
  1. TLC: Cache.tla/CacheMC.tla (CachedStore, timed, abstract "ANY" policy) with Dev={} must satisfy the
     contract; every deviation alone must be caught.  PoliciesMC.tla: the nine policies refine "ANY".
     SoftTtl / Tiered models likewise (c16_ext.py).
  2. spec -> code: the PoliciesMC state graph is toured edge by edge on the real policy objects; the
     programs enumerated by CacheMC (and the counterexamples of the sensitivity runs) are executed on a
     real CachedStore inside a real Simulation and compared with the model's terminal state.
  3. code -> spec: seeded random client programs (all nine policies, both write modes, overlapping
     generator operations, capacity pressure, several latency settings) run on the real code; the
     recorded per-segment traces are validated by CacheTrace.tla (contract on the observation, model
     conformance as drift).
"""
from __future__ import annotations

import json
import random
from concurrent.futures import ThreadPoolExecutor

from .. import tlc
from ..common import Check, load_known
from ..probe import quiet_logging
from . import c16_pagecache as pagec
from . import c16_policies as pol9
from . import c16_softttl as soft
from . import c16_tiered as tiered
from . import c16_world as world

SPEC = tlc.SPECS / "cache"
INVS = ["InvCapacity", "InvPolicyKeys", "InvReadFresh", "InvBackingFinal"]
DEV_NAMES = {1: "dirty_evicted_without_writeback", 2: "miss_fill_overwrites_newer_write",
             3: "flush_clears_dirty_of_concurrent_write", 4: "evict_none_breaks_capacity",
             5: "remove_skips_policy", 6: "wb_delete_exposes_stale_backing"}
ALL_KINDS = ("get", "put", "del", "inv", "flush")
LATS = [{"CL": 1, "RL": 2, "WL": 2, "DL": 2}, {"CL": 1, "RL": 1, "WL": 3, "DL": 3},
        {"CL": 1, "RL": 3, "WL": 1, "DL": 2}, {"CL": 0, "RL": 2, "WL": 2, "DL": 1},
        {"CL": 2, "RL": 1, "WL": 1, "DL": 1}]
TICKS = (1_000_000, 1000, 1, 1_000_000_000)
# deviation -> (invariants one of which TLC must report, scenario of the sensitivity run)
DEVIATIONS = {
    "dirty_evicted_without_writeback": (("InvBackingFinal", "InvReadFresh"), 1),
    "miss_fill_overwrites_newer_write": (("InvReadFresh", "InvBackingFinal"), 2),
    "flush_clears_dirty_of_concurrent_write": (("InvBackingFinal", "InvReadFresh"), 1),
    "wb_delete_exposes_stale_backing": (("InvReadFresh",), 3),
    "evict_none_breaks_capacity": (("InvCapacity",), 2),
    "remove_skips_policy": (("InvPolicyKeys",), 2),
}


def as_code_dev():
    """Deviations the pinned code is known to have (open known findings of C16)."""
    return sorted({e["deviation"] for e in load_known().get("open", [])
                   if e["property"] == "C16" and e.get("deviation") in DEV_NAMES.values()})


def tla_set(items):
    return "{" + ",".join(f'"{d}"' for d in items) + "}"


# mirrors Scen(i) of CacheMC.tla: (write_through, latency table index)
SCENARIOS = {1: (False, 0), 2: (True, 0), 3: (False, 1), 4: (True, 1), 5: (False, 2), 6: (True, 2),
             7: (False, 3), 8: (True, 3), 9: (True, 1)}
# short TLC runs: C1 compiler only, few GC threads (start-up dominates)
LIGHT_JVM = {"_JAVA_OPTIONS": "-XX:TieredStopAtLevel=1 -XX:ParallelGCThreads=2 -XX:CICompilerCount=1"}


def mc_consts(*, K=2, cap=1, scens=(1,), pol="ANY", dev=(), nops=(2, 1, 0), kinds=ALL_KINDS, pre=(1,)):
    np_ = len([n for n in nops if n > 0])
    return {"K": K, "Cap": cap, "Scens": "{" + ",".join(str(i) for i in scens) + "}", "Pol": f'"{pol}"',
            "Dev": tla_set(dev), "NP": np_, "N1": nops[0], "N2": nops[1], "N3": nops[2], "Kinds": tla_set(kinds),
            "Pre": "{" + ",".join(str(k) for k in pre) + "}", "TTLv": pol9.PAR["ttl"], "SS": pol9.PAR["ss"]}


def scen_cfg(sc, *, K, cap, pol, pre, seed=0):
    wt, li = SCENARIOS[sc]
    return world_cfg(K=K, cap=cap, wt=wt, pol=pol, lat=LATS[li], pre=pre, seed=seed)


def world_cfg(*, K, cap, wt, pol, lat, pre, tick_ns=1_000_000, seed=0):
    return {"K": K, "cap": cap, "wt": bool(wt), "pol": pol, "par": dict(pol9.PAR), "lat": dict(lat),
            "tick_ns": tick_ns, "pre": list(pre), "seed": seed}


def pre_values(K, pre_keys):
    return [100 + k if k in pre_keys else 0 for k in range(1, K + 1)]


# ---------------------------------------------------------------------------
# TLC jobs

def job(label, module, consts, *, invariants=(), view=None, timeout=600, extra=None, workers=4, spec="Spec",
        constraints=(), light=False):
    wd = tlc.workdir(label)
    cfg = tlc.write_cfg(wd / "mc.cfg", spec=spec, constants=consts, invariants=invariants, view=view,
                        constraints=constraints)
    return tlc.run(SPEC / module, cfg, label=label, timeout=timeout, extra=extra, workers=workers,
                   env=LIGHT_JVM if light else None)


def prog_from_plog(plog):
    return [[[c["kind"], c["k"], c["gap"]] for c in sc] for sc in plog]


# ---------------------------------------------------------------------------
# real executions + trace validation

class Runs:
    """Collects real executions (traces) and their metadata."""

    def __init__(self, chk):
        self.chk = chk
        self.traces = []
        self.meta = {}
        self.hung = {}

    def execute(self, cfg, prog, origin):
        if self.hung.get(cfg["pol"], 0) >= 3:       # this policy spins on the tree under test: stop feeding it
            return None
        w = world.CacheWorld(cfg, prog).run()
        if w.hung:
            self.hung[cfg["pol"]] = self.hung.get(cfg["pol"], 0) + 1
        tid = len(self.traces) + 1
        self.traces.append(w.trace(tid))
        self.meta[tid] = {"origin": origin, "cfg": cfg, "prog": prog}
        self.chk.impl_steps += len(w.steps)
        self.chk.require(w.quiescent_at_finale is not False, "finale started before the clients finished")
        for err in w.errors:
            self.chk.note_drift(f"trace {tid} ({origin}): real code raised {err}; cfg={cfg} prog={prog}")
        return w


def validate(traces, dev, label, chunk=1500, parallel=4):
    """CacheTrace.tla over batches (parallel TLC processes, one worker each)."""
    parts = [traces[k:k + chunk] for k in range(0, len(traces), chunk)]
    verdicts, drifts, results = {}, {}, []

    def one(i_part):
        i, part = i_part
        lab = f"{label}_{i}"
        wd = tlc.workdir(lab)
        cfg = tlc.write_cfg(wd / "trace.cfg", spec="Spec", constants={"Dev": tla_set(dev)})
        f = wd / "traces.json"
        f.write_text(json.dumps(part, separators=(",", ":")))
        res = tlc.run(SPEC / "CacheTrace.tla", cfg, label=lab, workers=1, timeout=3000,
                      env={"TRACE_FILE": str(f), "_JAVA_OPTIONS": "-XX:ParallelGCThreads=2 -XX:CICompilerCount=2"})
        f.unlink()
        return part, res

    with ThreadPoolExecutor(max_workers=parallel) as ex:
        for part, res in ex.map(one, enumerate(parts)):
            results.append(res)
            for v in res.printed:
                if isinstance(v, tuple) and v and v[0] == "V" and len(v) == 5:
                    verdicts[v[1]] = (v[2], v[3], sorted(v[4]))
                elif isinstance(v, tuple) and v and v[0] == "D" and len(v) == 4:
                    drifts[v[1]] = (v[2], v[3])
            miss = [t["id"] for t in part if t["id"] not in verdicts]
            if miss:
                raise tlc.TLCFailure(f"{label}: no verdict for traces {miss[:3]}")
    return verdicts, drifts, results


REAL_DEVS = ("dirty_evicted_without_writeback", "miss_fill_overwrites_newer_write",
             "flush_clears_dirty_of_concurrent_write", "wb_delete_exposes_stale_backing")


def name_unexplained(runs, verdicts, known_dev):
    """Contract failures the open deviations do not explain: judge those traces once more with every deviation the
    code ever had (fixed ones included), so that a defect that reappears is reported under its own key."""
    if set(REAL_DEVS) <= set(known_dev):
        return
    bad = [tid for tid, (v, pos, taint) in verdicts.items() if v.startswith("PROP:") and not taint]
    if not bad:
        return
    missing = [r for r in REAL_DEVS if r not in known_dev]
    trials = [[r] for r in missing] + ([missing] if len(missing) > 1 else [])
    for extra in trials:       # one formerly known deviation at a time, then all of them
        bad = [tid for tid in bad if not verdicts[tid][2]]
        if not bad:
            break
        v2, _, _ = validate([runs.traces[tid - 1] for tid in bad], sorted(set(extra) | set(known_dev)),
                            "C16_trace_name", parallel=1, chunk=len(bad))
        for tid in bad:
            if tid in v2 and v2[tid][0] == verdicts[tid][0] and v2[tid][2]:
                verdicts[tid] = (verdicts[tid][0], verdicts[tid][1], v2[tid][2])


FAMILY_REAL_DEVS = {"c16_softttl": ("coalesced_miss_returns_none",),
                    "c16_tiered": ("tier_promotion_overwrites_newer_write", "l1_put_rewrites_backing_late"),
                    "c16_pagecache": ("load_inserts_without_recheck", "load_overwrites_dirty_page")}


def name_unexplained_family(mod, runs, verdicts, dev, label):
    """Same as name_unexplained for the SoftTTL / multi-tier / page-cache trace specifications."""
    real = FAMILY_REAL_DEVS[mod.__name__.rsplit(".", 1)[-1]]
    if set(real) <= set(dev):
        return
    bad = [tid for tid, (v, pos, taint) in verdicts.items() if v.startswith("PROP:") and not taint]
    if not bad:
        return
    missing = [r for r in real if r not in dev]
    trials = [[r] for r in missing] + ([missing] if len(missing) > 1 else [])
    for extra in trials:       # one formerly known deviation at a time, then all of them
        bad = [tid for tid in bad if not verdicts[tid][2]]
        if not bad:
            break
        v2, _, _ = mod.validate([runs.traces[tid - 1] for tid in bad], label, sorted(set(extra) | set(dev)))
        for tid in bad:
            if tid in v2 and v2[tid][0] == verdicts[tid][0] and v2[tid][2]:
                verdicts[tid] = (verdicts[tid][0], verdicts[tid][1], v2[tid][2])


def judge(chk, runs, verdicts, drifts, known_dev=None):
    """Turn trace verdicts into violations / known findings / drift."""
    if known_dev is not None:
        name_unexplained(runs, verdicts, known_dev)
    for tid, (v, pos, taint) in sorted(verdicts.items()):
        m = runs.meta[tid]
        if v.startswith("PROP:"):
            clause = v[5:]
            replay = {"family": "cached_store", "cfg": m["cfg"], "prog": m["prog"], "origin": m["origin"]}
            keys = [DEV_NAMES[c] for c in taint if c in DEV_NAMES] or [clause]
            for key in keys:
                chk.violation(key, f"{v} at step {pos} of trace {tid} ({m['origin']}): policy={m['cfg']['pol']} "
                                   f"write_through={m['cfg']['wt']} cap={m['cfg']['cap']} prog={m['prog']}", replay)
    for tid, (d, pos) in sorted(drifts.items()):
        m = runs.meta[tid]
        chk.note_drift(f"trace {tid} ({m['origin']}): {d} at step {pos}; cfg={m['cfg']} prog={m['prog']}")


# ---------------------------------------------------------------------------
# random programs (code -> spec)

def random_prog(rng, K, nprocs, nops, kinds, gaps, keysets=None):
    prog = []
    for p in range(nprocs):
        ks = keysets[p] if keysets else list(range(1, K + 1))
        sc = []
        for _ in range(rng.randint(max(1, nops // 2), nops)):
            kind = rng.choice(kinds)
            k = 0 if kind in ("flush", "invall") else rng.choice(ks)
            sc.append([kind, k, rng.choice(gaps)])
        prog.append(sc)
    return prog


KINDS_W = ("get", "get", "get", "put", "put", "put", "del", "inv", "flush", "invall")


def race_cases(rng, quick):
    """Directed overlap grids (code -> spec): two or three overlapping put()s to ONE key racing a miss-fill of
    that key, with the key leaving the cache in between (invalidate, or eviction at capacity 1 by a put / a
    miss-fill of another key), for all nine policies; plus the write-back variant with a flush in flight.
    Small time grids around the window "fetch returns after the first write landed, before the last one"."""
    out = []
    lats = [LATS[1]] if quick else [LATS[1], LATS[0], LATS[2], LATS[3], {"CL": 1, "RL": 2, "WL": 5, "DL": 3}]
    ticks = (1_000_000,) if quick else TICKS
    n = 0
    for lat in lats:
        bs = (1, 2) if quick else (1, 2, 3)
        rs = (1, 2) if quick else (0, 1, 2, 3)
        gs = (0, 1) if quick else (0, 1, 2)
        for pol in pol9.POLICIES:
            for rem in (["inv", 1], ["put", 2], ["get", 2]):
                # T1: two overlapping write-through puts, removal, get
                for b in bs:
                    for r in rs:
                        for g in gs:
                            n += 1
                            cfg = world_cfg(K=2, cap=1, wt=True, pol=pol, lat=lat, pre=[101, 102],
                                            tick_ns=ticks[n % len(ticks)], seed=n)
                            if rem[0] == "put":      # a put takes the write latency: the evicting put and the
                                prog = [[["put", 1, 0]], [["put", 1, b]], [rem + [r]], [["get", 1, r + g]]]  # get are two clients
                            else:
                                prog = [[["put", 1, 0]], [["put", 1, b]], [rem + [r], ["get", 1, g]]]
                            out.append((cfg, prog, "two_puts_removal_fill"))
                # T3: three overlapping puts
                for r in ((2,) if quick else (1, 2, 3, 4)):
                    for g in gs:
                        if quick and rem[0] != "inv" and (n + r + g) % 3:
                            continue
                        n += 1
                        cfg = world_cfg(K=2, cap=1, wt=True, pol=pol, lat=lat, pre=[101, 102],
                                        tick_ns=ticks[n % len(ticks)], seed=n)
                        out.append((cfg, [[["put", 1, 0]], [["put", 1, 1]], [["put", 1, 2]],
                                          [rem + [r], ["get", 1, g]]], "three_puts_removal_fill"))
            # T2: write-back, a flush of the key in flight, a second put, eviction, get (capacity 1 and 2)
            for rem in (["put", 2], ["get", 2]):
                for f in (0, 1):
                    for b in (1, 2):
                        for r in (1, 3):
                            for g in (0, 1):
                                if quick and rng.random() < 0.8:
                                    continue
                                n += 1
                                cfg = world_cfg(K=2, cap=1 + (n % 2), wt=False, pol=pol, lat=lat, pre=[101, 102],
                                                tick_ns=ticks[n % len(ticks)], seed=n)
                                out.append((cfg, [[["put", 1, 0], ["flush", 0, f]], [["put", 1, b]],
                                                  [rem + [r], ["get", 1, g]]], "wb_flush_put_evict_fill"))
    return out


def random_case(rng, i):
    """One (cfg, prog, regime).  Regimes without the known defects' preconditions dominate so that any
    other contract failure is attributed to nothing known."""
    pol = pol9.POLICIES[i % 9]
    regime = ("seq_wt", "seq_wb_roomy", "disjoint_wt", "overlap_wt", "overlap_wb", "seq_wb_tight",
              "seq_big", "disjoint_wt", "overlap_wt", "overlap_wb")[(i // 9) % 10]
    lat = rng.choice(LATS)
    tick = TICKS[(i // 90) % len(TICKS)]
    seed = rng.randrange(1 << 30)
    if regime == "seq_wt":
        K = rng.choice((2, 3, 4))
        cap = rng.randint(1, K)
        prog = random_prog(rng, K, 1, 12, KINDS_W, (0, 0, 1, 3))
        cfg = world_cfg(K=K, cap=cap, wt=True, pol=pol, lat=lat, pre=pre_values(K, rng.sample(range(1, K + 1), rng.randint(0, K))), tick_ns=tick, seed=seed)
    elif regime == "seq_big":        # longer runs over more keys: deeper policy states (ghost lists, clock rotations)
        K = rng.choice((5, 6))
        wt = rng.random() < 0.6
        cap = rng.randint(2, 4) if wt else K
        prog = random_prog(rng, K, 1, 30, KINDS_W, (0, 0, 0, 1, 2))
        cfg = world_cfg(K=K, cap=cap, wt=wt, pol=pol, lat=lat, pre=pre_values(K, rng.sample(range(1, K + 1), rng.randint(0, K))), tick_ns=tick, seed=seed)
    elif regime == "seq_wb_roomy":
        K = rng.choice((2, 3))
        prog = random_prog(rng, K, 1, 12, KINDS_W, (0, 0, 1, 3))
        cfg = world_cfg(K=K, cap=K, wt=False, pol=pol, lat=lat, pre=pre_values(K, rng.sample(range(1, K + 1), rng.randint(0, K))), tick_ns=tick, seed=seed)
    elif regime == "seq_wb_tight":
        K = rng.choice((2, 3))
        prog = random_prog(rng, K, 1, 10, KINDS_W, (0, 1, 2))
        cfg = world_cfg(K=K, cap=rng.randint(1, K - 1), wt=False, pol=pol, lat=lat, pre=pre_values(K, [1]), tick_ns=tick, seed=seed)
    elif regime == "disjoint_wt":
        K = 4
        prog = random_prog(rng, K, 2, 8, KINDS_W[:-1], (0, 0, 1, 2), keysets=[[1, 2], [3, 4]])
        cfg = world_cfg(K=K, cap=rng.randint(1, 3), wt=True, pol=pol, lat=lat, pre=pre_values(K, rng.sample(range(1, 5), 2)), tick_ns=tick, seed=seed)
    elif regime == "overlap_wt":
        K = rng.choice((2, 3))
        prog = random_prog(rng, K, rng.choice((2, 3)), 6, KINDS_W, (0, 0, 1, 2, 3))
        cfg = world_cfg(K=K, cap=rng.randint(1, K), wt=True, pol=pol, lat=lat, pre=pre_values(K, [1]), tick_ns=tick, seed=seed)
    else:
        K = rng.choice((2, 3))
        prog = random_prog(rng, K, rng.choice((2, 3)), 6, KINDS_W, (0, 0, 1, 2, 3))
        cfg = world_cfg(K=K, cap=rng.randint(1, K), wt=False, pol=pol, lat=lat, pre=pre_values(K, [1]), tick_ns=tick, seed=seed)
    if i % 7 == 3:      # a CacheWarmer (cache_warming.py) pre-populates the cache while the clients run
        K = cfg["K"]
        cfg["warm"] = {"keys": [rng.randint(1, K) for _ in range(rng.randint(1, K + 1))], "every": rng.choice((1, 2, 3))}
        regime += "+warmer"
    return cfg, prog, regime


# ---------------------------------------------------------------------------

def open_dev(names):
    return sorted({e["deviation"] for e in load_known().get("open", [])
                   if e["property"] == "C16" and e.get("deviation") in names})


def replay_case(chk, data):
    """--replay: re-execute a saved case on the real code, judge it again with the TLA+ trace spec."""
    fam = data.get("family", "cached_store")
    chk.impl_traces = 1
    if fam == "cached_store":
        runs = Runs(chk)
        runs.execute(data["cfg"], data["prog"], "replay")
        verdicts, drifts, _ = validate(runs.traces, as_code_dev(), "C16_replay", parallel=1)
        judge(chk, runs, verdicts, drifts, as_code_dev())
    elif fam == "policy":
        name, held = data["policy"], set()
        p = pol9.make_policy(name, clock=pol9.Clock(), scripted=False, seed=0)
        for lab in data["calls"]:
            act, args = tlc.parse_action(lab)
            if act == "Insert" and args[0] not in held:
                p.on_insert(pol9.key_name(args[0]))
                held.add(args[0])
            elif act == "Access" and args[0] in held:
                p.on_access(pol9.key_name(args[0]))
            elif act == "Remove":
                p.on_remove(pol9.key_name(args[0]))
                held.discard(args[0])
            elif act == "Clear":
                p.clear()
                held.clear()
            elif act == "Evict":
                v = p.evict()
                held.discard(0 if v is None else pol9.key_num(v))
            if pol9.tracked(name, p) != held:
                chk.violation(f"policy_policy_keys:{name}", f"eviction policy {name}: tracked="
                              f"{sorted(pol9.tracked(name, p))} held={sorted(held)} after {lab}", data)
                break
    else:
        mod = {"soft_ttl": soft, "multi_tier": tiered, "page_cache": pagec}[fam]
        runs = mod.Runs(chk)
        runs.execute(data["cfg"], data["prog"], "replay")
        devs = open_dev(getattr(mod, "ALL_DEVS", mod.DEVIATIONS))
        verdicts, drifts, _ = mod.validate(runs.traces, "C16_replay", devs)
        name_unexplained_family(mod, runs, verdicts, devs, "C16_replay_name")
        mod.judge(chk, runs, verdicts, drifts)
    return chk.finish()


def _t(chk, what):
    import os, sys, time
    if os.environ.get("C16_DEBUG"):
        print(f"[{time.time() - chk.t0:6.1f}s] {what}", file=sys.stderr)


def run(tier, seed, replay=None):
    quiet_logging()
    chk = Check("C16", tier, seed)
    rng = random.Random(seed)
    known_dev = as_code_dev()
    runs = Runs(chk)

    if replay:
        return replay_case(chk, json.loads(open(replay).read())["replay"])

    quick = tier == "quick"
    pool = ThreadPoolExecutor(max_workers=8)
    jobs = {}
    # -- 1. model checking -------------------------------------------------
    if quick:
        jobs["clean_wb+wt"] = pool.submit(job, "C16_mc_clean", "CacheMC.tla", mc_consts(scens=(3, 2)),
                                          invariants=INVS, view="View", timeout=3000, workers=6)
    else:
        for name, kw in (("clean_k2_2x2", dict(scens=(3, 2), nops=(2, 2, 0))),
                         ("clean_k2_lat", dict(scens=(1, 4, 5, 6, 7, 8))),
                         ("clean_k3", dict(K=3, cap=2, scens=(3, 2), pre=(1, 2))),
                         ("clean_3procs", dict(scens=(3, 2), nops=(1, 1, 1)))):
            jobs[name] = pool.submit(job, f"C16_mc_{name}", "CacheMC.tla", mc_consts(**kw), invariants=INVS,
                                     view="View", timeout=6000, workers=6)
    # two overlapping puts + removal + miss-fill of one key: three clients, four operations
    race_kw = dict(K=1, cap=1, scens=(9,), nops=(1, 1, 2), kinds=("get", "put", "inv"), pre=(1,))
    jobs["clean_race_k1"] = pool.submit(job, "C16_mc_clean_race", "CacheMC.tla", mc_consts(**race_kw),
                                        invariants=INVS, view="View", timeout=3000, workers=4)
    if not quick:
        jobs["clean_race_k2"] = pool.submit(job, "C16_mc_clean_race2", "CacheMC.tla",
                                            mc_consts(**dict(race_kw, K=2, pre=(1, 2))),
                                            invariants=INVS, view="View", timeout=6000, workers=6)
    for dev, (invs, sc) in DEVIATIONS.items():
        jobs[f"dev_{dev}"] = pool.submit(job, f"C16_mc_dev_{dev[:12]}", "CacheMC.tla",
                                         mc_consts(scens=(sc,), dev=[dev]), invariants=INVS, view="View",
                                         timeout=900, workers=2, light=True)
    pol_dot = tlc.workdir("C16_pol") / "pol.dot"
    pol_consts = {"Pols": tla_set(pol9.POLICIES), "NKeys": 3, "MaxT": 3, "MaxCnt": 3, "MaxN": 6, "MaxLen": 4,
                  "Strict": "TRUE", "TTLv": pol9.PAR["ttl"], "SS": pol9.PAR["ss"], "A1Max": pol9.PAR["a1max"]}

    def pol_job():
        cfg = tlc.write_cfg(tlc.WORK / "C16_pol" / "mc.cfg", spec="Spec", constants=pol_consts,
                            invariants=["InvTracked", "InvVictim"], constraints=["Bound"])
        return tlc.run(SPEC / "PoliciesMC.tla", cfg, label="C16_pol", timeout=900, dump_dot=pol_dot, workers=2,
                       env=LIGHT_JVM)
    jobs["policies"] = pool.submit(pol_job)
    loose_dot = tlc.workdir("C16_pol_loose") / "pol.dot"
    if not quick:
        def loose_job():
            c = dict(pol_consts, Strict="FALSE", MaxLen=3, MaxN=5)
            cfg = tlc.write_cfg(tlc.WORK / "C16_pol_loose" / "mc.cfg", spec="Spec", constants=c, constraints=["Bound"])
            return tlc.run(SPEC / "PoliciesMC.tla", cfg, label="C16_pol_loose", timeout=3000, dump_dot=loose_dot,
                           workers=4)
        loose_fut = pool.submit(loose_job)

    # program enumeration: explicit LRU, deviations as in the code, no invariants, full state (no VIEW)
    gen_wd = tlc.workdir("C16_gen")
    gen_job = pool.submit(job, "C16_gen", "CacheMC.tla",
                          mc_consts(scens=(1, 2) if quick else (1, 2, 3, 4), pol="LRU", dev=known_dev,
                                    nops=(1, 1, 0) if quick else (2, 1, 0)),
                          timeout=3000, extra=["-dump", str(gen_wd / "states")], workers=2, light=quick)
    gen2_wd = tlc.workdir("C16_gen_race")
    gen2_kw = dict(race_kw, pol="LRU", dev=known_dev) if quick else dict(race_kw, K=2, pre=(1, 2), pol="LRU", dev=known_dev)
    gen2_job = pool.submit(job, "C16_gen_race", "CacheMC.tla", mc_consts(**gen2_kw),
                           timeout=6000, extra=["-dump", str(gen2_wd / "states")], workers=2)

    soft_jobs = soft.submit(pool, quick)
    soft_runs = soft.Runs(chk)
    soft_dev = sorted({e["deviation"] for e in load_known().get("open", [])
                       if e["property"] == "C16" and e.get("deviation") in soft.DEVIATIONS})

    pc_jobs = pagec.submit(pool, quick)
    pc_runs = pagec.Runs(chk)
    pc_dev = sorted({e["deviation"] for e in load_known().get("open", [])
                     if e["property"] == "C16" and e.get("deviation") in pagec.ALL_DEVS})
    tier_jobs = tiered.submit(pool, quick)
    tier_runs = tiered.Runs(chk)
    tier_dev = sorted({e["deviation"] for e in load_known().get("open", [])
                       if e["property"] == "C16" and e.get("deviation") in tiered.DEVIATIONS})

    # -- 3a. random real executions while TLC runs --------------------------
    n_rand = 1350 if quick else 15000
    for i in range(n_rand):
        cfg, prog, regime = random_case(rng, i)
        runs.execute(cfg, prog, f"random:{regime}")

    n_race = 0
    for cfg, prog, regime in race_cases(rng, quick):
        runs.execute(cfg, prog, f"race:{regime}")
        n_race += 1
    chk.extra["directed_race_programs"] = n_race

    for i in range(400 if quick else 6000):
        cfg, prog = soft.random_case(rng, i)
        soft_runs.execute(cfg, prog, "random")
    for i in range(330 if quick else 6000):
        cfg, prog = tiered.random_case(rng, i)
        tier_runs.execute(cfg, prog, "random")
    for cfg, prog in tiered.race_cases(quick):
        tier_runs.execute(cfg, prog, "race:two_puts_removal_fill")
    for i in range(240 if quick else 4000):
        cfg, prog = pagec.random_case(rng, i)
        pc_runs.execute(cfg, prog, "random")
    for cfg, prog in pagec.race_cases(quick):
        pc_runs.execute(cfg, prog, "race:dirty_victim_write_read_same_page")
    _t(chk, f"random executions done: {len(runs.traces)} + soft-ttl {len(soft_runs.traces)} + multi-tier "
            f"{len(tier_runs.traces)} + page-cache {len(pc_runs.traces)}")
    n_early = len(runs.traces)
    nb = 3 if quick else 8
    early_val = pool.submit(validate, list(runs.traces), known_dev, "C16_trace_a",
                            (n_early + nb - 1) // nb, nb)
    # -- collect model checking -------------------------------------------
    for name, fut in jobs.items():
        res = fut.result()
        if name.startswith("clean"):
            chk.add_tlc(f"CacheMC Dev={{}} {name}", res)
            chk.require(res.ok, f"CacheMC {name} with Dev={{}} violates {res.violated}: the design model is wrong")
        elif name.startswith("dev_"):
            dev = name[4:]
            chk.add_tlc(f"CacheMC Dev={{{dev}}}", res, count=False, note="sensitivity run, must violate")
            chk.require(res.violated in DEVIATIONS[dev][0], f"deviation {dev} not caught (got {res.violated})")
            chk.sensitivity[dev] = res.violated
            # R1: the counterexample is a program; run it on the real code
            if res.trace:
                plog = res.trace[-1][1].get("plog")
                if plog:
                    prog = prog_from_plog(plog)
                    for pol in ("LRU", "CLOCK", "TWOQ"):
                        runs.execute(scen_cfg(DEVIATIONS[dev][1], K=2, cap=1, pol=pol, pre=pre_values(2, [1])),
                                     prog, f"tlc_counterexample:{dev}")
                        chk.replays += 1
        else:
            chk.add_tlc("PoliciesMC (nine policies, strict call sequences, 3 keys)", res)
            chk.require(res.ok, f"PoliciesMC violates {res.violated}")

    soft.collect(chk, soft_jobs, soft_runs)
    soft_val = pool.submit(soft.validate, soft_runs.traces, "C16_st_trace", soft_dev)
    pagec.collect(chk, pc_jobs, pc_runs)
    pc_val = pool.submit(pagec.validate, pc_runs.traces, "C16_pc_trace", pc_dev)
    tiered.collect(chk, tier_jobs, tier_runs)
    tier_val = pool.submit(tiered.validate, tier_runs.traces, "C16_mt_trace", tier_dev)
    _t(chk, "TLC model checking collected")
    # -- 2a. policies: tour every edge of the state graph on the real objects
    g = tlc.parse_dot(pol_dot)
    cap_paths = 2500 if quick else None
    paths = list(tlc.edge_tour(g))
    chk.extra["policy_graph"] = {"states": len(g.nodes), "edges": g.n_edges(), "tour_paths": len(paths)}
    if cap_paths and len(paths) > cap_paths:
        paths = rng.sample(paths, cap_paths)
    pol_steps = 0
    for root, path in paths:
        name = g.nodes[root]["pol"]
        done, mis, con = pol9.replay_path(name, path, g.nodes, root)
        pol_steps += done
        chk.replays += 1
        if mis:
            chk.note_drift(f"policy {name}: after {mis[1]} model={mis[2]} code={mis[3]} path={[l for l, _ in path[:mis[0] + 1]]}")
        if con:
            chk.violation(f"policy_{con[1]}:{name}", f"eviction policy {name}: {con[1]} {con[2]}",
                          {"family": "policy", "policy": name, "calls": [l for l, _ in path[:con[0] + 1]]})
    if not quick:
        res = loose_fut.result()
        chk.add_tlc("PoliciesMC arbitrary call sequences (state-check only)", res, count=False)
        g2 = tlc.parse_dot(loose_dot)
        n2 = 0
        for root, path in tlc.edge_tour(g2, max_paths=60000):
            name = g2.nodes[root]["pol"]
            done, mis, con = pol9.replay_path(name, path, g2.nodes, root, strict=False)
            pol_steps += done
            n2 += 1
            if mis:
                chk.note_drift(f"policy {name} (arbitrary calls): after {mis[1]} model={mis[2]} code={mis[3]}")
        chk.replays += n2
        chk.extra["policy_graph_arbitrary_calls"] = {"states": len(g2.nodes), "edges": g2.n_edges(), "paths": n2}
    chk.impl_steps += pol_steps
    chk.extra["policy_replay_steps"] = pol_steps

    _t(chk, "policy tour done")
    # -- 2b. programs enumerated by TLC, executed on the real CachedStore ----
    n_model = 0
    state_checked = matched = 0
    total_programs = 0
    for gname, gjob, gwd, gK, gpre, capn in (("client programs", gen_job, gen_wd, 2, [1], 300 if quick else 8000),
                                             ("overlapping-put race programs", gen2_job, gen2_wd, gen2_kw["K"],
                                              list(gen2_kw["pre"]), 150 if quick else 4000)):
        res = gjob.result()
        chk.add_tlc(f"program enumeration ({gname})", res, count=False,
                    note="terminal states enumerate client programs (explicit LRU, deviations as in the code)")
        terms = {}
        for st in tlc.parse_dump(gwd / "states.dump", must_contain="heap = {}"):
            prog = prog_from_plog(st["plog"])
            terms[json.dumps([st["sc"], prog])] = st
        (gwd / "states.dump").unlink(missing_ok=True)
        keys = sorted(terms)
        total_programs += len(keys)
        if len(keys) > capn:
            keys = rng.sample(keys, capn)
        elif gK == 2 and gname == "client programs":
            chk.exhaustive = True
        for j, pk in enumerate(keys):
            sc, prog = json.loads(pk)
            st = terms[pk]
            w = runs.execute(scen_cfg(sc, K=gK, cap=1, pol="LRU", pre=pre_values(gK, gpre)), prog, "model_program")
            if w is None:
                continue
            chk.replays += 1
            n_model += 1
            # state-checked replay: the model's terminal state against the real final state
            state_checked += 1
            fin = w.steps[-1]
            model = (list(st["s"]["cache"]), sorted(st["s"]["dirty"]), list(st["s"]["back"]),
                     list(st["s"]["ps"]["q1"]), sorted((dict(r)["k"], dict(r)["ret"]) for r in st["reads"]))
            code = (fin["cache"], [k for k in range(1, gK + 1) if fin["dirty"][k - 1]], fin["back"], fin["q1"],
                    sorted((x["k"], x["ret"]) for x in w.steps if x["kind"] == "get" and x["last"]))
            if model == code:
                matched += 1
            else:
                chk.note_drift(f"model program {prog} scenario={sc}: terminal state model={model} code={code}")
            # the same program under another policy (cap 1: the victim is forced, the policy bookkeeping is not)
            runs.execute(scen_cfg(sc, K=gK, cap=1, pol=pol9.POLICIES[j % 9], pre=pre_values(gK, gpre)), prog,
                         "model_program")
    chk.extra["model_programs_total"] = total_programs
    chk.extra["model_programs_executed"] = n_model
    chk.extra["state_checked_replays"] = {"total": state_checked, "matched": matched}

    _t(chk, f"model programs done: {n_model}")
    # -- 3b. validate all recorded executions with the TLA+ trace spec -------
    late = runs.traces[n_early:]
    verdicts, drifts, results = validate(late, known_dev, "C16_trace_b", (len(late) + 1) // 2 or 1, 2)
    v1, d1, r1 = early_val.result()
    verdicts.update(v1)
    drifts.update(d1)
    results = r1 + results
    for r in results:
        chk.add_tlc(f"CacheTrace batch Dev={known_dev}", r, note="trace validation, one state per recorded segment")
    sv, sd, sres = soft_val.result()
    chk.add_tlc(f"SoftTtlTrace batch Dev={soft_dev}", sres, note="trace validation, SoftTTLCache")
    tv, td, tres = tier_val.result()
    chk.add_tlc(f"TieredTrace batch Dev={tier_dev}", tres, note="trace validation, MultiTierCache")
    name_unexplained_family(tiered, tier_runs, tv, tier_dev, "C16_mt_name")
    tiered.judge(chk, tier_runs, tv, td)
    chk.extra["multi_tier_verdicts"] = {v: sum(1 for x in tv.values() if x[0] == v) for v in {x[0] for x in tv.values()}}
    pv, pd, pres = pc_val.result()
    chk.add_tlc(f"PageCacheTrace batch Dev={pc_dev}", pres, note="trace validation, PageCache")
    name_unexplained_family(pagec, pc_runs, pv, pc_dev, "C16_pc_name")
    pagec.judge(chk, pc_runs, pv, pd)
    chk.extra["page_cache_verdicts"] = {v: sum(1 for x in pv.values() if x[0] == v) for v in {x[0] for x in pv.values()}}
    chk.extra["page_cache_runs_that_raised_KeyError"] = pc_runs.raised
    chk.impl_traces = len(runs.traces) + len(soft_runs.traces) + len(tier_runs.traces) + len(pc_runs.traces)
    _t(chk, "trace validation done")
    judge(chk, runs, verdicts, drifts, known_dev)
    name_unexplained_family(soft, soft_runs, sv, soft_dev, "C16_st_name")
    soft.judge(chk, soft_runs, sv, sd)
    chk.extra["soft_ttl_verdicts"] = {v: sum(1 for x in sv.values() if x[0] == v) for v in {x[0] for x in sv.values()}}
    by = {}
    for tid, (v, pos, taint) in verdicts.items():
        o = runs.meta[tid]["origin"]
        by.setdefault(o, {}).setdefault(v if not taint else v + "/" + "+".join(DEV_NAMES.get(c, "?") for c in taint), 0)
        by[o][v if not taint else v + "/" + "+".join(DEV_NAMES.get(c, "?") for c in taint)] += 1
    chk.extra["verdicts_by_origin"] = by
    for tid in (1, len(runs.traces)):
        t = runs.traces[tid - 1]
        chk.sample({"meta": runs.meta[tid], "verdict": verdicts[tid], "first_steps": t["steps"][:4]})
    chk.assumptions = [
        "latencies and think times are whole ticks (1 ns .. 1 s) whose float-seconds value converts exactly",
        "the backing KVStore is unbounded and written only through the cache",
        "write-back mode: clients do not invalidate() a dirty key / invalidate_all() with dirty keys "
        "(an explicit request to drop unflushed data is outside the statement)",
        "a delete is admitted as a later write (reads may return absent) but never required to be visible",
        "TTLEviction is given the simulation clock (clock_func); its default is the wall clock",
    ]
    chk.explanation = ("CachedStore: TLC explores every program of the bounded client model under exact event-loop "
                       "timing; the nine policies are proved (bounded) to refine the abstract policy used there; "
                       "real executions are judged by the same contract operators evaluated by TLC on recorded traces.")
    pool.shutdown()
    return chk.finish()
