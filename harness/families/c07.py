"""C07 — no library component emits an event into the past or spins at a frozen clock.

The engine-level monitor (harness/simrec.py, installed in child processes only) watches every
Simulation executed by a broad corpus of scenarios: the repository's own integration/unit test files and
examples run as workloads, library scenarios, and the contention drivers of the other families.  Each
simulation's summary is judged by the TLA+ monitor specs/monitor/Monitor.tla; WaitLoop.tla model-checks
the liveness clause (time advances or the run ends) on the wait-loop micro model.
"""
from __future__ import annotations

import glob
import json
import os
import random
import subprocess
import sys
from concurrent.futures import ThreadPoolExecutor

from .. import tlc
from ..common import Check, REPO, VERIF

SPEC = tlc.SPECS / "monitor"
SPIN_LIMIT = 200_000
LIB_PREFIXES = ("happysimulator.components.", "happysimulator.load.")


def _slug(s):
    return "".join(c if c.isalnum() else "_" for c in s)[-90:]


def corpus(tier, rng):
    repo = str(REPO)
    rel = lambda pat: sorted(f[len(repo) + 1:] for f in glob.glob(repo + pat, recursive=True))
    integ = [f for f in rel("/tests/integration/**/test_*.py") if "visualization" not in f]
    units = rel("/tests/unit/**/test_*.py")
    other = [f for f in rel("/tests/*.py") if os.path.basename(f).startswith("test_")] + rel("/tests/regression/**/test_*.py")
    examples = [f for f in rel("/examples/**/*.py") if "/visual/" not in f and not f.endswith("common.py")
                and "__init__" not in f]
    lib = [f"lib:{n}" for n in ("poisson_queue", "fam_c19_mq", "fam_c19_topic", "fam_contention")]
    # scenario libraries (harness/scenarios_*.py): hostile parameter choices per component family, run
    # in groups of one child process each; every scenario is run in both tiers
    from .. import scenarios as _sc
    for prefix in sorted({n.split("_")[0] + "_" for n in _sc.SCENARIOS if n.split("_")[0] in ("svc", "ops", "data")}):
        cnt = len([n for n in _sc.SCENARIOS if n.startswith(prefix)])
        groups = max(1, min(8, cnt // 10))
        lib += [f"libgroup:{prefix}:{k}:{groups}" for k in range(groups)]
    if tier == "quick":
        files = rng.sample(integ, min(12, len(integ))) + rng.sample(units, min(16, len(units)))
        ex = rng.sample(examples, min(4, len(examples)))
    else:
        files = integ + units + other
        ex = examples
    return lib + [f"pytest:{f}" for f in files] + [f"example:{f}" for f in ex]


def run_child(scenario, outdir, timeout):
    env = dict(os.environ)
    env.update({"PYTHONHASHSEED": "0", "VERIF_REPO": str(REPO), "PYTHONPATH": f"{VERIF}:{REPO}",
                "MPLBACKEND": "Agg"})
    out = os.path.join(outdir, f"{_slug(scenario)}.json")
    try:
        subprocess.run([sys.executable, "-m", "harness.sim_child", scenario, out, "--nolog"],
                       cwd=str(VERIF), env=env, capture_output=True, text=True, timeout=timeout)
    except subprocess.TimeoutExpired:
        return {"scenario": scenario, "timeout": True, "sims": [], "classes": []}
    try:
        return json.loads(open(out).read())
    except Exception:
        return {"scenario": scenario, "failed": True, "sims": [], "classes": []}


def model_check(chk):
    wd = tlc.workdir("C07_mc")
    base = {"NW": 2, "Hold": 2}
    cfg = tlc.write_cfg(wd / "clean.cfg", spec="Spec", constants=dict(base, Dev="{}"),
                        invariants=["BoundedPerInstant"], properties=["TimeAdvances"])
    res = tlc.run(SPEC / "WaitLoop.tla", cfg, label="C07_mc", timeout=600)
    chk.add_tlc("WaitLoop Dev={} (parked waiters)", res)
    chk.require(res.ok, f"WaitLoop.tla with Dev={{}} violates {res.violated}")
    dev = dict(base, Dev='{"zero_delay_poll"}')
    cfg = tlc.write_cfg(wd / "dev_live.cfg", spec="Spec", constants=dev, properties=["TimeAdvances"])
    res = tlc.run(SPEC / "WaitLoop.tla", cfg, label="C07_mc", timeout=600)
    chk.add_tlc("WaitLoop Dev={zero_delay_poll} liveness", res, count=False, note="must violate TimeAdvances")
    chk.require(res.violated == "temporal", f"zero_delay_poll liveness not caught (got {res.violated})")
    cfg = tlc.write_cfg(wd / "dev_inv.cfg", spec="Spec", constants=dev, invariants=["BoundedPerInstant"])
    res = tlc.run(SPEC / "WaitLoop.tla", cfg, label="C07_mc", timeout=600)
    chk.add_tlc("WaitLoop Dev={zero_delay_poll} bound", res, count=False, note="must violate BoundedPerInstant")
    chk.require(res.violated == "BoundedPerInstant", f"zero_delay_poll bound not caught (got {res.violated})")
    chk.sensitivity["zero_delay_poll"] = "TimeAdvances+BoundedPerInstant"


def exported_component_classes():
    import inspect
    import happysimulator.components as comps
    from happysimulator.core.entity import Entity
    out = set()
    for n in getattr(comps, "__all__", []):
        c = getattr(comps, n, None)
        if inspect.isclass(c) and issubclass(c, Entity):
            out.add(f"{c.__module__}.{c.__name__}")
    return out


def run(tier, seed, replay=None):
    chk = Check("C07", tier, seed, level="other")
    rng = random.Random(seed)
    if replay:
        scenarios = [json.loads(open(replay).read())["replay"]["scenario"]]
    else:
        model_check(chk)
        scenarios = corpus(tier, rng)
    wd = tlc.workdir("C07_children")
    workers = int(os.environ.get("VERIF_CHILD_WORKERS", "12"))
    tmo = 300 if tier == "quick" else 900
    with ThreadPoolExecutor(workers) as ex:
        outs = list(ex.map(lambda s: run_child(s, str(wd), tmo), scenarios))
    recs, meta = [], {}
    classes = set()
    skipped = []
    for s, o in zip(scenarios, outs):
        classes.update(o.get("classes", []))
        if o.get("timeout") or o.get("failed"):
            skipped.append(s)
            continue
        ranges = (o.get("info") or {}).get("ranges") or {}
        for name, err in ((o.get("info") or {}).get("errors") or {}).items():
            chk.note_drift(f"scenario {name} raised {err}")
        for k, sim in enumerate(o["sims"]):
            sub = next((n for n, (a, b) in ranges.items() if a <= k < b), None)
            if sub:
                sim = dict(sim, scenario=sub)
            lib_past = [p for p in sim["past"] if p["module"].startswith(LIB_PREFIXES)]
            rid = len(recs) + 1
            recs.append({"id": rid, "n": sim["n"], "maxinst": sim["max_inst"], "limit": SPIN_LIMIT,
                         "spun": sim["spin"] is not None, "past": len(lib_past), "discards": sim["tt"]})
            meta[rid] = (s, k, sim, lib_past)
            chk.impl_steps += sim["n"]
    chk.require(len(recs) > 0, "no simulation was observed")
    verdicts, results = tlc.validate_traces(SPEC / "Monitor.tla", recs, label="C07_trace", chunk=20000)
    for r in results:
        chk.add_tlc("Monitor batch", r)
    chk.impl_traces = len(recs)
    for rid, (v, _pos) in sorted(verdicts.items()):
        if v == "ACCEPT":
            continue
        s, k, sim, lib_past = meta[rid]
        s = f"lib:{sim['scenario']}" if sim.get("scenario") else s
        if v == "PROP:emitted_into_the_past":
            for p in lib_past:
                chk.violation(f"past_emission:{p['emitter']}:{p['etype'].split(':')[0][:40]}",
                              f"{p['module']}.{p['emitter']} emitted {p['etype']} {p['late_ns']} ns into the past "
                              f"(scenario {s}, simulation {k}); the engine discards such events",
                              {"scenario": s, "simulation": k, "emission": p})
        else:
            sp = sim["spin"] or {"target": "?", "type": "?", "module": "?"}
            where = sp.get("frame") if "happysimulator" in (sp.get("file") or "") else sp["target"]
            chk.violation(f"frozen_clock:{where}",
                          f"more than {SPIN_LIMIT} deliveries at instant {sim['max_inst_t']} ns "
                          f"(scenario {s}, simulation {k}): {sp['module']}.{sp['target']} keeps receiving {sp['type']}",
                          {"scenario": s, "simulation": k, "spin": sp, "types": sim.get("max_inst_types")})
    chk.extra["distinct_nontrivial"] = len({(meta[r["id"]][0], r["n"], r["maxinst"]) for r in recs if r["n"] > 0})
    chk.extra["rule"] = ("one case = one Simulation executed by a scenario of the corpus; non-trivial = it delivered "
                         "at least one event; distinct by (scenario, deliveries, max deliveries at one instant)")
    exported = exported_component_classes()
    hit = sorted(c for c in classes if c in exported)
    chk.extra.update({"scenarios_run": len(scenarios), "scenarios_skipped": skipped[:20],
                      "library_classes_receiving_deliveries": len(classes),
                      "exported_entity_classes": len(exported), "exported_entity_classes_exercised": len(hit),
                      "exported_entity_classes_not_exercised": sorted(exported - set(hit))[:200],
                      "max_deliveries_at_one_instant": max((r["maxinst"] for r in recs), default=0),
                      "time_travel_discards_seen": sum(r["discards"] for r in recs)})
    big = sorted(recs, key=lambda r: -r["maxinst"])[:2]
    for r in big:
        s, k, sim, _ = meta[r["id"]]
        chk.sample({"scenario": s, "simulation": k, "deliveries": r["n"], "max_at_one_instant": r["maxinst"],
                    "past_emissions_by_library": r["past"], "engine_discards": r["discards"]})
    chk.explanation = ("engine-level monitor (past emissions attributed to the emitting library component, "
                       "deliveries per instant with a spin guard) over every Simulation executed by the scenario "
                       "corpus; each simulation's summary judged by Monitor.tla; WaitLoop.tla model-checks the "
                       "liveness clause on the wait-loop micro model")
    chk.assumptions = [
        f"'unbounded deliveries at one instant' is operationalised as more than {SPIN_LIMIT} deliveries at one "
        "clock value in a finite scenario",
        "an emission counts as a component's when the engine was delivering to an entity defined under "
        "happysimulator.components / happysimulator.load at the moment of the push (test-defined entities that "
        "schedule into the past on purpose are not library components)",
        "breadth is the scenario corpus: classes exercised / not exercised are listed in the evidence",
    ]
    return chk.finish()
