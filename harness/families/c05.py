"""C05 — partitioned parallel execution is equivalent to sequential execution (DESIGN.md section 5).

  1. TLC model checking of specs/parallel/Windowed.tla: with Dev={} every contract invariant holds for
     all programs / partitionings / latencies / window sizes within the bounds; every deviation
     (the as-code "window_overshoot" and four hypothetical ones) is caught by a named invariant.
  2. spec -> code: the terminal states of the as-code model enumerate (program, outcome) pairs; every
     program is built twice on the real code (ParallelSimulation and Simulation), the observed logs are
     judged by the contract and compared with the model's outcome (state check of the final state).
  3. code -> spec: seeded random programs beyond the model's bounds (2-4 partitions, chains / cycles /
     stars, boundary-aligned timings, bursts, idle partitions, dense heartbeats, generator handlers,
     link.latency overrides, several tick sizes and pool sizes) are run on the real code; every
     execution (also those of step 2) is validated step by step by WindowedTrace.tla.
"""
from __future__ import annotations

import json
import os
import random

from .. import tlc
from ..common import Check, load_known
from ..probe import quiet_logging
from . import c05_world as W
from .c05_world import INF, Opts, Prog

SPEC = tlc.SPECS / "parallel"
INVS = ["InvNoPastDiscard", "InvNoDup", "InvTimeOrder", "InvNoLoss", "InvSameDeliveries", "InvIndependent"]
# deviation -> (invariants checked in the sensitivity run, acceptable results)
DEVIATIONS = {
    "window_overshoot": (INVS, {"InvNoPastDiscard"}),
    "no_window_validation": (INVS, {"InvNoPastDiscard"}),
    "no_outbox_clear": (["InvNoDup"], {"InvNoDup"}),
    "outbox_cleared_before_push": (["InvNoLoss"], {"InvNoLoss"}),
    "exchange_late": (INVS, {"InvNoLoss", "InvNoPastDiscard", "InvSameDeliveries"}),
    "link_latency_no_sample": (["InvNoLoss"], {"InvNoLoss"}),
    "cancelled_run_skips_bound": (INVS, {"InvNoPastDiscard"}),
    "stop_without_primary": (INVS, {"InvSameDeliveries", "InvNoLoss"}),
}
DEV_CONFS = {"link_latency_no_sample": "ConfsOv"}
KNOWN_KEY = {"PROP:discarded_past:window_overshoot": "overshoot_then_cross_event_discarded_as_past",
             "PROP:cross_event_lost:window_overshoot": "overshoot_then_cross_event_stranded_until_end_time",
             "PROP:run_aborted:link_latency_no_sample": "link_latency_distribution_has_no_sample"}
TICKS = [1_000_000_000, 1_000_000, 1_000, 300_000, 250_250]


def as_code_dev():
    return sorted({e["deviation"] for e in load_known().get("open", [])
                   if e["property"] == "C05" and e.get("deviation") in DEVIATIONS})


def tla_set(xs):
    return "{" + ",".join(f'"{x}"' for x in xs) + "}"


def consts(confs, max_ev, max_t, *, max_out=2, max_lat=2, short="fixed", inter=False, dev=(), cancels=True,
           daemons=False):
    return {"Confs": f"<- {confs}", "MaxLat": max_lat, "MaxEv": max_ev, "MaxT": max_t, "MaxOut": max_out,
            "Cancels": "TRUE" if cancels else "FALSE", "Daemons": "TRUE" if daemons else "FALSE", "ShortWin": f'"{short}"',
            "Interleave": "TRUE" if inter else "FALSE", "Dev": tla_set(dev)}


# (name, constants) of the exhaustive Dev={} runs
def mc_plan(tier):
    if tier == "quick":
        return [
            ("2 partitions (one-way, two-way links, finite end_time) and independent partitions, timers",
             dict(confs="ConfsQ", max_ev=3, max_t=3)),
            ("free interleaving of partition steps", dict(confs="ConfsOne", max_ev=3, max_t=2, inter=True,
                                                        short="never")),
            ("daemon events, finite end_time (one-way link / no links)",
             dict(confs="ConfsD", max_ev=3, max_t=2, max_lat=1, short="never", daemons=True)),
        ]
    return [
        ("2 partitions, one-way and two-way links, 4 events", dict(confs="ConfsA", max_ev=4, max_t=3)),
        ("2 partitions, one-way and two-way links, horizon 4", dict(confs="ConfsA", max_ev=3, max_t=4,
                                                                    short="any")),
        ("two entities in one partition", dict(confs="ConfsB", max_ev=4, max_t=3, max_lat=1)),
        ("3 partitions, chain and cycle", dict(confs="ConfsC", max_ev=4, max_t=3, max_lat=1, short="never")),
        ("free interleaving of partition steps", dict(confs="ConfsA", max_ev=3, max_t=3, inter=True)),
        ("finite end_time", dict(confs="ConfsE", max_ev=4, max_t=3, max_lat=1)),
        ("independent partitions", dict(confs="ConfsI", max_ev=4, max_t=3)),
        ("daemon events, finite end_time (one-way link / no links)",
         dict(confs="ConfsD", max_ev=3, max_t=3, max_lat=1, short="never", daemons=True)),
    ]


def gen_plan(tier):
    """Configurations whose programs are replayed on the real code."""
    if tier == "quick":
        return [dict(confs="ConfsQ", max_ev=3, max_t=3),
                dict(confs="ConfsD", max_ev=3, max_t=2, max_lat=1, short="never", daemons=True)]
    return [dict(confs="ConfsA", max_ev=3, max_t=3, short="any"),
            dict(confs="ConfsB", max_ev=3, max_t=3, max_lat=1),
            dict(confs="ConfsC", max_ev=3, max_t=3, max_lat=1, short="never"),
            dict(confs="ConfsE", max_ev=3, max_t=3, max_lat=1),
            dict(confs="ConfsI", max_ev=4, max_t=2),
            dict(confs="ConfsD", max_ev=3, max_t=3, max_lat=1, short="never", daemons=True)]


def dev_job(dev):
    """Sensitivity run of one deviation: small bounds in which its counterexample exists."""
    invs, expect = DEVIATIONS[dev]
    if dev == "cancelled_run_skips_bound":
        # fixed pre-run events (canceller, timer at the window end, later live event, sender); TLC still
        # chooses every handler result
        return dict(init="InitTimers", next_="NextRun", invs=invs, expect=expect,
                    kw=dict(confs="ConfsOne", max_ev=5, max_t=3, max_lat=1, short="never", dev=[dev]))
    if dev == "stop_without_primary":
        return dict(init="Init", next_="Next", invs=invs, expect=expect,
                    kw=dict(confs="ConfsD", max_ev=2, max_t=1, max_lat=1, short="never", daemons=True, dev=[dev]))
    return dict(init="Init", next_="Next", invs=invs, expect=expect,
                kw=dict(confs=DEV_CONFS.get(dev, "ConfsOne"), max_ev=3, max_t=2, max_lat=1, short="never",
                        dev=[dev]))


def _tlc_job(label, *, kw, invs=(), init="Init", next_="Next", workers=None, dump=False, timeout=3000,
             deadlock=True):
    wd = tlc.workdir(label)
    cfg = tlc.write_cfg(wd / "run.cfg", init=init, next_=next_, constants=consts(**kw), invariants=list(invs),
                        deadlock=deadlock)
    extra = ["-dump", str(wd / "states")] if dump else None
    res = tlc.run(SPEC / "WindowedMC.tla", cfg, label=label, extra=extra, timeout=timeout, workers=workers)
    return res, wd


def _gen_job(label, kw, code_dev, workers):
    """Programs of the bounded model.  With no open deviation the partitioned phase need not be dumped:
    the Dev={} runs prove that every terminal state has delivered exactly the reference run's events and
    discarded nothing, so the build + reference phases (NextProg) enumerate (program, expected outcome)."""
    full = bool(code_dev)
    res, wd = _tlc_job(label, kw=dict(dev=code_dev, **kw), next_="Next" if full else "NextProg", workers=workers,
                       dump=True, deadlock=full)
    progs, outcomes = {}, {}
    marker = 'phase = "done"' if full else 'phase = "seq"'
    for st in tlc.parse_dump(wd / "states.dump", must_contain=marker):
        if not full and st["sheap"]:
            continue
        p = Prog.from_state(st)
        key = p.key()
        progs.setdefault(key, p)
        if full:
            outcomes.setdefault(key, set()).add(outcome_of_state(st))
        else:
            outcomes.setdefault(key, set()).add((None, tuple(tuple(sorted(x)) for x in st["slog"]), ()))
    (wd / "states.dump").unlink(missing_ok=True)
    return res, progs, outcomes


def outcome_of_state(st):
    return (tuple(st["shist"]), tuple(tuple(sorted(x)) for x in st["plog"]), tuple(sorted(st["dropped"])))


class TlcPlan:
    """All repository-independent TLC runs, started in the background (the machine has 16 cores: one big run
    on half of them, the small sensitivity runs on one worker each) while the drivers run the real code."""

    def __init__(self, tier, code_dev, skip_mc):
        from concurrent.futures import ThreadPoolExecutor
        self.tier, self.code_dev = tier, code_dev
        w = tlc.DEFAULT_WORKERS
        quick = tier == "quick"
        self.heavy = ThreadPoolExecutor(max_workers=3 if quick else 1)
        self.light = ThreadPoolExecutor(max_workers=8)
        self.clean, self.devs, self.gens = [], [], []
        # generation first: the replays wait for it
        for k, kw in enumerate(gen_plan(tier)):
            self.gens.append((kw, self.heavy.submit(_gen_job, f"C05_gen_{k}", kw, code_dev,
                                                    max(2, w // 4) if quick else w)))
        if not skip_mc:
            for k, (name, kw) in enumerate(mc_plan(tier)):
                heavy_job = k == 0 or not quick
                self.clean.append((name, kw, (self.heavy if heavy_job else self.light).submit(
                    _tlc_job, f"C05_mc_{k}", kw=kw, invs=INVS,
                    workers=(max(2, w // 2) if quick else w) if heavy_job else 2)))
            for dev in DEVIATIONS:
                j = dev_job(dev)
                self.devs.append((dev, j, self.light.submit(_tlc_job, f"C05_dev_{dev}", kw=j["kw"], invs=j["invs"],
                                                            init=j["init"], next_=j["next_"], workers=1,
                                                            timeout=900)))

    def programs(self, chk):
        progs, outcomes = {}, {}
        for kw, fut in self.gens:
            res, pg, oc = fut.result()
            chk.add_tlc(f"program generation Dev={self.code_dev} {kw}", res, count=False,
                        note="terminal states of the reference phase enumerate the programs of the bounded model"
                        if not self.code_dev else "terminal states enumerate (program, outcome) pairs")
            progs.update(pg)
            for k, v in oc.items():
                outcomes.setdefault(k, set()).update(v)
        return progs, outcomes

    def counterexamples(self, chk):
        cex = []
        for dev, j, fut in self.devs:
            res, _wd = fut.result()
            chk.add_tlc(f"Windowed Dev={{{dev}}}", res, count=False, note="sensitivity run, must violate")
            chk.require(res.violated in j["expect"], f"deviation {dev} not caught (got {res.violated})")
            chk.sensitivity[dev] = res.violated
            if res.trace:
                cex.append((dev, res.trace[-1][1]))
        return cex

    def finish_clean(self, chk):
        for name, kw, fut in self.clean:
            res, _wd = fut.result()
            chk.add_tlc(f"Windowed Dev={{}} {name} {kw}", res)
            chk.require(res.ok, f"Windowed.tla with Dev={{}} violates {res.violated} ({name}): the model is wrong")
        self.heavy.shutdown()
        self.light.shutdown()


# ---------------------------------------------------------------------------
# random programs beyond the model's bounds

TOPOLOGIES = ("chain", "cycle", "full", "star", "oneway")
STYLES = ("sparse", "dense", "burst", "boundary", "idle", "chainy", "timers", "daemons")


def add_daemons(rng, evs, cont, end_t, tail_from=None):
    """Daemon flags (only with a finite end_time).  tail_from: every event due at or after that tick is a
    daemon event - a burst of primary work followed by daemon messages still in flight / daemon samples."""
    kids = {}
    for c, (_t, _g, par) in enumerate(evs, start=1):
        kids.setdefault(par, []).append(c)
    ok = [i for i in range(1, len(evs) + 1) if i not in cont and not any(c in cont for c in kids.get(i, ()))]
    if tail_from is not None:
        return frozenset(i for i in ok if evs[i - 1][0] >= tail_from)
    return frozenset(i for i in ok if rng.random() < 0.4)


def add_futures(rng, evs, cont, cby, daemon):
    """Handlers that go through SimFuture: pre-resolved future / free capacity-1 Resource before emitting, or
    parking until the handler of the only child resolves the future."""
    kids = {}
    for c, (_t, _g, par) in enumerate(evs, start=1):
        kids.setdefault(par, []).append(c)
    plain = lambda i: i not in cont and not any(c in cont for c in kids.get(i, ()))   # noqa: E731
    pre, park, used = {}, {}, set()
    for i in range(1, len(evs) + 1):
        if not plain(i) or i in daemon or i in used:
            continue
        ks = kids.get(i, [])
        if len(ks) == 1 and rng.random() < 0.5:
            r = ks[0]
            if plain(r) and evs[r - 1][1] == evs[i - 1][1] and r not in cby and r not in used and r not in daemon:
                park[i] = r
                used |= {i, r}
                continue
        if rng.random() < 0.35:
            pre[i] = rng.choice(["future", "resource"])
            used.add(i)
    return pre, park



def add_timers(rng, evs, cont, prob=0.5):
    """Let handlers disarm pending timers of their own entity: c is cancelled by b when both target the
    same entity, b is due strictly before c and strictly after c was created (so the outcome of cancel()
    is the same under every engine and every order of equal timestamps)."""
    cby = {}
    for c, (tc, gc, pc) in enumerate(evs, start=1):
        if c in cont or rng.random() > prob:
            continue
        if pc and evs[pc - 1][1] != gc:
            continue
        t_made = evs[pc - 1][0] if pc else -1
        cands = [b for b, (tb, gb, _pb) in enumerate(evs, start=1)
                 if gb == gc and t_made < tb < tc and b not in cont and b != c and b not in cby]
        if cands:
            cby[c] = rng.choice(cands)
    return cby


def timer_prog(rng) -> Prog:
    """Timers armed and cancelled around a window boundary: in the receiving partition the LAST heap entry
    at or just before a window end is a cancelled timer, the next live event lies one or more windows later,
    and a cross-partition event arrives in between (plus variations and noise)."""
    np_ = rng.choice([2, 2, 3])
    ep = []
    for p in range(1, np_ + 1):
        ep += [p] * rng.choice([1, 1, 2])
    by_part = {p: [e for e in range(1, len(ep) + 1) if ep[e - 1] == p] for p in range(1, np_ + 1)}
    links = [(1, 2)] + ([(2, 1)] if rng.random() < 0.5 else []) + ([(2, 3), (1, 3)] if np_ == 3 else [])
    unit = rng.random() < 0.5
    lat = {l: (1 if unit else rng.randint(1, 3)) for l in links}
    lmin = min(lat.values())
    w = lmin if rng.random() < 0.7 else rng.randint(1, lmin)
    evs, cby = [], {}
    for q in sorted({b for (_a, b) in links}):
        src = rng.choice([a for (a, b) in links if b == q])
        x = rng.choice(by_part[q])
        k = rng.randint(1, 5)
        end = k * w                                   # a window end
        tc = max(1, end - rng.choice([0, 0, 0, 1]))   # the timer, last entry inside the window
        tb = rng.randint(0, tc - 1)                   # its canceller
        gap = rng.choice([2, w + 1, 2 * w + 1, 3 * w])
        t_live = end + gap                            # next live event of the partition
        if rng.random() < 0.5:                        # timer armed by an earlier handler of x ...
            ta = rng.randint(0, tb)
            if ta < tb:
                evs.append((ta, x, 0))
                a = len(evs)
                evs.append((tc, x, a))
            else:
                evs.append((tc, x, 0))
        else:                                         # ... or before the run
            evs.append((tc, x, 0))
        c = len(evs)
        evs.append((tb, x, 0))
        cby[c] = len(evs)
        for _ in range(rng.choice([0, 1, 2])):        # a run of cancelled timers
            t2 = max(tb + 1, tc - rng.choice([0, 0, 1]))
            evs.append((t2, x, 0))
            cby[len(evs)] = cby[c]
        evs.append((t_live, rng.choice(by_part[q]), 0))
        # cross arrivals between the window end and the live event
        for _ in range(rng.choice([1, 1, 2])):
            tm = rng.randint(end, t_live)
            tg = tm - lat[(src, q)] - rng.choice([0, 0, 1])
            if tg < 0:
                continue
            evs.append((tg, rng.choice(by_part[src]), 0))
            evs.append((tg + (tm - tg), rng.choice(by_part[q]), len(evs)))
    end_t = INF if rng.random() < 0.85 else rng.randint(3, 12)
    prog = Prog(ep=ep, np=np_, links=links, lat=lat, w=w, end_t=end_t, evs=evs, cby=cby).canonical()
    prog.check()
    return prog


def topology(rng, np_, kind):
    ps = list(range(1, np_ + 1))
    if kind == "chain":
        return [(p, p + 1) for p in ps[:-1]]
    if kind == "cycle":
        return [(p, p % np_ + 1) for p in ps] if np_ > 2 else [(1, 2), (2, 1)]
    if kind == "full":
        return [(p, q) for p in ps for q in ps if p != q]
    if kind == "star":
        return [(1, q) for q in ps[1:]] + [(q, 1) for q in ps[1:]]
    return [(1, q) for q in ps[1:]]


def random_prog(rng: random.Random, k: int, independent=False) -> Prog:
    np_ = rng.choice([2, 2, 2, 3, 3, 4])
    ep = []
    for p in range(1, np_ + 1):
        ep += [p] * rng.choice([1, 1, 2, 3] if not independent else [1, 2])
    ents = list(range(1, len(ep) + 1))
    by_part = {p: [e for e in ents if ep[e - 1] == p] for p in range(1, np_ + 1)}
    style = STYLES[k % len(STYLES)]
    if style == "timers" and not independent:
        return timer_prog(rng)
    if independent:
        links, lat, w = [], {}, 0
    else:
        links = topology(rng, np_, rng.choice(TOPOLOGIES))
        unit = rng.random() < 0.35
        lat = {l: (1 if unit else rng.randint(1, 4)) for l in links}
        lmin = min(lat.values())
        w = lmin if rng.random() < 0.6 else rng.randint(1, lmin)
    wq = max(w, 1)
    horizon = rng.randint(5, 12) if style == "dense" else rng.randint(6, 30)
    budget = rng.randint(4, 14) if k % 4 else rng.randint(15, 45)
    end_t = INF if rng.random() < 0.8 else rng.randint(2, horizon)
    if style == "daemons":
        end_t = rng.randint(max(3, horizon // 2), horizon + 2)
    override = {}
    if links and rng.random() < 0.15:
        l = rng.choice(links)
        override[l] = lat[l] + rng.choice([0, 0, 1, 3])
    use_cont = rng.random() < 0.3 and not independent
    evs, cont = [], set()
    out_links = {p: [q for (a, q) in links if a == p] for p in range(1, np_ + 1)}

    def near_boundary():
        b = wq * rng.randint(0, max(1, horizon // wq))
        return max(0, b + rng.choice([-1, 0, 0, 1]))

    # initial events
    idle = rng.choice(range(1, np_ + 1)) if style == "idle" and np_ > 1 else None
    n_init = rng.randint(1, 4) if style != "burst" else rng.randint(3, 7)
    t_burst = rng.randint(0, horizon // 2)
    if style == "dense":
        for p in range(1, np_ + 1):
            evs.append((0, rng.choice(by_part[p]), 0))
    for _ in range(n_init):
        p = rng.choice([q for q in range(1, np_ + 1) if q != idle])
        t = {"burst": t_burst, "boundary": near_boundary()}.get(style, rng.randint(0, horizon))
        evs.append((t, rng.choice(by_part[p]), 0))
    # heartbeat chains keep every partition's clock inside the windows
    hb = set()
    if style == "dense":
        for i in range(1, np_ + 1):
            cur, t, g = i, 0, evs[i - 1][1]
            while t < horizon:
                t += 1
                evs.append((t, g, cur))
                cur = len(evs)
                hb.add(cur)
    # expansion
    i = 0
    while i < len(evs) and len(evs) < budget + len(hb):
        i += 1
        t, g, par = evs[i - 1]
        if i in hb and rng.random() < 0.6:
            continue
        if t >= horizon:
            continue
        p = ep[g - 1]
        has_cont = False
        for _ in range(rng.choice([0, 1, 1, 2, 3] if style != "chainy" else [1, 1, 2])):
            if out_links[p] and rng.random() < (0.6 if style in ("chainy", "boundary") else 0.4):
                q = rng.choice(out_links[p])
                if (p, q) in override:
                    dt = override[(p, q)]
                else:
                    dt = lat[(p, q)] + rng.choice([0, 0, 0, 1, 2, wq, rng.randint(0, 6)])
                evs.append((t + dt, rng.choice(by_part[q]), i))
            else:
                dt = rng.choice([0, 0, 1, 1, 2, 3, wq, wq + 1, max(0, wq - 1), rng.randint(0, 8)])
                if use_cont and not has_cont and dt >= 1 and rng.random() < 0.5:
                    evs.append((t + dt, g, i))
                    cont.add(len(evs))
                    has_cont = True
                else:
                    evs.append((t + dt, rng.choice(by_part[p]), i))
    cby = add_timers(rng, evs, cont) if rng.random() < 0.35 else {}
    daemon = frozenset()
    if end_t != INF and (style == "daemons" or rng.random() < 0.5):
        tail = rng.randint(1, max(1, end_t // 2)) if style == "daemons" and rng.random() < 0.7 else None
        daemon = add_daemons(rng, evs, cont, end_t, tail)
    pre, park = add_futures(rng, evs, cont, cby, daemon) if links and rng.random() < 0.4 else ({}, {})
    prog = Prog(ep=ep, np=np_, links=links, lat=lat, w=w, end_t=end_t, evs=evs, cont=frozenset(cont),
                override=override, real_dist=bool(override) and rng.random() < 0.5, cby=cby, daemon=daemon,
                pre=pre, park=park).canonical()
    prog.check()
    return prog


def random_opts(rng, prog, k):
    tick = TICKS[k % len(TICKS)]
    if prog.cont and not W.exact_delays(prog, tick):
        tick = 1_000_000_000
    return Opts(tick_ns=tick, workers=rng.choice([None, None, 1, 2]), implicit_window=rng.random() < 0.3,
                form=rng.choice(["list", "single"]))


# ---------------------------------------------------------------------------

class Runner:
    def __init__(self, chk: Check):
        self.chk = chk
        self.traces, self.meta = [], {}
        self.foreign = 0
        self.multi_thread = 0
        self.end_time_avoided = 0
        self.nonterminating = 0

    def execute(self, prog: Prog, opts: Opts, origin: str):
        if prog.end_t != INF and not W.roundtrip_ok(prog.end_t * opts.tick_ns):
            # outside the compared programs: the coordinator would spin at end_time (see report)
            self.end_time_avoided += 1
            opts = Opts(tick_ns=10**9, workers=opts.workers, implicit_window=opts.implicit_window, form=opts.form)
        if prog.real_dist and not all(W.latency_roundtrip_ok(v * opts.tick_ns) for v in prog.override.values()):
            opts = Opts(tick_ns=10**9, workers=opts.workers, implicit_window=opts.implicit_window, form=opts.form)
        par = W.run_parallel(prog, opts)
        ref = W.run_sequential(prog, opts) if prog.links else W.run_separate(prog, opts)
        tid = len(self.traces) + 1
        tr = W.make_trace(tid, prog, par, ref)
        self.traces.append(tr)
        kind, detail = W.py_compare(prog, par, ref)
        m = dict(origin=origin, prog=prog_json(prog), opts=vars(opts), py=kind, detail=detail,
                 parallel_log={str(e): par.elog[e] for e in par.elog},
                 reference_log={str(e): ref.elog[e] for e in ref.elog})
        self.meta[tid] = m
        self.chk.impl_steps += sum(len(v) for v in par.elog.values()) + sum(len(v) for v in ref.elog.values())
        if par.foreign:
            self.foreign += 1
        for p, ws in par.precs.items():
            if any(w["thread"] != ws[0]["thread"] for w in ws):
                self.multi_thread += 1
                break
        if ref.error:
            raise RuntimeError(f"reference run raised {ref.error} for {m['prog']}")
        if ref.skips_seq:
            raise RuntimeError(f"reference run discarded events {ref.skips_seq}: program outside the precondition")
        m["error"] = par.error or ""
        if par.error and par.error.startswith(("WindowLimit", "DeliveryLimit")):
            self.nonterminating += 1      # judged on the observed logs only
        return tid, par, ref


def prog_json(p: Prog):
    return dict(ep=p.ep, np=p.np, links=[list(l) for l in p.links],
                lat=[[a, b, v] for (a, b), v in sorted(p.lat.items())], w=p.w, end_t=p.end_t,
                evs=[list(e) for e in p.evs], cont=sorted(p.cont),
                override=[[a, b, v] for (a, b), v in sorted(p.override.items())], real_dist=p.real_dist,
                cby=[[c, b] for c, b in sorted(p.cby.items())], daemon=sorted(p.daemon),
                pre=[[i, k] for i, k in sorted(p.pre.items())], park=[[i, r] for i, r in sorted(p.park.items())])


def prog_from_json(d) -> Prog:
    return Prog(ep=d["ep"], np=d["np"], links=[tuple(l) for l in d["links"]],
                lat={(a, b): v for a, b, v in d["lat"]}, w=d["w"], end_t=d["end_t"],
                evs=[tuple(e) for e in d["evs"]], cont=frozenset(d.get("cont", ())),
                override={(a, b): v for a, b, v in d.get("override", ())}, real_dist=d.get("real_dist", False),
                cby={c: b for c, b in d.get("cby", ())}, daemon=frozenset(d.get("daemon", ())),
                pre={i: k for i, k in d.get("pre", ())}, park={i: r for i, r in d.get("park", ())})


def real_outcome(prog: Prog, par):
    shist = tuple(W.win_pos(par, wdw["end"])[1] for wdw in par.precs[1]) if prog.links else ()
    plog = tuple(tuple(sorted(i for i, _ns in par.elog[e])) for e in sorted(par.elog))
    dropped = tuple(sorted({r[1] for v in par.precs.values() for wdw in v for r in wdw["recs"] if r[0] == "s"}))
    return shist, plog, dropped


def judged_sets(p: Prog, plog):
    """Per-entity delivered ids restricted to the compared range (strictly before a finite end_time)."""
    return tuple(tuple(i for i in ids if p.end_t == INF or p.evs[i - 1][0] < p.end_t) for ids in plog)


def refine_key(key, m):
    """Name the failing shape more precisely when the program goes through SimFuture: the deliveries that
    differ all hang off a handler that was resumed through the active heap (pre-resolved future, free
    Resource, parked handler) / the run raised in such a program."""
    pj = m["prog"]
    fut_parents = {i for i, _k in pj.get("pre", ())} | {r for _i, r in pj.get("park", ())}
    if not fut_parents or key in KNOWN_KEY.values():
        return key
    if key.startswith("run_raised"):
        return key + ":program_resumes_handlers_through_futures"
    par_of = {i: e[2] for i, e in enumerate(pj["evs"], start=1)}

    def under_future(i):
        while i:
            i = par_of[i]
            if i in fut_parents:
                return True
        return False
    got = {(e, i, ns) for e, lg in m["parallel_log"].items() for i, ns in lg}
    want = {(e, i, ns) for e, lg in m["reference_log"].items() for i, ns in lg}
    diff = {i for _e, i, _ns in got ^ want}
    if diff and all(under_future(i) for i in diff):
        return key + ":after_future_resume"
    return key


def trace_consts(code_dev):
    return {"Confs": "{}", "MaxLat": 1, "MaxEv": 1, "MaxT": 1, "MaxOut": 1, "Cancels": "TRUE", "Daemons": "TRUE",
            "ShortWin": '"any"',
            "Interleave": "TRUE", "Dev": tla_set(code_dev)}


def judge(chk: Check, runner: Runner, code_dev, label="C05_trace"):
    from concurrent.futures import ThreadPoolExecutor
    n = len(runner.traces)
    nchunk = max(1, min(6, n // 150))
    parts = [runner.traces[j::nchunk] for j in range(nchunk)]      # strided: long and short traces mixed

    def one(j):
        return tlc.validate_traces(SPEC / "WindowedTrace.tla", parts[j], label=f"{label}_{j}", spec="TSpec",
                                   constants=trace_consts(code_dev), chunk=3000)
    verdicts, results = {}, []
    with ThreadPoolExecutor(max_workers=len(parts)) as pool:
        for v, r in pool.map(one, range(len(parts))):
            verdicts.update(v)
            results.extend(r)
    for r in results:
        chk.add_tlc("WindowedTrace batch", r, note="trace validation (one state per record)")
    chk.impl_traces = len(runner.traces)
    counts = {}
    for tid, (v, pos) in sorted(verdicts.items()):
        m = runner.meta[tid]
        counts[v] = counts.get(v, 0) + 1
        py_ok = m["py"] == "ok"
        tla_ok = v == "ACCEPT" or v.startswith("MODEL:")
        chk.require(py_ok == tla_ok, f"trace {tid}: TLA+ verdict {v} but Python comparison says {m['py']} "
                                     f"({m['detail']}); prog={m['prog']}")
        if v == "ACCEPT":
            continue
        if v.startswith("PROP:"):
            key = KNOWN_KEY.get(v, v[5:])
            if v == "PROP:run_raised":
                key = "run_raised:" + m["error"].split(":")[0]
            key = refine_key(key, m)
            chk.violation(key, f"{v} at record {pos}: {m['detail']} {m['error']} (origin {m['origin']})",
                          {"meta": m, "trace": runner.traces[tid - 1]})
        else:
            chk.note_drift(f"trace {tid} ({m['origin']}): {v}; prog={m['prog']}")
    return counts


def side_checks(chk: Check):
    """Informational (not clauses of the statement): the window-size validation rule exists."""
    from happysimulator.parallel import ParallelSimulation, PartitionLink, SimulationPartition
    import warnings
    w = W.World(Prog(ep=[1, 2], np=2, links=[(1, 2)], lat={(1, 2): 1}, w=1, end_t=INF, evs=[(0, 1, 0)]),
                Opts(), "par")
    parts = [SimulationPartition("P1", entities=[w.nodes[1]]), SimulationPartition("P2", entities=[w.nodes[2]])]
    try:
        with warnings.catch_warnings():
            warnings.simplefilter("ignore")
            ParallelSimulation(parts, links=[PartitionLink("P1", "P2", min_latency=1.0)], window_size=1.5)
        chk.note_drift("validate_partitions accepts window_size > min link latency (the model shows the "
                       "rule is necessary: Dev={no_window_validation} violates InvNoPastDiscard)")
        chk.extra["window_validation_rule"] = "missing"
    except ValueError:
        chk.extra["window_validation_rule"] = "present"


def run(tier, seed, replay=None):
    quiet_logging()
    W.install_capture()
    chk = Check("C05", tier, seed)
    code_dev = as_code_dev()
    if replay:
        return run_replay(chk, replay, code_dev)
    rng = random.Random(seed)
    import time
    t_start = time.time()
    phases = chk.extra.setdefault("phase_wall_s", {})
    # development aid (mutation loops): VERIF_C05_SKIP_MC=1 skips the Dev={} and sensitivity TLC runs
    plan = TlcPlan(tier, code_dev, bool(os.environ.get("VERIF_C05_SKIP_MC")))   # TLC runs in the background
    runner = Runner(chk)

    # ---- code -> spec: random programs (while TLC is running) ---------------------
    t0 = time.time()
    n_rand = 380 if tier == "quick" else 4500
    for k in range(n_rand):
        indep = k % 11 == 10
        p = random_prog(rng, k, independent=indep)
        opts = random_opts(rng, p, k)
        runner.execute(p, opts, "random")
        if k % 5 == 0:      # same program, other pool size / tick: thread interleavings, window shortness
            runner.execute(p, random_opts(rng, p, k + 1 + rng.randint(0, 3)), "random-repeat")
    phases["random_drivers"] = round(time.time() - t0, 1)

    # ---- spec -> code ---------------------------------------------------------------
    t0 = time.time()
    progs, outcomes = plan.programs(chk)
    phases["waited_for_program_generation"] = round(time.time() - t0, 1)
    t0 = time.time()
    keys = sorted(progs)
    cap = 360 if tier == "quick" else 2000
    timers = [k for k in keys if progs[k].cby]
    chosen = keys if len(keys) <= cap else rng.sample(keys, cap - min(len(timers), cap // 4)) + \
        rng.sample(timers, min(len(timers), cap // 4))
    chk.exhaustive = len(set(chosen)) == len(keys)
    matched = unmatched_hist = 0
    variants = [Opts(tick_ns=10**9), Opts(tick_ns=250_250, workers=1), Opts(tick_ns=300_000, form="single")]
    for n, key in enumerate(chosen):
        p = progs[key]
        vs = variants if tier == "thorough" else [variants[0]] + ([variants[1]] if n % 4 == 0 else [])
        for opts in vs:
            tid, par, _ref = runner.execute(p, opts, "model")
            got = real_outcome(p, par)
            same_hist = [o for o in outcomes[key] if o[0] is None or o[0] == got[0]]
            if not same_hist:
                unmatched_hist += 1
            elif any(got[1:] == o[1:] for o in same_hist) or \
                    any(o[0] is None and judged_sets(p, got[1]) == judged_sets(p, o[1]) and not got[2]
                        for o in same_hist):
                matched += 1
            else:
                chk.note_drift(f"final state differs from Windowed.tla: code={got} model={sorted(same_hist, key=str)[:3]} "
                               f"prog={prog_json(p)} tick={opts.tick_ns}")
        chk.replays += 1
    chk.extra["replay_final_state_matched"] = matched
    chk.extra["replay_window_history_outside_generated_set"] = unmatched_hist
    chk.extra["model_programs_total"] = len(keys)
    chk.extra["model_programs_with_timers"] = len(timers)
    # counterexamples of the sensitivity runs, executed on the real code (model artefact or defect?)
    for dev, st in plan.counterexamples(chk):
        try:
            p = Prog.from_state(st)
            if p.links and p.w > min(p.lat.values()):
                continue     # no_window_validation: the real constructor rejects this configuration
            p.check()
        except Exception:   # noqa: BLE001
            continue
        tid, par, ref = runner.execute(p, Opts(tick_ns=10**9), f"counterexample:{dev}")
        chk.replays += 1
        chk.extra.setdefault("counterexamples_on_code", {})[dev] = runner.meta[tid]["py"]
    phases["replay_on_code"] = round(time.time() - t0, 1)

    t0 = time.time()
    counts = judge(chk, runner, code_dev)
    phases["trace_validation"] = round(time.time() - t0, 1)
    t0 = time.time()
    plan.finish_clean(chk)
    phases["waited_for_model_checking"] = round(time.time() - t0, 1)
    phases["total"] = round(time.time() - t_start, 1)
    side_checks(chk)
    chk.extra["verdict_counts"] = counts
    chk.extra["entity_touched_outside_its_partition_window"] = runner.foreign
    chk.extra["partitions_run_by_more_than_one_pool_thread"] = runner.multi_thread
    chk.extra["as_code_deviations"] = code_dev
    chk.extra["end_times_replaced_because_float_roundtrip_would_spin"] = runner.end_time_avoided
    chk.extra["runs_stopped_by_window_watchdog"] = runner.nonterminating
    for t in runner.traces[:2] + runner.traces[-2:]:
        chk.sample({"trace": t, "meta": {k: runner.meta[t["id"]][k] for k in ("origin", "opts", "py")}})
    chk.assumptions = [
        "handlers are functions of the delivered event only (scripted fan-out), so a program means the same "
        "thing under every engine; event types are unique per program event",
        "with a finite end_time only deliveries strictly before end_time are compared (the statement does not "
        "mention end_time; each engine delivers one event beyond it, C01)",
        "daemon events, packet_loss > 0 and sources/probes are outside the compared programs",
        "thread interleavings are sampled (pool sizes 1, 2, n; repeats), not enumerated; the model explores all "
        "interleavings of partition steps and the harness checks that no entity is touched outside its "
        "partition's window call",
        "handlers cancel only pending timers of their own entity that are due strictly later and were created "
        "strictly earlier than the cancelling delivery, so the effect of Event.cancel() does not depend on the "
        "order of equal timestamps",
    ]
    chk.explanation = ("TLC explores Windowed.tla (sequential reference + windowed partitions on the same "
                       "TLC-chosen program) exhaustively within the bounds; every terminal program is built on "
                       "the real ParallelSimulation and Simulation and compared; random larger programs are "
                       "validated step by step by WindowedTrace.tla.")
    return chk.finish()


def run_replay(chk: Check, path, code_dev):
    d = json.loads(open(path).read())
    m = d["replay"]["meta"]
    prog = prog_from_json(m["prog"])
    o = m["opts"]
    runner = Runner(chk)
    for _ in range(3):
        runner.execute(prog, Opts(tick_ns=o["tick_ns"], workers=o["workers"], implicit_window=o["implicit_window"],
                                  form=o["form"]), "replay")
    judge(chk, runner, code_dev)
    return chk.finish()
