"""C15 helper: run writer scripts against the real LSMTree + WriteAheadLog inside a real Simulation,
stop at a delivery count k with sim.control, crash, recover, read, recover again, read again; project
everything into the vocabulary of specs/wal/Wal.tla / WalTrace.tla.

cfg = dict(nw, nk, memsize, policy "every"|"batch"|"periodic", batch, period, WL, SL, ML(=1), FL,
           strat "st"|"lv"|"fifo", thr, base, ratio, maxlev, dev [names])          (latencies in ticks)
scripts = [[{"gap": ticks, "kind": "put"|"del", "key": 1..nk}, ...] per writer]
One tick = 10 us = Memtable's (not configurable) write latency.
"""
from __future__ import annotations

from happysimulator.components.storage import lsm_tree as _lsm
from happysimulator.components.storage.lsm_tree import (FIFOCompaction, LeveledCompaction, LSMTree,
                                                        SizeTieredCompaction)
from happysimulator.components.storage.wal import SyncEveryWrite, SyncOnBatch, SyncPeriodic, WriteAheadLog
from happysimulator.core.entity import Entity
from happysimulator.core.event import Event
from happysimulator.core.simulation import Simulation
from happysimulator.core.temporal import Instant

TICK_NS = 10_000
TOMB = -1
CFG_DEFAULT = dict(nw=2, nk=2, memsize=1, policy="every", batch=2, period=3, WL=1, SL=2, ML=1, FL=3, strat="st",
                   thr=2, base=1, ratio=2, maxlev=3, dev=[])


def exact_latency(ns, mults=(1, 2, 3, 4)):
    """A float number of seconds f with int(k * f * 1e9) == k * ns for the multipliers the code uses."""
    if ns == 0:
        return 0.0
    for eps in (0.0001, 0.001, 0.01, 0.00001, 0.1):
        f = (ns + eps) / 1e9
        if all(int(k * f * 1_000_000_000) == k * ns for k in mults):
            return f
    raise RuntimeError(f"no exact float for {ns} ns")


def key_name(i):
    return f"k{i:02d}"


def enc_val(v):
    if v is None:
        return 0
    if v is _lsm._TOMBSTONE:
        return TOMB
    if isinstance(v, bool):
        return -3
    if isinstance(v, int):
        return v
    return -2


class World:
    def __init__(self, cfg, scripts):
        self.cfg, self.scripts = cfg, scripts
        self.idx = {key_name(i): i for i in range(1, cfg["nk"] + 1)}
        pol = {"every": lambda: SyncEveryWrite(),
               "batch": lambda: SyncOnBatch(batch_size=cfg["batch"]),
               # boundary-safe: "elapsed >= period ticks"  <=>  elapsed_s >= (period - 0.5) ticks
               "periodic": lambda: SyncPeriodic(interval_s=(cfg["period"] - 0.5) * TICK_NS / 1e9)}[cfg["policy"]]()
        self.wal = WriteAheadLog("wal", sync_policy=pol, write_latency=exact_latency(cfg["WL"] * TICK_NS),
                                 sync_latency=exact_latency(cfg["SL"] * TICK_NS))
        strat = {"st": lambda: SizeTieredCompaction(min_sstables=cfg["thr"]),
                 "lv": lambda: LeveledCompaction(level_0_max=cfg["thr"], size_ratio=cfg["ratio"],
                                                 base_size_keys=cfg["base"]),
                 "fifo": lambda: FIFOCompaction(max_total_sstables=cfg["thr"])}[cfg["strat"]]()
        self.lsm = LSMTree("db", memtable_size=cfg["memsize"], compaction_strategy=strat, wal=self.wal,
                           sstable_write_latency=exact_latency(cfg["FL"] * TICK_NS), max_levels=cfg["maxlev"])
        assert cfg.get("ML", 1) == 1
        self.ops = []            # the workload's own log of invoked writes
        self.returned = set()
        self.current = None
        self.dur = 0             # highest sequence whose append's sync completed (observed on the generator)
        self.writers = [_Writer(w + 1, self) for w in range(len(scripts))]
        self._wrap_append()
        self.sim = Simulation(entities=[self.lsm, *self.writers])
        for wr in self.writers:
            self.sim.schedule(Event(time=Instant(0), event_type="go", target=wr))

    def _wrap_append(self):
        """Observe WriteAheadLog.append from outside: which sequence the write got (first segment) and
        whether/when its sync completed (two yields - write latency, sync latency - then return)."""
        wal, world = self.wal, self
        orig = wal.append

        def append(key, value):
            op = world.current
            gen = orig(key, value)
            yields = 0
            try:
                d = next(gen)
                seq = wal._entries[-1].sequence_number if wal._entries else -1
                if op is not None:
                    op["seq"] = seq
                while True:
                    yields += 1
                    yield d
                    d = gen.send(None)
            except StopIteration as stop:
                if yields >= 2:
                    world.dur = max(world.dur, seq)
                return stop.value

        wal.append = append

    def delay(self, k):
        return 0.0 if k == 0 else exact_latency(k * TICK_NS, mults=(1,))

    # -- control ---------------------------------------------------------------------------
    def run_to(self, k):
        """Deliver exactly k events (or all if fewer); returns the number delivered."""
        ctl = self.sim.control
        ctl.pause()
        self.sim.run()
        if k > 0:
            ctl.step(k)
        return self.sim._events_processed

    # -- projections -------------------------------------------------------------------------
    def pairs(self, items):
        return sorted([self.idx.get(k, 99), enc_val(v)] for k, v in items)

    def pre(self):
        s, wal = self.lsm, self.wal
        return {"nops": len(self.ops), "dur": self.dur, "synced": wal.synced_up_to, "next": wal._next_sequence,
                "wss": wal._writes_since_sync, "wal": [e.sequence_number for e in wal._entries],
                "mem": self.pairs(s._memtable._data.items()),
                "imm": [len(im._data) for im in s._immutable_memtables],
                "lv": [[self.pairs(zip(t._keys, t._values)) for t in level] for level in s._levels]}

    def reads(self):
        return [enc_val(self.lsm.get_sync(key_name(i))) for i in range(1, self.cfg["nk"] + 1)]

    def crash_recover(self):
        """crash(); recover_from_crash(); read every key; recover_from_crash(); read every key."""
        o = {}
        self.lsm.crash()
        o["walc"] = [e.sequence_number for e in self.wal._entries]
        self.lsm.recover_from_crash()
        o["mem1"] = self.pairs(self.lsm._memtable._data.items())
        o["r1"] = self.reads()
        self.lsm.recover_from_crash()
        o["r2"] = self.reads()
        return o


class _Writer(Entity):
    def __init__(self, w, world):
        super().__init__(f"writer{w}")
        self.w, self.world = w, world

    def handle_event(self, event):
        wd = self.world
        for st in wd.scripts[self.w - 1]:
            yield wd.delay(st["gap"])
            j = len(wd.ops) + 1
            op = {"w": self.w, "kind": st["kind"], "key": st["key"], "val": j if st["kind"] == "put" else TOMB,
                  "seq": -1, "bef": sorted(wd.returned)}
            wd.ops.append(op)
            wd.current = op
            if st["kind"] == "put":
                yield from wd.lsm.put(key_name(st["key"]), j)
            else:
                yield from wd.lsm.delete(key_name(st["key"]))
            wd.returned.add(j)


def total_events(cfg, scripts):
    w = World(cfg, scripts)
    return w.run_to(10 ** 9), w


def sweep(tid, cfg, scripts, positions=None):
    """One trace: the workload executed once per crash position on a freshly rebuilt simulation."""
    E, wfull = total_events(cfg, scripts)
    full = positions is None
    pos = list(range(E + 1)) if full else sorted({p for p in positions if 0 <= p <= E})
    obs, notes = [], []
    for k in pos:
        w = World(cfg, scripts)
        done = w.run_to(k)
        if done != k:
            notes.append(f"position {k}: engine delivered {done}")
        if w.ops != wfull.ops[:len(w.ops)]:
            notes.append(f"position {k}: write log is not a prefix of the full run's")
        o = w.pre()
        o.update(w.crash_recover())
        obs.append(o)
    c = dict(CFG_DEFAULT)
    c.update(cfg)
    return {"id": tid, "cfg": c, "script": scripts, "selfscan": 0, "ops": wfull.ops, "E": E, "full": 1 if full else 0,
            "pos": pos, "obs": obs}, notes
