"""C02 — generator processes and futures: right instant, right value, once."""
from __future__ import annotations

import random

from happysimulator.core.entity import Entity
from happysimulator.core.event import Event
from happysimulator.core.sim_future import SimFuture, all_of, any_of
from happysimulator.core.simulation import Simulation
from happysimulator.core.temporal import Instant

from .. import tlc
from ..common import Check, load_known
from ..probe import quiet_logging

SPEC = tlc.SPECS / "engine"
INVS = ["InvDelay", "InvDelayLive", "InvSide", "InvSideLive", "InvFinish", "InvFinishLive", "InvFuture",
        "InvFutureLive", "InvAny", "InvAll", "InvCompResume"]
DEVIATIONS = {"anyof_argorder_preresolved": "InvAny"}


def as_code_dev():
    return sorted({e["deviation"] for e in load_known().get("open", [])
                   if e["property"] == "C02" and e.get("deviation")})


def mc_consts(np_, nf, max_len, max_res, comps, dev=(), max_d=2, max_t=2):
    return {"MCNP": np_, "MCNF": nf, "MaxLen": max_len, "MaxD": max_d, "MaxT": max_t, "MaxRes": max_res,
            "CompSpace": f"<- {comps}", "Dev": "{" + ",".join(f'"{d}"' for d in dev) + "}"}


# ---------------------------------------------------------------------------
# real-code side

def enc(v):
    if v is None:
        return []
    if isinstance(v, bool):
        return [555555]
    if isinstance(v, int):
        return [v]
    if isinstance(v, tuple) and len(v) == 2 and isinstance(v[0], int):
        return [-1, v[0]] + enc(v[1])
    if isinstance(v, list):
        out = [-2, len(v)]
        for x in v:
            out += enc(x)
        return out
    return [666666]


class ProcWorld:
    def __init__(self, prog, tick_ns, nest_rng=None):
        self.prog = prog
        self.tick_ns = tick_ns
        self.tick_s = tick_ns / 1e9
        nf = prog["nf"]
        self.futs = {f: SimFuture() for f in range(1, nf + 1)}
        self.obs = [[] for _ in prog["start"]]
        self.marks = []
        self.hooks = []
        self.late_hooks = {}
        self.no_events = []          # a user-owned constant: the engine must never write into it
        self.nest_rng = nest_rng
        self.sink = _Sink(self)
        self.procs = [_Proc(p + 1, self) for p in range(len(prog["start"]))]

    def ticks(self, ns):
        q, r = divmod(ns, self.tick_ns)
        return q if r == 0 else 777777

    def future(self, f):
        if f in self.futs:
            return self.futs[f]
        c = self.prog["comps"][f - self.prog["nf"] - 1]
        ins = [self.future(i) for i in c["ins"]]
        fut = any_of(*ins) if c["kind"] == "any" else all_of(*ins)
        self.futs[f] = fut
        return fut

    def delay(self, k):
        d = k * self.tick_s
        if int(d * 1_000_000_000) != k * self.tick_ns:     # pick a float that converts exactly
            d = (k * self.tick_ns + 0.5) / 1e9
            assert int(d * 1_000_000_000) == k * self.tick_ns
        return d

    def build(self):
        ents = [self.sink, *self.procs]
        sim = Simulation(entities=ents)
        for p, t in enumerate(self.prog["start"], start=1):
            ev = Event(time=Instant(t * self.tick_ns), event_type=f"start{p}", target=self.procs[p - 1])
            hook = lambda when, p=p: self.hooks.append([p, self.ticks(when.nanoseconds)])
            mode = 0 if self.nest_rng is None else self.nest_rng.randrange(2)
            if mode == 0:
                ev.add_completion_hook(hook)            # before the event is scheduled
            else:
                # 1: by the process itself in its first segment (after the process has started)
                self.late_hooks[p] = (mode, ev, hook)
            sim.schedule(ev)
            if mode == 2:
                sim.schedule(Event.once(time=Instant(t * self.tick_ns), event_type="hook",
                                        fn=lambda e, ev=ev, hook=hook: ev.add_completion_hook(hook)))
        for (t, f, v) in self.prog["res"]:
            sim.schedule(Event.once(time=Instant(t * self.tick_ns), event_type="res",
                                    fn=lambda e, f=f, v=v: self.futs[f].resolve(v)))
        return sim


class _Sink(Entity):
    def __init__(self, w):
        super().__init__("sink")
        self.w = w

    def handle_event(self, event):
        md = event.context["metadata"]
        self.w.marks.append([md["p"], md["tag"], self.w.ticks(self.now.nanoseconds)])
        return None


class _Proc(Entity):
    def __init__(self, p, w):
        super().__init__(f"proc{p}")
        self.p = p
        self.w = w

    def mark(self, tag, off):
        return Event(time=Instant(self.now.nanoseconds + off * self.w.tick_ns), event_type="mark",
                     target=self.w.sink, context={"metadata": {"p": self.p, "tag": tag}})

    def handle_event(self, event):
        return self.first(event)

    def first(self, event):
        late = self.w.late_hooks.get(self.p)
        if late is not None and late[0] == 1:
            event.add_completion_hook(late[2])      # added after the process has started
        return (yield from self.body(self.w.prog["script"][self.p - 1], 0, None))

    def body(self, steps, base, recv):
        """Generator following steps[base:], optionally delegating a suffix via `yield from`."""
        w = self.w
        n = base
        while True:
            w.obs[self.p - 1].append({"t": w.ticks(self.now.nanoseconds), "v": enc(recv)})
            s = steps[n]
            n += 1
            k = s["k"]
            if k == "D":
                if w.nest_rng is not None and w.nest_rng.random() < 0.35:
                    # `yield delay, NO_EVENTS` with one list object shared by every yield of every process
                    recv = yield (w.delay(s["a"]), w.no_events)
                else:
                    d = w.delay(s["a"])
                    if w.nest_rng is not None and d == int(d) and w.nest_rng.random() < 0.5:
                        d = int(d)                      # a bare integer number of seconds
                    recv = yield d
            elif k == "DE":
                form = 0 if w.nest_rng is None else w.nest_rng.randrange(3)
                ev = self.mark(n, s["b"])
                recv = yield (w.delay(s["a"]), [ev] if form == 0 else ev if form == 1 else [ev])
            elif k == "F":
                recv = yield w.future(s["a"])
            elif k == "E":
                return [self.mark(99, 0)] if s["a"] == 1 else None
            if w.nest_rng is not None and n < len(steps) and w.nest_rng.random() < 0.4:
                return (yield from self.sub(steps, n, recv))

    def sub(self, steps, base, recv):
        return (yield from self.body(steps, base, recv))


def run_real(prog, tick_ns, nest_rng=None):
    w = ProcWorld(prog, tick_ns, nest_rng)
    err = None
    sim = w.build()
    try:
        sim.run()
    except Exception as ex:
        err = f"{type(ex).__name__}: {ex}"
    return w, err


def to_trace(tid, prog, w):
    return {"id": tid, "nf": prog["nf"], "start": prog["start"], "res": prog["res"], "comps": prog["comps"],
            "script": prog["script"], "obs": w.obs, "marks": w.marks, "hooks": w.hooks}


# ---------------------------------------------------------------------------
# program sources

def prog_from_state(st):
    pr = st["prog"]
    scripts = []
    for sc in st["script"]:
        steps = [dict(k=s["k"], a=s["a"], b=s["b"]) for s in sc]
        if not steps or steps[-1]["k"] != "E":
            steps.append(dict(k="E", a=0, b=0))
        scripts.append(steps)
    return {"nf": pr["nf"], "start": list(pr["start"]), "res": [list(r) for r in pr["res"]],
            "comps": [dict(kind=c["kind"], ins=list(c["ins"])) for c in pr["comps"]], "script": scripts}


def legal(prog):
    """Programs must respect the API's own rules: a future is yielded by at most one process at a time
    (conservatively: at most once overall unless resolved semantics make it safe), composites once."""
    seen = set()
    for sc in prog["script"]:
        for s in sc:
            if s["k"] == "F":
                if s["a"] in seen:
                    return False
                seen.add(s["a"])
    return True


def random_prog(rng):
    nf = rng.randint(1, 4)
    np_ = rng.randint(1, 3)
    comps = []
    for _ in range(rng.randint(0, 3)):
        pool = list(range(1, nf + len(comps) + 1))
        k = rng.randint(2, min(3, len(pool))) if len(pool) >= 2 else 0
        if k < 2:
            break
        comps.append(dict(kind=rng.choice(("any", "all")), ins=rng.sample(pool, k)))
    ids = list(range(1, nf + len(comps) + 1))
    rng.shuffle(ids)
    scripts = []
    for _ in range(np_):
        steps = []
        for _ in range(rng.randint(0, 5)):
            r = rng.random()
            if r < 0.35:
                steps.append(dict(k="D", a=rng.choice((0, 0, 1, 2, 3)), b=0))
            elif r < 0.6:
                steps.append(dict(k="DE", a=rng.choice((0, 1, 2)), b=rng.choice((0, 0, 1, 2))))
            elif ids:
                steps.append(dict(k="F", a=ids.pop(), b=0))
        steps.append(dict(k="E", a=rng.randint(0, 1), b=0))
        scripts.append(steps)
    res = sorted(([rng.randint(0, 6), rng.randint(1, nf), 0] for _ in range(rng.randint(0, 6))),
                 key=lambda r: r[0])
    for i, r in enumerate(res):
        r[2] = 0 if i % 3 == 1 else 10 + i + 1          # falsy payloads are values too
    return {"nf": nf, "start": [rng.randint(0, 3) for _ in range(np_)], "res": res, "comps": comps,
            "script": scripts}


# ---------------------------------------------------------------------------

def model_check(chk, tier):
    wd = tlc.workdir("C02_mc")
    if tier == "quick":
        cfgs = [("2proc_flat", mc_consts(2, 2, 1, 2, "MCCompsFlat")),
                ("1proc_nested", mc_consts(1, 3, 2, 2, "MCCompsNested"))]
    else:
        cfgs = [("2proc_flat", mc_consts(2, 2, 1, 3, "MCCompsFlat")),
                ("1proc_nested", mc_consts(1, 3, 3, 2, "MCCompsNested")),
                ("1proc_flat_deep", mc_consts(1, 2, 3, 3, "MCCompsFlat", max_d=2))]
    for name, c in cfgs:
        cfg = tlc.write_cfg(wd / f"{name}.cfg", constants=c, invariants=INVS, properties=["ValueStable"])
        res = tlc.run(SPEC / "ProcessMC.tla", cfg, label="C02_mc", timeout=3000)
        chk.add_tlc(f"Process Dev={{}} {name}", res)
        chk.require(res.ok, f"Process.tla with Dev={{}} violates {res.violated}")
    for dev, inv in DEVIATIONS.items():
        cfg = tlc.write_cfg(wd / f"dev_{dev}.cfg", constants=mc_consts(1, 2, 1, 2, "MCCompsFlat", dev=[dev]),
                            invariants=INVS)
        res = tlc.run(SPEC / "ProcessMC.tla", cfg, label="C02_mc", timeout=600)
        chk.add_tlc(f"Process Dev={{{dev}}}", res, count=False, note="sensitivity run, must violate")
        chk.require(res.violated == inv, f"deviation {dev} not caught (got {res.violated})")
        chk.sensitivity[dev] = res.violated


def model_programs(chk, tier):
    wd = tlc.workdir("C02_gen")
    progs, seen = [], set()
    confs = [mc_consts(1, 2, 2, 2, "MCCompsFlat", dev=as_code_dev(), max_d=1, max_t=1)]
    if tier == "thorough":
        confs.append(mc_consts(2, 2, 1, 2, "MCCompsFlat", dev=as_code_dev(), max_d=1, max_t=1))
        confs.append(mc_consts(1, 3, 2, 2, "MCCompsNested", dev=as_code_dev(), max_d=1, max_t=1))
    for c in confs:
        cfg = tlc.write_cfg(wd / "gen.cfg", constants=c)
        res = tlc.run(SPEC / "ProcessMC.tla", cfg, label="C02_gen", extra=["-dump", str(wd / "states")],
                      timeout=3000)
        chk.add_tlc("program enumeration", res, count=False, note="terminal states enumerate programs")
        for st in tlc.parse_dump(wd / "states.dump", must_contain="heap |-> {}"):
            p = prog_from_state(st)
            key = repr(p)
            if key not in seen:
                seen.add(key)
                progs.append(p)
        (wd / "states.dump").unlink(missing_ok=True)
    return progs


TICKS = (1000, 100, 10**6, 10**9, 3600 * 10**9, 1)


def trace_cfg(wd, dev):
    return tlc.write_cfg(wd / "trace.cfg", spec="TSpec", constants={
        "Dev": "{" + ",".join(f'"{d}"' for d in dev) + "}", "MaxLen": 0, "MaxD": 0, "MaxT": 0, "MaxRes": 0,
        "CompSpace": "{}", "MCNP": 0, "MCNF": 0})


def validate(traces, dev, label):
    import json
    wd = tlc.WORK / label
    wd.mkdir(parents=True, exist_ok=True)
    cfg = trace_cfg(wd, dev)
    verdicts, results = {}, []
    for k in range(0, len(traces), 3000):
        part = traces[k:k + 3000]
        f = wd / "traces.json"
        f.write_text(json.dumps(part, separators=(",", ":")))
        res = tlc.run(SPEC / "ProcessTrace.tla", cfg, label=label, workers=1, timeout=3000,
                      env={"TRACE_FILE": str(f)})
        results.append(res)
        for v in res.printed:
            if isinstance(v, tuple) and len(v) == 5 and v[0] == "V":
                verdicts[v[1]] = (v[2], v[3], v[4])
        miss = [t["id"] for t in part if t["id"] not in verdicts]
        if miss:
            raise tlc.TLCFailure(f"{label}: no verdict for traces {miss[:3]} (see {wd/'tlc.out'})")
    return verdicts, results


def run(tier, seed, replay=None):
    quiet_logging()
    chk = Check("C02", tier, seed)
    rng = random.Random(seed)
    if replay:
        return do_replay(chk, replay)
    model_check(chk, tier)

    traces, meta = [], {}

    def execute(prog, origin, tick_ns, nest):
        w, err = run_real(prog, tick_ns, random.Random(rng.random()) if nest else None)
        tid = len(traces) + 1
        traces.append(to_trace(tid, prog, w))
        meta[tid] = dict(origin=origin, tick_ns=tick_ns, yield_from=nest)
        chk.impl_steps += sum(len(o) for o in w.obs)
        if err:
            chk.violation(f"exception:{err.split(':')[0]}", f"real engine raised {err}",
                          {"meta": meta[tid], "trace": traces[-1]})

    progs = [p for p in model_programs(chk, tier) if legal(p)]
    cap = 2500 if tier == "quick" else len(progs)
    chosen = progs if len(progs) <= cap else rng.sample(progs, cap)
    chk.exhaustive = len(chosen) == len(progs)
    chk.extra["model_programs_total"] = len(progs)
    for i, p in enumerate(chosen):
        execute(p, "model", TICKS[i % len(TICKS)], nest=(i % 2 == 1))
        chk.replays += 1
    n_rand = 1500 if tier == "quick" else 12000
    made = 0
    while made < n_rand:
        p = random_prog(rng)
        if not legal(p):
            continue
        execute(p, "random", TICKS[made % len(TICKS)], nest=(made % 3 != 0))
        made += 1

    verdicts, results = validate(traces, [], "C02_trace")
    for r in results:
        chk.add_tlc("ProcessTrace batch (contract oracle, Dev={})", r)
    chk.impl_traces = len(traces)
    failing = [tid for tid, v in verdicts.items() if v[0] != "ACCEPT"]
    known_dev = as_code_dev()
    explained = {}
    if failing and known_dev:
        # R4: is the failure exactly what the model predicts with the known deviations switched on?
        sub = [traces[tid - 1] for tid in failing]
        v2, r2 = validate(sub, known_dev, "C02_trace_dev")
        for r in r2:
            chk.add_tlc(f"ProcessTrace batch Dev={known_dev}", r, count=False)
        explained = {tid for tid in failing if v2[tid][0] == "ACCEPT"}
    for tid in failing:
        v = verdicts[tid]
        key = known_dev[0] if tid in explained else v[0][5:] if v[0].startswith("PROP:") else None
        if key is None:
            chk.note_drift(f"trace {tid}: {v}")
            continue
        chk.violation(key, f"{v[0]} process {v[1]} segment {v[2]}", {"meta": meta[tid], "trace": traces[tid - 1]})
    for t in traces[:1] + traces[-1:]:
        chk.sample({"trace": t, "meta": meta[t["id"]]})
    chk.assumptions = [
        "delays are multiples of a tick whose float-seconds value converts to nanoseconds exactly "
        "(float truncation inside Instant arithmetic is outside the model)",
        "each future is yielded by at most one process (API rule)",
        "same-instant order of resolver events is their creation order (C01)",
    ]
    return chk.finish()


def do_replay(chk, path):
    """Re-execute a saved program on the real engine and judge it again with ProcessTrace.tla."""
    import json
    data = json.loads(open(path).read())["replay"]
    t, m = data["trace"], data.get("meta", {})
    prog = {k: t[k] for k in ("nf", "start", "res", "comps", "script")}
    w, err = run_real(prog, m.get("tick_ns", 1000), random.Random(1) if m.get("yield_from") else None)
    tr = to_trace(1, prog, w)
    verdicts, results = validate([tr], [], "C02_replay")
    for r in results:
        chk.add_tlc("ProcessTrace replay", r)
    chk.impl_traces = 1
    v = verdicts[1]
    if err:
        chk.violation(f"exception:{err.split(':')[0]}", f"real engine raised {err}", {"meta": m, "trace": tr})
    if v[0].startswith("PROP:"):
        chk.violation(v[0][5:], f"{v[0]} process {v[1]} segment {v[2]}", {"meta": m, "trace": tr})
    elif v[0] != "ACCEPT":
        chk.note_drift(f"replay: {v}")
    chk.sample({"trace": tr})
    return chk.finish()
