"""C13 helper: real MembershipProtocol clusters under harness control, and the recorder that turns what
the real objects did into the step vocabulary of specs/swim/SwimTrace.tla.

Two embeddings of the same real objects:
  * SimWorld  the nodes inside an unmodified Simulation (real event loop, real Network + NetworkLink
              routing, scripted per-message latencies, CrashNode through a FaultSchedule, gossip injected as
              ordinary MembershipPing events).  sim.control.on_event re-projects every node after every
              processed event.
  * World     direct drive: real nodes + real Network/NetworkLink objects; the harness owns the clock and
              the agenda (pending timer events, suspended Network.handle_event generators) and chooses the
              order of same-instant events, the delays, the shuffles and (optionally) the detector answers -
              either following a TLC behaviour of SwimMC.tla or a seeded policy.  It is always a legal
              discrete-event execution: nothing fires before its time and nothing due is skipped.

random.shuffle is forced / recorded by replacing the name `random` inside the membership module (harness
process only) for the duration of a run.
"""
from __future__ import annotations

import math
import random

from happysimulator.components.consensus import membership as M
from happysimulator.components.consensus.membership import MembershipProtocol, MemberState
from happysimulator.components.consensus.phi_accrual_detector import PhiAccrualDetector
from happysimulator.components.network.link import NetworkLink
from happysimulator.components.network.network import Network
from happysimulator.core.clock import Clock
from happysimulator.core.event import Event
from happysimulator.core.temporal import Duration, Instant
from happysimulator.distributions.latency_distribution import LatencyDistribution
from happysimulator.faults.fault import FaultContext
from happysimulator.faults.node_faults import CrashNode

TICK, PING, ACK, ATMR, STMR = ("MembershipProbeTick", "MembershipPing", "MembershipAck",
                               "MembershipIndirectPing", "MembershipSuspicionTimeout")
VIEW = {MemberState.ALIVE: "A", MemberState.SUSPECT: "S", MemberState.DEAD: "D"}
NOHB = -1
MIN_STD = 0.1           # PhiAccrualDetector default min_std (seconds), not configurable through the protocol


def exact_seconds(ns: int) -> float:
    """A float x with int(x * 1e9) == ns (the conversion used by Instant.__add__(float))."""
    x = ns / 1e9
    while int(x * 1_000_000_000) < ns:
        x = math.nextafter(x, math.inf)
    while int(x * 1_000_000_000) > ns:
        x = math.nextafter(x, -math.inf)
    assert int(x * 1_000_000_000) == ns
    return x


class _ExactDuration(Duration):
    def to_seconds(self) -> float:
        return exact_seconds(self.nanoseconds)


class ScriptedLatency(LatencyDistribution):
    """Per-message delay (in ns) supplied by a callback; the link waits exactly that long."""

    def __init__(self, draw_ns):
        super().__init__(0.0)
        self.draw_ns = draw_ns

    def get_latency(self, current_time):
        return _ExactDuration(int(self.draw_ns()))


class ScriptedDetector(PhiAccrualDetector):
    """Real detector whose threshold answer can be forced for one probe tick (abstract-phi replays)."""
    forced = None

    def is_available(self, now_s: float) -> bool:
        if self.forced is not None:
            return not self.forced
        return super().is_available(now_s)


# ---------------------------------------------------------------------------
# phi envelope of the real detector (used as Lo/Hi of traces recorded with real detectors)

def phi_of_y(y: float) -> float:
    p = 0.5 * math.erfc(y / math.sqrt(2))
    return float("inf") if p <= 0 else -math.log10(p)


def z_of_threshold(thr: float) -> float:
    """Smallest y with phi(y) >= thr (phi is non-decreasing in y)."""
    lo, hi = -50.0, 50.0
    if phi_of_y(lo) >= thr:
        return lo
    for _ in range(200):
        mid = (lo + hi) / 2
        if phi_of_y(mid) >= thr:
            hi = mid
        else:
            lo = mid
    return hi


def real_envelope(n: int, interval_s: float, delay_s: float, thr: float):
    """(lo_s, hi_s): with every inter-heartbeat gap of a peer in (0, G], G = (2n-3)*I + D (healthy network,
    nobody DEAD), the detector's window mean is in (0, G] and its std in [0, G/2]; phi >= thr exactly when
    elapsed >= mean + z * max(std, min_std)."""
    z = z_of_threshold(thr)
    g = (2 * n - 3) * interval_s + delay_s
    if z >= 0:
        return z * MIN_STD, g + z * max(g / 2, MIN_STD)
    return -1.0, g


# ---------------------------------------------------------------------------

class Cfg:
    """One cluster configuration, all durations in ticks of unit_ns nanoseconds."""

    def __init__(self, n, I, S, K, D, unit_ns, thr=8.0, Lo=None, Hi=None, scripted=False, offsets=None, window=None):
        self.n, self.I, self.S, self.K, self.D, self.unit_ns, self.thr = n, I, S, K, D, unit_ns, thr
        self.scripted = scripted
        self.window = window        # max_sample_size of the (real) detectors; None = what the protocol builds
        self.offsets = list(offsets) if offsets else [0] * n
        self.interval_s = exact_seconds(I * unit_ns)
        self.susp_s = exact_seconds(S * unit_ns)
        half_ns = int(self.interval_s * 0.5 * 1_000_000_000)       # what the code computes for the ack timeout
        if half_ns % unit_ns:
            raise ValueError("ack timeout is not a whole number of ticks")
        self.half = half_ns // unit_ns
        if Lo is None:
            lo_s, hi_s = real_envelope(n, I * unit_ns / 1e9, D * unit_ns / 1e9, thr)
            slack = 2 + (I * (2 * n)) // 1_000_000          # float rounding of elapsed / mean / std
            Lo = max(0, math.floor(lo_s * 1e9 / unit_ns) - slack)
            Hi = math.ceil(hi_s * 1e9 / unit_ns) + slack
        self.Lo, self.Hi = Lo, Hi
        # completeness deadline after the stop: in-flight heartbeats (D) + envelope (Hi) + the next probe tick (I);
        # an observer that had not yet started probing when the member stopped counts its rounds from its start()
        self.bound = D + Hi + I + max(self.offsets)

    def P(self):
        return {"n": self.n, "I": self.I, "half": self.half, "S": self.S, "D": self.D, "Lo": self.Lo,
                "Hi": self.Hi, "K": self.K, "bound": self.bound}

    def healthy(self):
        return 2 * self.D < self.half


def node_name(i):
    return f"m{i}"


class _FakeRandom:
    """Stands in for the `random` module inside membership.py: shuffle is decided by the world."""

    def __init__(self, world):
        self.world = world

    def shuffle(self, lst):
        self.world._shuffle(lst)

    def __getattr__(self, name):            # anything else: the real module
        return getattr(random, name)


class Cluster:
    """N real MembershipProtocol nodes + real Network; projection, encoding and step recording."""

    def __init__(self, cfg: Cfg, node_cls=MembershipProtocol):
        self.cfg = cfg
        n = cfg.n
        self.n = n
        self.net = Network(name="net")
        self.nodes = {i: node_cls(name=node_name(i), network=self.net, probe_interval=cfg.interval_s,
                                  suspicion_timeout=cfg.susp_s, indirect_probe_count=cfg.K,
                                  phi_threshold=cfg.thr)
                      for i in range(1, n + 1)}
        self.idx = {node_name(i): i for i in range(1, n + 1)}
        for i in range(1, n + 1):
            for j in range(1, n + 1):
                if i != j:
                    self.nodes[i].add_member(self.nodes[j])
        if cfg.scripted:
            for nd in self.nodes.values():
                for info in nd._members.values():
                    det = ScriptedDetector(threshold=cfg.thr, initial_interval=cfg.interval_s)
                    info.detector = det
        elif cfg.window:
            # the real detector with a small interval window (a documented constructor parameter the protocol
            # does not expose): the window overflows after a few heartbeats instead of after 200
            for nd in self.nodes.values():
                for info in nd._members.values():
                    info.detector = PhiAccrualDetector(threshold=cfg.thr, max_sample_size=cfg.window,
                                                       initial_interval=cfg.interval_s)
        self.steps = []
        self.notes = []             # python-level observations outside the step vocabulary
        self.shuffle_ctx = None     # (node index, kind) of the handler being run
        self.stopped = set()
        self.last = {}
        self._saved_random = None

    # -- time -----------------------------------------------------------------
    def ticks(self, ns: int) -> int:
        q, r = divmod(int(ns), self.cfg.unit_ns)
        if r:
            self.notes.append(f"instant {ns} ns is not a whole number of ticks")
        return q

    def ticks_of_seconds(self, s: float) -> int:
        return self.ticks(round(s * 1e9))

    # -- projection -------------------------------------------------------------
    def proj(self, i):
        nd = self.nodes[i]
        view, inc, hb, pend = [], [], [], []
        for j in range(1, self.n + 1):
            if j == i:
                view.append("-"); inc.append(0); hb.append(NOHB); pend.append([0, 0])
                continue
            name = node_name(j)
            view.append(VIEW.get(nd.get_member_state(name), "?"))
            info = nd._members.get(name)
            inc.append(int(info.incarnation) if info is not None else -1)
            lh = info.detector.last_heartbeat if info is not None else None
            hb.append(NOHB if lh is None else self.ticks_of_seconds(lh))
            ev = nd._pending_acks.get(name)
            if ev is None or ev.cancelled:
                pend.append([0, 0])
            else:
                k = 1 if ev.event_type == ATMR else 2 if ev.event_type == STMR else 9
                pend.append([k, self.ticks(ev.time.nanoseconds)])
        ups = [[self.idx.get(u.get("member"), 0), str(u.get("state")), int(u.get("incarnation", 0))]
               for u in nd._pending_updates]
        order = [self.idx.get(x, 0) for x in nd._probe_order]
        return {"view": view, "inc": inc, "hb": hb, "pend": pend, "ups": ups, "order": order,
                "idx": int(nd._probe_index)}

    def encode(self, ev):
        md = ev.context["metadata"]
        t = "ping" if ev.event_type == PING else "ack" if ev.event_type == ACK else "?"
        frm = md.get("from")
        if frm is not None and md.get("source") is not None and frm != md.get("source"):
            self.notes.append("message 'from' differs from routing source")
        if md.get("incarnation", 0) != 0:
            self.notes.append("sender incarnation is not 0")
        ups = [[self.idx.get(u.get("member"), 0), str(u.get("state")), int(u.get("incarnation", 0))]
               for u in md.get("updates", [])]
        return {"t": t, "src": self.idx.get(frm, 0) if frm is not None else 0,
                "dst": self.idx.get(md.get("destination"), 0) if md.get("destination") is not None else 0,
                "ind": self.idx.get(md.get("indirect_for"), 0) if md.get("indirect_for") else 0, "ups": ups}

    # -- step recording -----------------------------------------------------------
    def record_handler(self, i, event, produced, now_ticks):
        et = event.event_type
        md = event.context.get("metadata", {})
        outs = [self.encode(ev) for ev in produced if ev.target is self.net]
        step = {"a": "?", "n": i, "t": now_ticks, "tg": 0, "m": NOMSG, "post": self.proj(i), "out": outs}
        if et == TICK:
            step["a"] = "tick"
        elif et == PING:
            m = self.encode(event)
            m["dst"] = i
            step["a"] = "inj" if m["src"] == 0 else "ping"
            step["m"] = m
        elif et == ACK:
            m = self.encode(event)
            m["dst"] = i
            step["a"], step["m"] = "ack", m
        elif et == ATMR:
            step["a"], step["tg"] = "atmr", self.idx.get(md.get("probe_target"), 0)
        elif et == STMR:
            step["a"], step["tg"] = "stmr", self.idx.get(md.get("suspect"), 0)
        else:
            self.notes.append(f"node handled unknown event type {et}")
            return None
        self.steps.append(step)
        self.last[i] = step["post"]
        return step

    def record_stop(self, i, now_ticks):
        self.stopped.add(i)
        self.steps.append({"a": "stop", "n": i, "t": now_ticks, "tg": 0, "m": NOMSG, "post": self.last[i], "out": []})

    def record_end(self, now_ticks):
        self.steps.append({"a": "end", "n": 1, "t": now_ticks, "tg": 0, "m": NOMSG, "post": self.last[1], "out": []})

    def frame(self, now_ticks, acting=0):
        """Nothing but the recorded handler calls may change a node."""
        for j in self.nodes:
            if j != acting:
                p = self.proj(j)
                if p != self.last[j]:
                    self.steps.append({"a": "frame", "n": j, "t": now_ticks, "tg": 0, "m": NOMSG, "post": p, "out": []})
                    self.last[j] = p

    def trace(self, tid, judge=True):
        """The recorded execution in the (compact) form SwimTrace.tla reads: handler steps carry only the
        projection fields that changed (d) and messages are written as [type, src, dst, ind, ups]."""
        prev = {i: self.init[i - 1] for i in range(1, self.n + 1)}
        out = []
        for s in self.steps:
            a = s["a"]
            if a in ("stop", "end"):
                out.append({"a": a, "n": s["n"], "t": s["t"]})
                continue
            post = s["post"]
            d = {f: v for f, v in post.items() if f == "idx" or prev[s["n"]].get(f) != v}
            prev[s["n"]] = post
            c = {"a": a, "n": s["n"], "t": s["t"], "d": d, "out": [compact_msg(m) for m in s["out"]]}
            if a in ("ping", "ack", "inj"):
                c["m"] = compact_msg(s["m"])
            if a in ("atmr", "stmr"):
                c["tg"] = s["tg"]
            out.append(c)
        return {"id": tid, "P": self.cfg.P(), "judge": bool(judge), "init": self.init, "steps": out}

    # -- shuffle control ------------------------------------------------------------
    def patch_random(self):
        self._saved_random = M.random
        M.random = _FakeRandom(self)

    def unpatch_random(self):
        if self._saved_random is not None:
            M.random = self._saved_random
            self._saved_random = None

    def _shuffle(self, lst):
        raise NotImplementedError


NOMSG = {"t": "none", "src": 0, "dst": 0, "ind": 0, "ups": []}


def compact_msg(m):
    return [{"ping": "p", "ack": "a"}.get(m["t"], m["t"]), m["src"], m["dst"], m["ind"], m["ups"]]


# ---------------------------------------------------------------------------
# the nodes inside a real Simulation

def _rec_node_cls():
    class RecNode(MembershipProtocol):
        """MembershipProtocol whose handler calls are reported to the recorder (no behaviour change)."""
        _rec = None

        def handle_event(self, event):
            rec = self._rec
            if rec is not None:
                rec.before(self, event)
            out = super().handle_event(event)
            if rec is not None:
                rec.after(self, event, out)
            return out
    return RecNode


class SimWorld(Cluster):
    """Real Simulation + Network + links.  `scen` = dict(duration, delay(rng)->ticks, stop=(node, tick)|None,
    inject=[(tick, node, [updates])], shuffle='random'|'reverse'|'sorted'|'rotate')."""

    def __init__(self, cfg: Cfg, rng: random.Random, scen: dict):
        super().__init__(cfg, _rec_node_cls())
        self.rng = rng
        self.scen = scen
        self.draws = 0
        self.max_delay = 0
        for nd in self.nodes.values():
            nd._rec = self
        for a in self.nodes.values():
            for b in self.nodes.values():
                if a is not b:
                    self.net.add_link(a, b, NetworkLink(name=f"{a.name}>{b.name}",
                                                        latency=ScriptedLatency(self._draw_ns)))
        self.sim = None
        self.events_seen = 0
        self.shuffles = 0

    def _draw_ns(self):
        self.draws += 1
        d = int(self.scen["delay"](self.rng))
        self.max_delay = max(self.max_delay, d)
        return d * self.cfg.unit_ns

    def _shuffle(self, lst):
        self.shuffles += 1
        mode = self.scen.get("shuffle", "random")
        if mode == "random":
            self.rng.shuffle(lst)
        elif mode == "reverse":
            lst.reverse()
        elif mode == "sorted":
            lst.sort()
        elif mode == "rotate":
            if lst:
                k = self.shuffles % len(lst)
                lst[:] = sorted(lst)[k:] + sorted(lst)[:k]
        else:
            self.rng.shuffle(lst)

    def run(self):
        from happysimulator.core.simulation import Simulation
        from happysimulator.faults.schedule import FaultSchedule
        cfg, scen = self.cfg, self.scen
        u = cfg.unit_ns
        fs = None
        if scen.get("stop"):
            fs = FaultSchedule()
            i, t = scen["stop"]
            fs.add(CrashNode(node_name(i), at=exact_seconds(t * u)))
        ents = [self.net, *[self.nodes[i] for i in range(1, self.n + 1)]]
        self.patch_random()
        try:
            self.sim = Simulation(duration=exact_seconds(scen["duration"] * u), entities=ents, fault_schedule=fs)
            self.init = [self.proj(i) for i in range(1, self.n + 1)]
            self.last = {i: self.init[i - 1] for i in self.nodes}
            for i in range(1, self.n + 1):
                off = cfg.offsets[i - 1]
                if off == 0:
                    for ev in self.nodes[i].start():
                        self.sim.schedule(ev)
                else:
                    self.sim.schedule(Event.once(time=Instant(off * u), event_type=f"start:{i}", daemon=True,
                                                 fn=lambda e, nd=self.nodes[i]: nd.start()))
            for (t, i, ups) in scen.get("inject", ()):
                upd = [{"member": node_name(m), "state": s, "incarnation": k} for (m, s, k) in ups]
                self.sim.schedule(Event(time=Instant(t * u), event_type=PING, target=self.nodes[i], daemon=True,
                                        context={"metadata": {"updates": upd}}))
            # a frame check may be needed right after start() (the initial shuffle changes _probe_order)
            self.init = [self.proj(i) for i in range(1, self.n + 1)]
            self.last = {i: self.init[i - 1] for i in self.nodes}
            self.sim.control.on_event(self._on_event)
            self.sim.run()
            self.record_end(scen["duration"])
        finally:
            self.unpatch_random()
        return self

    # -- recorder callbacks -----------------------------------------------------
    def before(self, node, event):
        pass

    def after(self, node, event, out):
        i = self.idx[node.name]
        produced = out if isinstance(out, list) else [out] if out is not None else []
        self.record_handler(i, event, produced, self.ticks(node.now.nanoseconds))

    def _on_event(self, event):
        self.events_seen += 1
        et = event.event_type
        now = self.ticks(event.time.nanoseconds)
        if et.startswith("fault.crash:"):
            self.record_stop(self.idx[et.split(":", 1)[1]], now)
        elif et.startswith("start:"):
            # start() of a node with an offset: an environment step of its own (it shuffles the probe order)
            i = int(et.split(":", 1)[1])
            p = self.proj(i)
            self.steps.append({"a": "start", "n": i, "t": now, "tg": 0, "m": NOMSG, "post": p, "out": []})
            self.last[i] = p
        self.frame(now)


# ---------------------------------------------------------------------------
# direct drive

class Policy:
    """Seeded environment choices of a free-running World."""

    def __init__(self, rng, delay=None, order="random", sus_bias=0.5):
        self.rng, self._delay, self.order, self.sus_bias = rng, delay, order, sus_bias

    def delay(self, world, m):
        return self._delay(self.rng) if self._delay else self.rng.randint(0, world.cfg.D)

    def shuffle(self, world, i, kind, items):
        self.rng.shuffle(items)
        return items

    def pick(self, world, due):
        if self.order == "fifo":
            return 0
        if self.order == "lifo":
            return len(due) - 1
        return self.rng.randrange(len(due))

    def sus(self, world, i, may, must):
        return set(must) | {m for m in may if self.rng.random() < self.sus_bias}


class World(Cluster):
    """Direct drive.  agenda items: dict(kind='tick'|'atmr'|'stmr'|'msg', t=due tick, n=target node,
    ev=Event | gen=suspended Network generator, m=message record, seq=creation order)."""

    def __init__(self, cfg: Cfg, policy: Policy, init_orders=None):
        super().__init__(cfg)
        self.policy = policy
        self.clock = Clock(Instant.Epoch)
        self.now = 0
        self.agenda = []
        self.seq = 0
        self.forced_shuffle = None      # list to impose on the next shuffle (behaviour replay)
        self.forced_delays = None       # list of delays for the messages of the handler being run
        for a in self.nodes.values():
            for b in self.nodes.values():
                if a is not b:
                    self.net.add_link(a, b, NetworkLink(name=f"{a.name}>{b.name}", latency=ScriptedLatency(lambda: 0)))
        self.net.set_clock(self.clock)
        for nd in self.nodes.values():
            nd.set_clock(self.clock)
        ctx = FaultContext(entities={nd.name: nd for nd in self.nodes.values()}, networks={"net": self.net},
                           resources={}, start_time=Instant.Epoch)
        self.crash_events = {i: CrashNode(node_name(i), at=0.0).generate_events(ctx)[0] for i in self.nodes}
        self.patch_random()
        try:
            for i in range(1, self.n + 1):
                self._set_now(cfg.offsets[i - 1])
                self.shuffle_ctx = (i, "start")
                if init_orders is not None:
                    self.forced_shuffle = [node_name(j) for j in init_orders[i - 1]]
                for ev in self.nodes[i].start():
                    self._enqueue_timer(i, ev)
                self.forced_shuffle = None
            self._set_now(0)
        except Exception:
            self.unpatch_random()
            raise
        self.init = [self.proj(i) for i in range(1, self.n + 1)]
        self.last = {i: self.init[i - 1] for i in self.nodes}

    def close(self):
        self.unpatch_random()

    # -- plumbing -------------------------------------------------------------------
    def _set_now(self, t):
        self.now = t
        self.clock.update(Instant(t * self.cfg.unit_ns))

    def _shuffle(self, lst):
        i, kind = self.shuffle_ctx if self.shuffle_ctx else (0, "?")
        if self.forced_shuffle is not None:
            want = [x for x in self.forced_shuffle if x in lst]
            rest = [x for x in lst if x not in want]
            if len(want) + len(rest) == len(lst):
                lst[:] = want + rest
                self.forced_shuffle = None
                return
            self.forced_shuffle = None
        items = [self.idx.get(x, 0) for x in lst]
        new = self.policy.shuffle(self, i, kind, list(items))
        lst[:] = [node_name(j) for j in new]

    def _enqueue_timer(self, i, ev):
        kind = {TICK: "tick", ATMR: "atmr", STMR: "stmr"}.get(ev.event_type)
        if kind is None or ev.target is not self.nodes[i]:
            self.notes.append(f"unexpected event {ev.event_type} from node {i}")
            return
        self.seq += 1
        self.agenda.append({"kind": kind, "t": self.ticks(ev.time.nanoseconds), "n": i, "ev": ev, "seq": self.seq})

    def _absorb(self, i, produced):
        k = 0
        for ev in produced:
            if ev.target is self.net:
                m = self.encode(ev)
                if self.forced_delays is not None and k < len(self.forced_delays):
                    d = int(self.forced_delays[k])
                else:
                    d = int(self.policy.delay(self, m))
                k += 1
                g = self.net.handle_event(ev)
                try:
                    next(g)
                except StopIteration:
                    self.notes.append("network dropped a message")
                    continue
                self.seq += 1
                self.agenda.append({"kind": "msg", "t": self.now + d, "n": m["dst"], "gen": g, "m": m, "seq": self.seq,
                                    "sent": self.now})
            else:
                self._enqueue_timer(i, ev)

    def due(self):
        """Live agenda items due now, in creation order; cancelled timers are discarded (lazy deletion) and
        events addressed to a stopped node are invoked for nothing (Event.invoke drops them)."""
        out = []
        for it in sorted(self.agenda, key=lambda x: x["seq"]):
            if it["t"] > self.now:
                continue
            if it["kind"] != "msg" and it["ev"].cancelled:
                self.agenda.remove(it)
                continue
            if it["n"] in self.stopped:
                self.agenda.remove(it)
                self._fire_dropped(it)
                continue
            out.append(it)
        return out

    def _fire_dropped(self, it):
        if it["kind"] == "msg":
            try:
                it["gen"].send(None)
            except StopIteration as st:
                if st.value is not None and st.value.invoke():
                    self.notes.append("stopped node produced events")
        else:
            if it["ev"].invoke():
                self.notes.append("stopped node produced events")

    def next_time(self):
        ts = [it["t"] for it in self.agenda
              if (it["kind"] == "msg" or not it["ev"].cancelled) and it["n"] not in self.stopped]
        return min(ts) if ts else None

    def fire(self, it, sus=None, shuffle=None, delays=None):
        """Run one due agenda item on the real node."""
        self.agenda.remove(it)
        i = it["n"]
        nd = self.nodes[i]
        self.shuffle_ctx = (i, it["kind"])
        self.forced_shuffle = [node_name(j) for j in shuffle] if shuffle else None
        self.forced_delays = delays
        forced = []
        try:
            if it["kind"] == "msg":
                try:
                    it["gen"].send(None)
                    self.notes.append("link generator yielded twice")
                    return None
                except StopIteration as st:
                    ev = st.value
                if ev is None:
                    self.notes.append("link dropped a message")
                    return None
                if ev.target is not nd:
                    self.notes.append("forwarded event targets the wrong entity")
            else:
                ev = it["ev"]
                if it["kind"] == "tick" and self.cfg.scripted:
                    # the forced answers never leave the envelope of what the detector has observably seen
                    # (a behaviour taken from a deviating model may ask for more or less)
                    may, must = self.envelope(i)
                    if sus is None:
                        sus = self.policy.sus(self, i, may, must)
                    sus = (set(sus) & may) | must
                    for name, info in nd._members.items():
                        info.detector.forced = self.idx[name] in sus
                        forced.append(info.detector)
            produced = ev.invoke()
            self._absorb(i, produced)
            step = self.record_handler(i, ev, produced, self.now)
            self.frame(self.now, acting=i)
            return step
        finally:
            for d in forced:
                d.forced = None
            self.forced_shuffle = None
            self.forced_delays = None
            self.shuffle_ctx = None

    def envelope(self, i):
        """(may, must) suspicion sets of node i now, as Swim.tla computes them (as-code: never heard = never)."""
        p = self.last[i]
        may, must = set(), set()
        for j in range(1, self.n + 1):
            if j != i and p["view"][j - 1] == "A" and p["hb"][j - 1] != NOHB:
                el = self.now - p["hb"][j - 1]
                if el >= self.cfg.Lo:
                    may.add(j)
                if el >= self.cfg.Hi:
                    must.add(j)
        return may, must

    # -- environment events ----------------------------------------------------------
    def stop(self, i):
        self.crash_events[i].invoke()
        self.record_stop(i, self.now)
        self.frame(self.now)

    def inject(self, i, ups):
        upd = [{"member": node_name(m), "state": s, "incarnation": k} for (m, s, k) in ups]
        ev = Event(time=self.clock.now, event_type=PING, target=self.nodes[i], daemon=True,
                   context={"metadata": {"updates": upd}})
        self.shuffle_ctx = (i, "inj")
        produced = ev.invoke()
        self._absorb(i, produced)
        self.record_handler(i, ev, produced, self.now)
        self.frame(self.now, acting=i)

    # -- free running ----------------------------------------------------------------
    def run_until(self, horizon, stop=None, inject=()):
        """Seeded legal execution up to `horizon`; stop=(node, tick) and inject=[(tick, node, ups)] are
        applied at the start of their instants (before the events due then)."""
        pending_inj = sorted(inject, key=lambda x: x[0])
        while True:
            cand = [t for t in (self.next_time(), stop[1] if stop else None,
                                pending_inj[0][0] if pending_inj else None) if t is not None]
            if not cand:
                break
            t = max(min(cand), self.now)
            if t > horizon:
                break
            self._set_now(t)
            if stop and stop[1] <= t:
                self.stop(stop[0])
                stop = None
            while pending_inj and pending_inj[0][0] <= t:
                _, i, ups = pending_inj.pop(0)
                if i not in self.stopped:
                    self.inject(i, ups)
            while True:
                d = self.due()
                if not d:
                    break
                self.fire(d[self.policy.pick(self, d)])
        self._set_now(max(self.now, horizon))
        self.record_end(self.now)
