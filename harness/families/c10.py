"""C10 - rate limiters never over-admit; time_until_available is truthful; the rate-limited entity
forwards / queues / drops every request exactly once and forwards in arrival order.

  1. TLC model checking of specs/ratelimit/Limiters.tla (five policies) and Limited.tla (entity):
     contract invariants hold with Dev = {}, every deviation alone is caught (sensitivity).
  2. spec -> code: state-graph tours of both models are executed on the real policy objects /
     a real Simulation with the real RateLimitedEntity; decisions and projections compared.
  3. code -> spec: adversarial seeded drivers (boundary-aligned, ns-adjacent, bursts, float-hostile
     parameters, feedback sequences, pre-scheduled and in-run created arrivals) record real executions;
     LimiterTrace.tla / LimitedTrace.tla judge every one of them with TLC.
  4. known-finding classification by what fails; evidence.
"""
from __future__ import annotations

import json
import os
import random
import shutil
from concurrent.futures import ThreadPoolExecutor

from .. import tlc
from ..common import Check, load_known
from ..probe import quiet_logging
from . import c10_entity as ce
from . import c10_policy as cp

SPEC = tlc.SPECS / "ratelimit"
# many short-lived JVMs run side by side: keep each one's GC / JIT thread pools small
JENV = {"JAVA_TOOL_OPTIONS": "-XX:ParallelGCThreads=2 -XX:CICompilerCount=2"}
RUN = f"C10_{os.getpid()}"        # work-dir prefix: concurrent invocations must not share TLC scratch dirs
KINDS = ("tb", "lb", "sw", "fw", "ad")
POLICY_INVS = {"tb": ["InvBucketBound"], "lb": ["InvLeakySpacing"], "sw": ["InvSlidingWindow"],
               "fw": ["InvFixedAligned", "InvFixed2N"], "ad": ["InvAdaptiveBound", "InvRateRange"]}
TUA_INVS = ["InvTuaZero", "InvTuaTruthful", "InvDrain"]
ENTITY_INVS = ["InvExactlyOnce", "InvAccounting", "InvOrder", "InvPollArmed"]

# deviation -> (policy, invariant that must catch it)
POLICY_DEVS = {
    "tb_refill_uncapped": ("tb", "InvBucketBound"),
    "lb_no_stamp": ("lb", "InvLeakySpacing"),
    "sw_admit_at_limit": ("sw", "InvSlidingWindow"),
    "fw_reset_ge": ("fw", "InvFixedAligned"),
    "fw_tua_full_window": ("fw", "InvTuaTruthful"),
    "ad_rate_unclamped": ("ad", "InvRateRange"),
    "ad_refill_uncapped": ("ad", "InvAdaptiveBound"),
    "tua_no_progress_guard": ("sw", "InvTuaZero"),
    "fw_boundary_floor_tua_zero": ("fw", "InvTuaZero"),
}
ENTITY_DEVS = {
    "admit_bypasses_queue": "InvOrder",
    "poll_pop_before_acquire": "InvExactlyOnce",
    "poll_pops_newest": "InvOrder",
}
# verdict class of the trace specs -> known-finding key
KNOWN_CLASS = {
    "PROP:tua_zero_fw_boundary": "fixed_window_tua_zero_at_boundary",
    "PROP:order_fresh_overtakes_queued": "fresh_admit_overtakes_queued",
}
POLICY_KNOWN_DEV = "fw_boundary_floor_tua_zero"
ENTITY_KNOWN_DEV = "admit_bypasses_queue"

BASE = dict(P=2, C=2, I=2, W=3, N=2, U=4, RMin=1, RMax=4, RInit=2, RStep=4, MaxT=10, MaxOps=6, MaxStep=3,
            DrainK=4)


def as_code_dev():
    return sorted({e["deviation"] for e in load_known().get("open", [])
                   if e["property"] == "C10" and e.get("deviation")})


def devset(dev):
    return "{" + ",".join(f'"{d}"' for d in dev) + "}"


def pconsts(pol, dev=(), **kw):
    c = dict(BASE)
    if pol == "ad":
        c["W"] = 4
    c.update(kw)
    out = dict(c)
    out["Policy"] = f'"{pol}"'
    out["Dev"] = devset(dev)
    return out, c


def econsts(dev=(), **kw):
    c = dict(P=2, C=1, QCap=2, MaxReq=4, MaxT=7)
    c.update(kw)
    out = dict(c)
    out["Dev"] = devset(dev)
    return out, c


# configurations explored per tier: (name, policy, overrides)
def policy_configs(tier):
    q = [("tb_c2p2", "tb", dict()), ("tb_c1p3_i0", "tb", dict(C=1, I=0, P=3)),
         ("lb_p3", "lb", dict(P=3)), ("sw_w3n2", "sw", dict()), ("fw_w3n2", "fw", dict()),
         ("ad_jump", "ad", dict(MaxOps=5, MaxT=8))]
    if tier == "quick":
        return q
    t = [("sw_w4n1", "sw", dict(W=4, N=1)), ("fw_w4n1", "fw", dict(W=4, N=1)),
         ("ad_step1", "ad", dict(MaxOps=5, MaxT=8, RStep=1, RMax=2, RInit=1)),
         ("tb_c3p2", "tb", dict(C=3, I=3, MaxOps=8, MaxT=12)), ("tb_c2p3_i1", "tb", dict(P=3, I=1, MaxOps=8, MaxT=12)),
         ("lb_p2", "lb", dict(MaxOps=8, MaxT=12)), ("lb_p3_deep", "lb", dict(P=3, MaxOps=8, MaxT=12)),
         ("sw_w4n2", "sw", dict(W=4, MaxOps=8, MaxT=12)), ("sw_w3n1", "sw", dict(N=1, MaxOps=8, MaxT=12)),
         ("fw_w4n2", "fw", dict(W=4, MaxOps=8, MaxT=12)), ("fw_w3n1", "fw", dict(N=1, MaxOps=8, MaxT=12)),
         ("ad_jump6", "ad", dict(MaxOps=6, MaxT=9)), ("ad_step1_6", "ad", dict(MaxOps=6, MaxT=9, RStep=1, RMax=2, RInit=1)),
         ("ad_w5", "ad", dict(W=5, MaxOps=6, MaxT=8))]
    return q + t


def entity_configs(tier):
    q = [("e_c1q2", dict()), ("e_c2q1", dict(C=2, QCap=1, MaxReq=4))]
    if tier == "quick":
        return q
    return q + [("e_c1q2_r5", dict(MaxReq=5, MaxT=9)), ("e_c2q2_r5", dict(C=2, MaxReq=5, MaxT=8)),
                ("e_p3", dict(P=3, MaxReq=4, MaxT=9))]


_POOL = None


def _pool():
    """Shared pool of TLC processes: many small models, JVM start dominates, 2 workers each."""
    global _POOL
    if _POOL is None:
        _POOL = ThreadPoolExecutor(max(2, tlc.DEFAULT_WORKERS // 2))
    return _POOL


def _submit(jobs, fn):
    return [_pool().submit(fn, j, 2) for j in jobs]


def _parallel(jobs, fn):
    return [f.result() for f in _submit(jobs, fn)]


def mc_submit(tier):
    wd = tlc.workdir(f"{RUN}_mc")
    jobs = []
    for name, pol, kw in policy_configs(tier):
        consts, _ = pconsts(pol, **kw)
        jobs.append(("clean", name, "Limiters.tla", consts, POLICY_INVS[pol] + TUA_INVS, None))
    for name, kw in entity_configs(tier):
        consts, _ = econsts(**kw)
        jobs.append(("clean", name, "Limited.tla", consts, ENTITY_INVS, None))
    for dev, (pol, inv) in POLICY_DEVS.items():
        consts, _ = pconsts(pol, dev=[dev], MaxOps=5, MaxT=8)
        jobs.append(("dev", dev, "Limiters.tla", consts, [inv], inv))
    consts, _ = pconsts("ad", dev=["tua_no_progress_guard"], MaxOps=5, MaxT=8)
    jobs.append(("dev", "tua_no_progress_guard@ad", "Limiters.tla", consts, ["InvTuaZero"], "InvTuaZero"))
    for dev, inv in ENTITY_DEVS.items():
        # a drain poll is denied only after a bypassing arrival took its token (in exact arithmetic the
        # poll instant is truthful), so the pop-before-acquire deviation is exercised on top of the bypass
        devs = [dev] if dev != "poll_pop_before_acquire" else [ENTITY_KNOWN_DEV, dev]
        consts, _ = econsts(dev=devs)
        jobs.append(("dev", dev, "Limited.tla", consts, [inv], inv))

    def one(job, workers):
        kind, name, module, consts, invs, expect = job
        cfg = tlc.write_cfg(wd / f"{kind}_{name.replace('@', '_')}.cfg", constants=consts, invariants=invs)
        big = consts.get("MaxOps", 0) >= 8 or (consts.get("Policy") == '"ad"' and consts.get("MaxOps", 0) >= 6)
        res = tlc.run(SPEC / module, cfg, label=f"{RUN}_mc_{kind}_{name.replace('@', '_')}", timeout=3000,
                      workers=4 if big else workers, heap="3g", env=JENV)
        return job, res

    # largest models first so that they do not become the long pole of the shared pool
    jobs.sort(key=lambda j: -(j[3].get("MaxOps", 0) * 10 + j[3].get("MaxT", 0)) if j[0] == "clean" else 0)
    return _submit(jobs, one)


def mc_collect(chk: Check, futs):
    cex = []
    for job, res in (f.result() for f in futs):
        kind, name, module, consts, invs, expect = job
        if kind == "clean":
            chk.add_tlc(f"{module[:-4]} Dev={{}} {name}", res)
            chk.require(res.ok, f"{module} {name} with Dev={{}} violates {res.violated}: the model itself is wrong")
        else:
            chk.add_tlc(f"{module[:-4]} Dev={{{name}}}", res, count=False, note="sensitivity run, must violate")
            chk.require(res.violated == expect, f"deviation {name} not caught by {expect} (got {res.violated})")
            chk.sensitivity[name] = res.violated
            if module == "Limiters.tla":
                cex.append((name, consts, res.trace))
    return cex


# ---------------------------------------------------------------------------
# spec -> code

SCALES = {"tb": (1000, 10 ** 6, 10 ** 8, 33_333_333, 1), "lb": (1000, 10 ** 6, 10 ** 8, 33_333_333, 1),
          "sw": (1000, 10 ** 6, 10 ** 8, 33_333_333, 1), "fw": (1000, 10 ** 6, 10 ** 8, 33_333_333, 1),
          "ad": (10 ** 7, 10 ** 8, 33_333_333, 5 * 10 ** 7)}


def canon(g):
    """Renumber a TLC state graph canonically (TLC's node ids and dump order vary from run to run), so
    that the transition tour and its seeded sampling depend on the seed only."""
    key = {i: repr(sorted(st.items())) for i, st in g.nodes.items()}
    order = sorted(g.nodes, key=lambda i: key[i])
    idx = {old: n for n, old in enumerate(order)}
    nodes = {idx[i]: g.nodes[i] for i in g.nodes}
    edges = {idx[a]: sorted(((lab, idx[b]) for lab, b in outs if b in idx)) for a, outs in g.edges.items() if a in idx}
    return tlc.Graph(nodes, edges, sorted(idx[i] for i in g.inits if i in idx))


def _steps_from_states(states):
    """[(op, tick, model result)] from consecutive Limiters.tla states."""
    steps = []
    for st in states:
        r = st.get("res")
        if not r or r[0] == "init":
            continue
        steps.append((r[0], st["now"], r[1]))
    return steps


def ptour_submit(tier):
    wd = tlc.workdir(f"{RUN}_tour")
    confs = [("tb", dict(MaxOps=5, MaxT=8)), ("tb", dict(C=1, I=0, P=3, MaxOps=5, MaxT=9)),
             ("lb", dict(P=3, MaxOps=5, MaxT=9)), ("sw", dict(MaxOps=5, MaxT=8)),
             ("fw", dict(MaxOps=5, MaxT=8)), ("ad", dict(MaxOps=4, MaxT=8))]
    if tier == "thorough":
        confs += [("tb", dict(C=3, I=3, MaxOps=6, MaxT=10)), ("sw", dict(W=4, N=1, MaxOps=6, MaxT=10)),
                  ("fw", dict(W=4, N=1, MaxOps=6, MaxT=10)), ("lb", dict(MaxOps=6, MaxT=10)),
                  ("ad", dict(MaxOps=5, MaxT=8, RStep=1, RMax=2, RInit=1))]
    # the tour uses the model as designed (Dev = {}): the fixed-window deviation depends on float
    # rounding of concrete window sizes and cannot be scaled from abstract ticks
    jobs = []
    for i, (pol, kw) in enumerate(confs):
        consts, c = pconsts(pol, **kw)
        jobs.append((i, pol, consts, c))

    def one(job, workers):
        i, pol, consts, c = job
        cfg = tlc.write_cfg(wd / f"tour_{i}.cfg", constants=consts)
        dot = wd / f"tour_{i}.dot"
        res = tlc.run(SPEC / "Limiters.tla", cfg, label=f"{RUN}_tour_{i}", dump_dot=dot, timeout=3000, workers=workers,
                      heap="3g", env=JENV)
        return job, res, dot

    return _submit(jobs, one)


def ptour_collect(chk, tier, rng, add_policy_trace, futs):
    cap = 700 if tier == "quick" else 12000
    total_paths = total_edges = tour_total = 0
    matched = compared = 0
    all_done = True
    for (i, pol, consts, c), res, dot in (f.result() for f in futs):
        chk.add_tlc(f"Limiters tour graph {pol} #{i}", res, count=False, note="state graph for the transition tour")
        g = canon(tlc.parse_dot(dot))
        dot.unlink(missing_ok=True)
        total_edges += g.n_edges()
        paths = list(tlc.edge_tour(g))
        tour_total += len(paths)
        if len(paths) > cap:
            all_done = False
            paths = rng.sample(paths, cap)
        for k, (root, path) in enumerate(paths):
            steps = _steps_from_states([g.nodes[dst] for _, dst in path])
            S = SCALES[pol][k % len(SCALES[pol])]
            rec, m, n = cp.replay_model_path(pol, c, S, steps, origin="tour")
            matched += m
            compared += n
            add_policy_trace(rec, dict(origin="model_tour", mk=pol, consts=c, scale=S,
                                       schedule=[[o[0], o[1]] for o in rec.ops]))
            chk.replays += 1
        total_paths += len(paths)
    chk.extra["policy_tour_edges"] = total_edges
    chk.extra["policy_tour_paths_total"] = tour_total
    chk.extra["policy_tour_paths_replayed"] = total_paths
    chk.extra["policy_tour_decisions_compared"] = compared
    chk.extra["policy_tour_decisions_equal"] = matched
    return all_done


def replay_counterexamples(chk, cex, add_policy_trace):
    """R1: a TLC counterexample of a deviation is only a candidate; run it on the real policy."""
    n = 0
    for name, consts, trace in cex:
        pol = consts["Policy"].strip('"')
        c = {k: v for k, v in consts.items() if isinstance(v, int)}
        steps = _steps_from_states([st for _, st in trace])
        if not steps:
            continue
        for S in SCALES[pol][:3]:
            rec, _, _ = cp.replay_model_path(pol, c, S, steps, origin="cex")
            add_policy_trace(rec, dict(origin=f"counterexample:{name}", mk=pol, consts=c, scale=S,
                                       schedule=[[o[0], o[1]] for o in rec.ops]))
            n += 1
    chk.extra["deviation_counterexamples_replayed_on_code"] = n
    chk.replays += n


ENTITY_SCALES = (125_000_000, 250_000_000, 62_500_000)    # float-exact: rates 4, 2, 8 tokens/s


def etour_submit(tier):
    wd = tlc.workdir(f"{RUN}_etour")
    dev = [d for d in as_code_dev() if d == ENTITY_KNOWN_DEV]
    confs = [dict(), dict(C=2, QCap=1)]
    if tier == "thorough":
        confs += [dict(MaxReq=5, MaxT=8), dict(C=2, MaxReq=5, MaxT=7)]
    jobs = []
    for i, kw in enumerate(confs):
        consts, c = econsts(dev=dev, **kw)
        jobs.append((i, consts, c))

    def one(job, workers):
        i, consts, c = job
        cfg = tlc.write_cfg(wd / f"etour_{i}.cfg", constants=consts)
        dot = wd / f"etour_{i}.dot"
        res = tlc.run(SPEC / "Limited.tla", cfg, label=f"{RUN}_etour_{i}", dump_dot=dot, timeout=3000, workers=workers,
                      heap="3g", env=JENV)
        return job, res, dot

    return _submit(jobs, one)


def etour_collect(chk, tier, rng, add_entity_run, futs):
    dev = [d for d in as_code_dev() if d == ENTITY_KNOWN_DEV]
    cap = 500 if tier == "quick" else 8000
    matched = total = 0
    all_done = True
    for (i, consts, c), res, dot in (f.result() for f in futs):
        chk.add_tlc(f"Limited tour graph #{i} Dev={dev}", res, count=False, note="state graph for the transition tour")
        g = canon(tlc.parse_dot(dot))
        dot.unlink(missing_ok=True)
        paths = list(tlc.edge_tour(g))
        if len(paths) > cap:
            all_done = False
            paths = rng.sample(paths, cap)
        for k, (root, path) in enumerate(paths):
            S = ENTITY_SCALES[k % len(ENTITY_SCALES)]
            arrivals = []
            prev = g.nodes[root]
            for _, dst in path:
                st = g.nodes[dst]
                if st["nreq"] == prev["nreq"] + 1:
                    arrivals.append(prev["now"] * S)
                prev = st
            if not arrivals:
                continue
            end_tick = prev["now"]
            desc = dict(mk="tb", kw=dict(P=c["P"] * S, C=c["C"], I=None), base=0)
            run = dict(desc=desc, arrivals=arrivals, cap=c["QCap"], end=end_tick * S, feeder=[], plan=None,
                       limiter="rle", origin="model_tour")
            r = add_entity_run(run)
            chk.replays += 1
            total += 1
            # state-checked projection: forwards up to the end instant, drops
            m_fwd = [(f[0], f[1] * S) for f in prev["fwd"]]
            real = [(i_, t) for i_, t in zip(r["sink"], r["sink_t"]) if t <= end_tick * S]
            extra = real[len(m_fwd):]
            m_drop = sorted(prev["dropped"])
            r_drop = sorted(s[1] for s in r["steps"] if s[0] == "r" and s[3] == "d")
            ok = real[:len(m_fwd)] == m_fwd and all(t == end_tick * S for _, t in extra) and m_drop == r_drop \
                and len(extra) <= 1 + len(prev["queue"])
            if ok:
                matched += 1
            else:
                chk.note_drift(f"entity replay differs from Limited.tla: arrivals={arrivals} S={S} "
                               f"model fwd={m_fwd} drop={m_drop} real fwd={real} drop={r_drop}")
    chk.extra["entity_tour_paths_replayed"] = total
    chk.extra["entity_tour_state_matched"] = matched
    return all_done


# ---------------------------------------------------------------------------
# code -> spec: entity scenarios

def random_entity_run(rng, k):
    kind = KINDS[k % 5]
    while True:
        pol, h, U, _base, desc = cp.random_policy(rng, kind)
        if U >= 1000 or rng.random() < 0.15:
            break
    desc["base"] = base = rng.choice([0, 0, U * rng.randint(1, 40)])
    if kind == "ad":
        U = int(cp.E9 / desc["kw"]["init"])
    n = rng.randint(2, 9)
    t = rng.choice([0, 1, U // 2, U])
    arrivals = []
    for _ in range(n):
        j = rng.choice([0, 0, 1, 1, 2, 3])
        b = (t // U + j) * U
        t = max(t, rng.choice([t, t, t + 1, b, b, b + 1, b - 1, t + U, t + U // 2, t + U + 1, t + U - 1,
                               t + rng.randint(0, 2 * U)]))
        arrivals.append(t)
    arrivals = [a for a in arrivals if a <= cp.LIMIT - 5 * U - 10] or [0]
    cap = rng.choice([1, 1, 2, 3, 1000])
    end = min(cp.LIMIT, arrivals[-1] + (len(arrivals) + 3) * U * (2 if kind in ("sw", "fw") else 1) + 10)
    feeder = sorted(i for i in range(len(arrivals)) if rng.random() < 0.3) if rng.random() < 0.5 else []
    plan = [rng.random() < 0.5 for _ in range(12)] if kind == "ad" else None
    return dict(desc=desc, arrivals=arrivals, cap=cap, end=end, feeder=feeder, plan=plan, limiter="rle",
                origin="random")


def tie_entity_run(rng, k):
    """Arrivals placed exactly on the instants at which the drain poll fires (multiples of the refill
    period / window), mixing pre-scheduled and in-run created requests."""
    kind = ("tb", "fw", "sw", "lb")[k % 4]
    U = rng.choice([10 ** 6, 10 ** 7, 10 ** 8, 125 * 10 ** 6, 1000, 3 * 10 ** 7])
    if kind == "tb":
        desc = dict(mk="tb", kw=dict(P=U, C=rng.choice([1, 2]), I=None))
    elif kind == "lb":
        desc = dict(mk="lb", kw=dict(P=U))
    else:
        desc = dict(mk=kind, kw=dict(W=U, N=rng.choice([1, 2])))
    desc["base"] = 0
    n = rng.randint(3, 8)
    arrivals, t = [], 0
    for _ in range(n):
        t += rng.choice([0, 0, U // 2, U, U, 2 * U]) if arrivals else rng.choice([0, U // 4])
        arrivals.append((t // (U // 2)) * (U // 2) if rng.random() < 0.8 else t + 1)
    arrivals = sorted(a for a in arrivals if a <= cp.LIMIT - 12 * U) or [0]
    feeder = sorted(i for i in range(len(arrivals)) if rng.random() < 0.25)
    return dict(desc=desc, arrivals=arrivals, cap=rng.choice([1, 2, 5]), end=min(cp.LIMIT, arrivals[-1] + 11 * U),
                feeder=feeder, plan=None, limiter="rle", origin="tie")


def inductor_run(rng, k):
    U = rng.choice([10 ** 6, 10 ** 7, 10 ** 5])
    n = rng.randint(2, 10)
    t, arrivals = rng.choice([0, U]), []
    for _ in range(n):
        # same-instant bursts make the Inductor's poll spin at a frozen clock (C07's subject): rare here
        t += rng.choice([U, U, U // 2, 2 * U, 3, U // 10, 5 * U] + ([0] if k % 7 == 1 else []))
        arrivals.append(t)
    return dict(desc=None, arrivals=arrivals, cap=rng.choice([1, 2, 1000]), end=arrivals[-1] + 40 * U, feeder=[],
                plan=None, limiter="inductor", tau=rng.choice([0.001, 0.01, 0.1]), origin="inductor")


def execute_entity(run):
    if run["desc"] is not None:
        pol, h = cp.make(run["desc"])
        base = run["desc"].get("base", 0)
    else:
        pol, h, base = None, None, 0
    r = ce.run_rle(pol, h, base=base, arrivals=run["arrivals"], cap=run["cap"], end=run["end"],
                   feeder_ids=set(run["feeder"]), feedback_plan=run["plan"], limiter=run["limiter"],
                   time_constant=run.get("tau", 0.01))
    return h, r


# ---------------------------------------------------------------------------

def validate(module, traces, dev, label, chk, name):
    """Batch trace validation (chunks judged by parallel single-worker TLC processes);
    returns {id: dict(v, pos, mv, mpos, known, kpos)}."""
    chunks = [traces[k:k + 2500] for k in range(0, len(traces), 2500)]

    def one(job, _workers):
        k, part = job
        lab = f"{RUN}_{label}_{k}"
        wd = tlc.workdir(lab)
        cfg = tlc.write_cfg(wd / "trace.cfg", spec="Spec", constants={"Dev": devset(dev)})
        f = wd / "traces.json"
        f.write_text(json.dumps(part, separators=(",", ":")))
        res = tlc.run(SPEC / module, cfg, label=lab, workers=1, timeout=3000,
                      env={"TRACE_FILE": str(f), **JENV}, heap="2g")
        f.unlink(missing_ok=True)
        return k, part, res, wd

    out = {}
    for k, part, res, wd in _parallel(list(enumerate(chunks)), one):
        chk.add_tlc(f"{name} batch {k} ({len(part)} executions, Dev={dev})", res,
                    note="trace validation (one TLC state per recorded call)")
        for v in res.printed:
            if isinstance(v, tuple) and len(v) == 4 and v[0] == "V":
                out.setdefault(v[1], {}).update(v=v[2], pos=v[3])
            elif isinstance(v, tuple) and len(v) == 6 and v[0] == "M":
                out.setdefault(v[1], {}).update(mv=v[2], mpos=v[3], known=v[4], kpos=v[5])
        miss = [t["id"] for t in part if "v" not in out.get(t["id"], {}) or "mv" not in out.get(t["id"], {})]
        if miss:
            raise tlc.TLCFailure(f"{label}: no verdict for traces {miss[:3]} (see {wd / 'tlc.out'})")
    return out


def cleanup():
    for d in tlc.WORK.glob(f"{RUN}_*"):
        shutil.rmtree(d, ignore_errors=True)


def run(tier, seed, replay=None):
    quiet_logging()
    chk = Check("C10", tier, seed)
    rng = random.Random(seed)
    known_dev = as_code_dev()
    pol_dev = [d for d in known_dev if d == POLICY_KNOWN_DEV]
    ent_dev = [d for d in known_dev if d == ENTITY_KNOWN_DEV]

    ptraces, pmeta = [], {}
    etraces, emeta = [], {}

    def add_policy_trace(rec_or_ops, meta, hdr=None):
        tid = len(ptraces) + 1
        if isinstance(rec_or_ops, cp.Rec):
            tr = rec_or_ops.trace(tid)
        else:
            tr = dict(hdr)
            tr["id"] = tid
            tr["ops"] = rec_or_ops
        if not tr["ops"] or max(o[1] for o in tr["ops"]) > cp.LIMIT + cp.WCAP // 20 \
                or tr["cc"] > cp.E9 or tr["W"] > cp.E9 or tr["P"] > cp.E9:
            return None         # does not fit TLC's 32-bit integers
        ptraces.append(tr)
        pmeta[tid] = meta
        chk.impl_steps += len(tr["ops"])
        return tid

    def add_entity_run(run_):
        h, r = execute_entity(run_)
        if run_["limiter"] != "rle" and r["spun"]:
            # the Inductor has no time_until_available; a frozen-clock spin of its poll is property C07's
            # subject, not a clause of C10: recorded as an observation, never judged here
            r["spin"] = 0
            chk.extra["inductor_frozen_clock_spins_observed"] = chk.extra.get("inductor_frozen_clock_spins_observed", 0) + 1
        tid = len(etraces) + 1
        etraces.append(ce.entity_trace(tid, r, run_["cap"], model=1 if run_["limiter"] == "rle" else 0))
        emeta[tid] = dict(run=run_, err=r["err"])
        chk.impl_steps += len(r["steps"])
        if r["err"]:
            chk.violation(f"exception:{r['err'].split(':')[0]}", f"real simulation raised {r['err']}",
                          dict(kind="entity", run=run_))
        if h is not None and r["ops"]:
            add_policy_trace(r["ops"], dict(origin="entity:" + run_["origin"], entity_run=run_), hdr=h)
        if h is not None and r["fwd_ops"]:
            # the instants at which requests were forwarded downstream must satisfy the policy's bound
            hs = dict(h)
            hs["mc"] = 0
            add_policy_trace(r["fwd_ops"], dict(origin="entity_forwards:" + run_["origin"], entity_run=run_,
                                                forwards=True), hdr=hs)
        return r

    if replay:
        return do_replay(chk, replay, pol_dev, ent_dev)

    import time
    phase = {}
    t0 = time.time()

    def lap(name):
        nonlocal t0
        phase[name] = round(time.time() - t0, 1)
        t0 = time.time()

    import os
    phases = set(os.environ.get("VERIF_C10_PHASES", "mc,tour,drive").split(","))   # development aid only

    # all TLC jobs of phases 1 and 2 share one process pool (JVM start dominates the small models)
    f_mc = mc_submit(tier) if "mc" in phases else []
    f_pt = ptour_submit(tier) if "tour" in phases else []
    f_et = etour_submit(tier) if "tour" in phases else []

    # 1. model checking + sensitivity
    cex = mc_collect(chk, f_mc)
    lap("model_check")

    # 2. spec -> code
    ex1 = ex2 = False
    if "tour" in phases:
        ex1 = ptour_collect(chk, tier, rng, add_policy_trace, f_pt)
        replay_counterexamples(chk, cex, add_policy_trace)
        ex2 = etour_collect(chk, tier, rng, add_entity_run, f_et)
    # exhaustive = TLC explored the complete state space of every listed bounded configuration;
    # whether every tour path was also replayed on the code is reported separately
    chk.exhaustive = "mc" in phases
    chk.extra["tours_complete"] = bool(ex1 and ex2)
    chk.extra["exhaustive_configurations"] = (
        [dict(name=n, module="Limiters", constants=pconsts(pol, **kw)[1] | {"Policy": pol}) for n, pol, kw in policy_configs(tier)]
        + [dict(name=n, module="Limited", constants=econsts(**kw)[1]) for n, kw in entity_configs(tier)])
    lap("spec_to_code")

    # 3. code -> spec
    n_pol = 260 if tier == "quick" else 2500
    if "drive" not in phases:
        n_pol = 0
    for kind in KINDS:
        for k in range(n_pol):
            r_ = random.Random(rng.random())
            pol, h, U, base, desc = cp.random_policy(r_, kind)
            rec = cp.drive(cp.Rec(pol, h, base, "random"), r_, U, kind, max_ops=40 if tier == "quick" else 56)
            meta = dict(origin="random", schedule=[[o[0], o[1]] for o in rec.ops])
            meta.update(desc)
            add_policy_trace(rec, meta)
    n_ent = (500 if tier == "quick" else 4000) if "drive" in phases else 0
    for k in range(n_ent):
        r_ = random.Random(rng.random())
        if k % 3 == 0:
            add_entity_run(tie_entity_run(r_, k))
        elif k % 10 == 1:
            add_entity_run(inductor_run(r_, k))
        else:
            add_entity_run(random_entity_run(r_, k))
    breadth(chk, rng, tier, etraces, emeta)
    lap("code_drivers")

    # 4. judge every recorded execution with TLC
    pv = validate("LimiterTrace.tla", ptraces, pol_dev, "ptrace", chk, "LimiterTrace")
    ev = validate("LimitedTrace.tla", etraces, ent_dev, "etrace", chk, "LimitedTrace")
    chk.impl_traces = len(ptraces) + len(etraces)
    lap("trace_validation")
    chk.extra["phase_wall_s"] = phase
    judge(chk, pv, ptraces, pmeta, "policy")
    judge(chk, ev, etraces, emeta, "entity")

    by = {}
    for tr in ptraces:
        by[tr["pol"]] = by.get(tr["pol"], 0) + 1
    chk.extra["policy_executions_by_kind"] = by
    chk.extra["entity_executions"] = len(etraces)
    import hashlib
    chk.extra["executions_digest"] = hashlib.sha1(
        json.dumps([ptraces, etraces], separators=(",", ":"), sort_keys=True).encode()).hexdigest()
    chk.extra["as_code_deviations"] = known_dev
    for tr in (ptraces[:1] + ptraces[-1:]):
        chk.sample({"policy_trace": {k: tr[k] for k in ("pol", "P", "cc", "W", "N", "ops")}, "meta": pmeta[tr["id"]].get("origin")})
    for tr in etraces[:1] + etraces[-1:]:
        chk.sample({"entity_trace": tr, "origin": emeta[tr["id"]]["run"]["origin"]})
    chk.assumptions = [
        "instants are integer nanoseconds, relative to a base instant, below 2^31 ns (32-bit TLC integers); "
        "absolute bases up to one day are used to exercise float magnitudes",
        "contract slack: 1 ns for Duration/Instant truncation; an admit within 2 ns of an aligned fixed-window "
        "boundary may count for either adjacent window; exact-model decisions are only compared outside a 2 ns "
        "guard band (inside it either decision is accepted)",
        "rates with a non-integer period (3/s, 7/s, 2.1/s ...) are judged by the contract only "
        "(floor(1e9/rate) ns per token), not by the exact credit model",
        "adaptive: the bound uses the largest rate in force at some moment of the closed interval and the "
        "initial bucket fill for an interval that starts at the first call; configurations whose bucket cannot "
        "hold one token (min_rate*window < 1) are outside the domain",
        "'a few steps' of the drain clause is read as at most 5 consecutive positive waits",
        "request ids are assigned in the order in which the entity received the requests (same-instant order is "
        "the engine's creation order, property C01)",
    ]
    chk.explanation = (
        "TLC checks the five policy machines and the entity machine exhaustively within the listed constants "
        "(bounds, truthfulness and drain as invariants over admitted-instant logs and the answers of the calls); "
        "every edge of the bounded state graphs is executed on the real objects at several ns-per-tick scales; "
        "thousands of adversarial real executions are judged by the trace specs with TLC.")
    cleanup()
    return chk.finish()


def judge(chk, verdicts, traces, meta, level):
    for tid, v in sorted(verdicts.items()):
        tr = traces[tid - 1]
        m = meta[tid]
        if v.get("known"):
            cls = "PROP:tua_zero_fw_boundary" if level == "policy" else "PROP:order_fresh_overtakes_queued"
            chk.violation(KNOWN_CLASS[cls], describe(level, cls, tr, v["kpos"]), dict(kind=level, meta=m, trace=tr))
        verdict = v["v"]
        if verdict == "ACCEPT":
            continue
        if verdict.startswith("PROP:"):
            if v.get("known") and verdict in KNOWN_CLASS:
                continue            # already reported above through its class
            key = KNOWN_CLASS.get(verdict, verdict[5:])
            chk.violation(key, describe(level, verdict, tr, v["pos"]), dict(kind=level, meta=m, trace=tr))
        else:
            chk.note_drift(f"{level} trace {tid} ({m.get('origin') or m.get('run', {}).get('origin')}): {verdict} at {v['pos']}: "
                           + json.dumps(window(level, tr, v["pos"]), default=str)[:400])
        if v.get("mv") and verdict.startswith("PROP:"):
            chk.note_drift(f"{level} trace {tid}: {v['mv']} at {v['mpos']}")


def window(level, tr, pos):
    seq = tr["ops"] if level == "policy" else tr["steps"]
    return seq[max(0, pos - 5):pos]


def describe(level, verdict, tr, pos):
    if level == "policy":
        pars = {k: tr[k] for k in ("pol", "P", "cc", "ic", "W", "N")}
        return f"{verdict} at call {pos} of a real {tr['pol']} policy {pars}: ...{window(level, tr, pos)}"
    return f"{verdict} at handler step {pos} (cap={tr['cap']}): ...{window(level, tr, pos)} sink={tr['sink'][:12]}"


# ---------------------------------------------------------------------------
# breadth: pass-through and distributed limiters (accounting clauses only)

def breadth(chk, rng, tier, etraces, emeta):
    n = 20 if tier == "quick" else 200
    made = late = 0
    for k in range(n):
        r_ = random.Random(rng.random())
        arrivals = sorted(r_.choice([0, 1, 10 ** 6, 10 ** 8]) * r_.randint(0, 9) for _ in range(r_.randint(1, 12)))
        if k % 2 == 0:
            got = ce.run_null(arrivals)
            steps, f = [], 0
            for i in range(len(arrivals)):
                fid = got[i] if i < len(got) else 0
                f += 1 if fid else 0
                steps.append(["r", i + 1, -1, "f" if fid == i + 1 else "x", fid, 0, i + 1, f, 0, 0])
            tr = {"id": len(etraces) + 1, "cap": 0, "model": 0, "order": 0, "spin": 0, "steps": steps, "sink": got}
            origin = "null"
        else:
            limit = r_.randint(1, 4)
            arr = [a + 1 for a in arrivals]
            lat = r_.choice([0.0, 0.0, 0.0001, 0.001])
            got, stats = ce.run_distributed(arr, limit, 10 ** 8, lat)
            recv = sum(s.requests_received for s in stats)
            fw = sum(s.requests_forwarded for s in stats)
            dr = sum(s.requests_dropped for s in stats)
            steps, f, d = [], 0, 0
            if lat == 0.0:
                gotset = list(got)
                for i in range(len(arr)):
                    rid = i + 1
                    if rid in gotset:
                        gotset.remove(rid)
                        f += 1
                        steps.append(["r", rid, -1, "f", rid, 0, rid, f, 0, d])
                    else:
                        d += 1
                        steps.append(["r", rid, -1, "d", 0, 0, rid, f, 0, d])
                for rid in gotset:                      # duplicates or unknown ids delivered downstream
                    f += 1
                    steps.append(["p", 0, -1, "f", rid, 0, len(arr), f, 0, d])
            else:
                # with store latency the forward event is stamped with the (past) arrival instant and the
                # engine discards it (outside C10, see report): only the entity's own counters are judged
                late += 1
                for i in range(len(arr)):
                    rid = i + 1
                    if rid <= fw:
                        f += 1
                        steps.append(["r", rid, -1, "f", rid, 0, rid, f, 0, d])
                    else:
                        d += 1
                        steps.append(["r", rid, -1, "d", 0, 0, rid, f, 0, d])
            if (recv, fw, dr) != (len(arr), f, d):  # the entity's own counters disagree with what happened
                steps.append(["p", 0, -1, "n", 0, 0, recv, fw, 0, dr])
            done = [s[4] for s in steps if s[4]]
            tr = {"id": len(etraces) + 1, "cap": 0, "model": 0, "order": 0, "spin": 0, "steps": steps, "sink": done}
            origin = "distributed"
        etraces.append(tr)
        emeta[tr["id"]] = dict(run=dict(origin=origin, arrivals=arrivals), err=None)
        made += 1
    chk.extra["breadth_null_distributed_runs"] = made
    chk.extra["distributed_runs_with_store_latency_counters_only"] = late


# ---------------------------------------------------------------------------

def do_replay(chk, path, pol_dev, ent_dev):
    data = json.loads(open(path).read())
    rp = data["replay"]
    if rp["kind"] == "policy":
        m = rp["meta"]
        if "entity_run" in m:
            h, r = execute_entity(m["entity_run"])
            tr = dict(h)
            tr["id"], tr["ops"] = 1, r["fwd_ops" if m.get("forwards") else "ops"]
            if m.get("forwards"):
                tr["mc"] = 0
        elif m.get("origin", "").startswith(("model_tour", "counterexample")):
            steps = [(dict(a="acq", u="tua", s="succ", f="fail")[o[0]], o[1] // m["scale"], 0) for o in m["schedule"]]
            rec, _, _ = cp.replay_model_path(m["mk"], m["consts"], m["scale"], steps)
            tr = rec.trace(1)
        else:
            tr = cp.rerun(dict(mk=m["mk"], kw=m["kw"], base=m.get("base", 0)), m["schedule"]).trace(1)
        v = validate("LimiterTrace.tla", [tr], pol_dev, "replay", chk, "LimiterTrace")
        judge(chk, v, [tr], {1: m}, "policy")
    else:
        run_ = rp["meta"]["run"]
        h, r = execute_entity(run_)
        tr = ce.entity_trace(1, r, run_["cap"], model=1 if run_["limiter"] == "rle" else 0)
        v = validate("LimitedTrace.tla", [tr], ent_dev, "replay", chk, "LimitedTrace")
        judge(chk, v, [tr], {1: rp["meta"]}, "entity")
    chk.impl_traces = 1
    cleanup()
    return chk.finish()
