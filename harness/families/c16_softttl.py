"""C16 / SoftTTLCache: model checking jobs (SoftTtlMC.tla), real executions inside a real Simulation
(client generator processes + the cache's own background refresh handler, one trace step per generator
segment) and trace validation (SoftTtlTrace.tla)."""
from __future__ import annotations

import json

from happysimulator.components.datastore.kv_store import KVStore
from happysimulator.components.datastore.soft_ttl_cache import SoftTTLCache
from happysimulator.core.entity import Entity
from happysimulator.core.event import Event
from happysimulator.core.simulation import Simulation
from happysimulator.core.temporal import Duration, Instant

from .. import tlc
from . import c16_policies as pol9
from .c16_util import Hung, exact_delay, time_limit

SPEC = tlc.SPECS / "cache"
INVS = ["InvCapacity", "InvOrderKeys", "InvReadFresh", "InvHardTtl"]
# deviation -> (invariant TLC must report, constants of the sensitivity run)
DEVIATIONS = {
    "coalesced_miss_returns_none": ("InvReadFresh", dict(K=1, cap=1, soft=0, hard=1, nops=(3, 1), gaps=(0, 1, 3),
                                                         kinds=("get", "inv"), lat={"CL": 1, "RL": 2, "WL": 1})),
    "serve_expired": ("InvHardTtl", dict(K=1, cap=1, soft=0, hard=1, nops=(2, 0), gaps=(0, 1), kinds=("get",))),
    "lru_order_leak": ("InvOrderKeys", dict(K=1, cap=1, nops=(2, 0), gaps=(0,), kinds=("get", "inv"))),
    "store_skips_evict": ("InvCapacity", dict(K=2, cap=1, nops=(2, 0), gaps=(0,), kinds=("get",), pre=(1, 2))),
}
KNOWN_CODES = {1: "coalesced_miss_returns_none"}
LIGHT_JVM = {"_JAVA_OPTIONS": "-XX:TieredStopAtLevel=1 -XX:ParallelGCThreads=2 -XX:CICompilerCount=1"}
LAT0 = {"CL": 1, "RL": 2, "WL": 2}


def tla_set(items):
    return "{" + ",".join(f'"{d}"' if isinstance(d, str) else str(d) for d in items) + "}"


def mc_consts(*, K=2, cap=1, soft=2, hard=4, dev=(), nops=(2, 1), gaps=(0, 1, 4), kinds=("get", "put", "inv"),
              lat=None, pre=(1,)):
    lat = lat or LAT0
    return {"K": K, "Cap": cap, "Soft": soft, "Hard": hard, "Dev": tla_set(dev),
            "NP": len([n for n in nops if n > 0]), "N1": nops[0], "N2": nops[1], "Gaps": tla_set(gaps),
            "Kinds": tla_set(kinds), "CL": lat["CL"], "RL": lat["RL"], "WL": lat["WL"], "Pre": tla_set(pre)}


def job(label, consts, *, invariants=(), view="View", timeout=900, workers=4, light=False, extra=None):
    wd = tlc.workdir(label)
    cfg = tlc.write_cfg(wd / "mc.cfg", spec="Spec", constants=consts, invariants=invariants, view=view)
    return tlc.run(SPEC / "SoftTtlMC.tla", cfg, label=label, timeout=timeout, workers=workers, extra=extra,
                   env=LIGHT_JVM if light else None)


# ---------------------------------------------------------------------------
# real executions

class _Client(Entity):
    def __init__(self, p, world, script):
        super().__init__(f"client{p}")
        self.p, self.w, self.script = p, world, script
        self.finished = False

    def handle_event(self, event):
        return self.body()

    def body(self):
        w = self.w
        for kind, k, gap in self.script:
            yield exact_delay(gap, w.tick_ns)
            yield from w.do_op(self.p, kind, k)
        self.finished = True


class _Finale(Entity):
    def __init__(self, world):
        super().__init__("finale")
        self.w = world

    def handle_event(self, event):
        return self.body()

    def body(self):
        w = self.w
        w.quiescent_at_finale = all(c.finished for c in w.clients) and not w.inflight
        for k in range(1, w.K + 1):
            yield from w.do_op(0, "get", k)


class SoftWorld:
    """cfg = {K, cap (0 = unbounded), soft, hard, lat{CL,RL,WL}, tick_ns, pre[K]}"""

    def __init__(self, cfg, prog):
        self.cfg, self.prog = cfg, prog
        self.K, self.tick_ns = cfg["K"], cfg["tick_ns"]
        lat = cfg["lat"]
        self.backing = KVStore("db", read_latency=exact_delay(lat["RL"], self.tick_ns),
                               write_latency=exact_delay(lat["WL"], self.tick_ns))
        for k, v in enumerate(cfg["pre"], start=1):
            if v:
                self.backing.put_sync(pol9.key_name(k), v)
        self.cache = SoftTTLCache("cache", self.backing, soft_ttl=Duration(cfg["soft"] * self.tick_ns),
                                  hard_ttl=Duration(cfg["hard"] * self.tick_ns),
                                  cache_capacity=cfg["cap"] or None,
                                  cache_read_latency=exact_delay(lat["CL"], self.tick_ns))
        # observe the cache's own generator handler (background refresh) segment by segment
        orig = self.cache.handle_event
        world = self

        def traced_handle_event(event):
            gen = orig(event)
            if event.event_type != "_sttl_refresh" or not hasattr(gen, "send"):
                return gen
            k = pol9.key_num(event.context["metadata"]["key"])
            return world.drive(-1, "refresh", k, 0, gen)
        self.cache.handle_event = traced_handle_event
        self.clients = [_Client(p, self, sc) for p, sc in enumerate(prog, start=1)]
        self.finale = _Finale(self)
        self.steps, self.errors = [], []
        self.nv = self.noid = 0
        self.inflight = set()
        self.quiescent_at_finale = None
        self.hung = False

    def tick(self):
        return self.cache.now.nanoseconds // self.tick_ns

    def snapshot(self):
        c, K = self.cache, self.K
        raw = c._cache
        keys = [pol9.key_num(x) for x in c.get_cached_keys()]

        def ent(k):
            return raw.get(pol9.key_name(k)) if k in keys else None
        return {
            "n": int(c.cache_size),
            "val": [int(ent(k).value or 0) if ent(k) is not None else 0 for k in range(1, K + 1)],
            "at": [int(ent(k).cached_at.nanoseconds // self.tick_ns) if ent(k) is not None else 0
                   for k in range(1, K + 1)],
            "ord": [pol9.key_num(x) for x in c._access_order],
            "rfr": [1 if c.is_refreshing(pol9.key_name(k)) else 0 for k in range(1, K + 1)],
            "back": [int(self.backing.get_sync(pol9.key_name(k)) or 0) for k in range(1, K + 1)],
            "br": int(self.backing.stats.reads),
        }

    def record(self, p, oid, kind, k, v, seg, last, ret):
        st = {"p": p, "o": oid, "kind": kind, "k": k, "v": v, "seg": seg, "last": bool(last),
              "ret": int(ret or 0), "t": int(self.tick())}
        st.update(self.snapshot())
        self.steps.append(st)

    def drive(self, p, kind, k, v, gen):
        """Run a generator of the real code segment by segment, recording the state after each."""
        self.noid += 1
        oid = self.noid
        self.inflight.add(oid)
        seg, send = 0, None
        try:
            while True:
                seg += 1
                try:
                    y = next(gen) if seg == 1 else gen.send(send)
                except StopIteration as e:
                    self.record(p, oid, kind, k, v, seg, True, e.value if kind == "get" else 0)
                    return e.value
                self.record(p, oid, kind, k, v, seg, False, 0)
                send = yield y
        except Hung:
            raise
        except Exception as ex:      # noqa: BLE001
            self.errors.append(f"{kind}({k}) seg {seg}: {type(ex).__name__}: {ex}")
            return None
        finally:
            self.inflight.discard(oid)

    def do_op(self, p, kind, k):
        c = self.cache
        name = pol9.key_name(k)
        if kind == "inv":
            self.noid += 1
            c.invalidate(name)
            self.record(p, self.noid, kind, k, 0, 1, True, 0)
            return None
        if kind == "invall":
            self.noid += 1
            c.invalidate_all()
            self.record(p, self.noid, kind, 0, 0, 1, True, 0)
            return None
        if kind == "get":
            return (yield from self.drive(p, kind, k, 0, c.get(name)))
        if kind == "put":
            self.nv += 1
            return (yield from self.drive(p, kind, k, self.nv, c.put(name, self.nv)))
        raise ValueError(kind)

    def run(self):
        lat = self.cfg["lat"]
        worst = max(lat.values()) * 2 + 2
        horizon = max([sum(g for _, _, g in sc) + len(sc) * worst for sc in self.prog] + [0]) + worst + 10
        sim = Simulation(entities=[self.backing, self.cache, *self.clients, self.finale])
        for cl in self.clients:
            sim.schedule(Event(time=Instant(0), event_type="go", target=cl))
        sim.schedule(Event(time=Instant(horizon * self.tick_ns), event_type="go", target=self.finale))
        try:
            with time_limit(self.cfg.get("limit_s", 5)):
                sim.run()
        except Hung as ex:
            self.hung = True
            self.errors.append(f"simulation did not terminate: {ex}")
        except Exception as ex:      # noqa: BLE001
            self.errors.append(f"simulation: {type(ex).__name__}: {ex}")
        return self

    def trace(self, tid):
        c = self.cfg
        return {"id": tid, "K": self.K, "cap": c["cap"], "soft": c["soft"], "hard": c["hard"],
                "pre": list(c["pre"]), "steps": self.steps}


def world_cfg(*, K, cap, soft, hard, lat, pre, tick_ns=1_000_000):
    return {"K": K, "cap": cap, "soft": soft, "hard": hard, "lat": dict(lat), "tick_ns": tick_ns, "pre": list(pre)}


KINDS_W = ("get", "get", "get", "get", "put", "put", "inv", "invall")
LATS = [{"CL": 1, "RL": 2, "WL": 2}, {"CL": 0, "RL": 1, "WL": 3}, {"CL": 1, "RL": 3, "WL": 1}, {"CL": 2, "RL": 2, "WL": 1}]
TICKS = (1_000_000, 1000, 1_000_000_000, 1)


def random_case(rng, i):
    K = rng.choice((2, 3))
    cap = rng.choice((0, 1, 2, K))
    soft = rng.choice((0, 1, 2, 3))
    hard = soft + rng.choice((0, 1, 2, 4))
    nprocs = rng.choice((1, 2, 2, 3))
    gaps = (0, 0, 1, 1, 2, 3, soft, hard, hard + 1)
    prog = []
    for _ in range(nprocs):
        sc = []
        for _ in range(rng.randint(3, 9)):
            kind = rng.choice(KINDS_W)
            sc.append([kind, 0 if kind == "invall" else rng.randint(1, K), rng.choice(gaps)])
        prog.append(sc)
    pre = [100 + k if rng.random() < 0.6 else 0 for k in range(1, K + 1)]
    return world_cfg(K=K, cap=cap, soft=soft, hard=hard, lat=rng.choice(LATS), pre=pre,
                     tick_ns=TICKS[(i // 50) % len(TICKS)]), prog


class Runs:
    def __init__(self, chk):
        self.chk = chk
        self.traces, self.meta = [], {}
        self.hung = 0

    def execute(self, cfg, prog, origin):
        if self.hung >= 3:
            return None
        w = SoftWorld(cfg, prog).run()
        self.hung += 1 if w.hung else 0
        tid = len(self.traces) + 1
        self.traces.append(w.trace(tid))
        self.meta[tid] = {"origin": origin, "cfg": cfg, "prog": prog}
        self.chk.impl_steps += len(w.steps)
        self.chk.require(w.quiescent_at_finale is not False, "soft-ttl finale started before the clients finished")
        for err in w.errors:
            self.chk.note_drift(f"soft_ttl trace {tid} ({origin}): real code raised {err}; cfg={cfg} prog={prog}")
        return w


def validate(traces, label, dev=()):
    wd = tlc.workdir(label)
    cfg = tlc.write_cfg(wd / "trace.cfg", spec="Spec", constants={"Dev": tla_set(dev)})
    f = wd / "traces.json"
    f.write_text(json.dumps(traces, separators=(",", ":")))
    res = tlc.run(SPEC / "SoftTtlTrace.tla", cfg, label=label, workers=1, timeout=3000,
                  env={"TRACE_FILE": str(f), "_JAVA_OPTIONS": "-XX:ParallelGCThreads=2 -XX:CICompilerCount=2"})
    f.unlink()
    verdicts, drifts = {}, {}
    for v in res.printed:
        if isinstance(v, tuple) and v and v[0] == "V" and len(v) == 5:
            verdicts[v[1]] = (v[2], v[3], sorted(v[4]))
        elif isinstance(v, tuple) and v and v[0] == "D" and len(v) == 4:
            drifts[v[1]] = (v[2], v[3])
    miss = [t["id"] for t in traces if t["id"] not in verdicts]
    if miss:
        raise tlc.TLCFailure(f"{label}: no verdict for traces {miss[:3]}")
    return verdicts, drifts, res


def judge(chk, runs, verdicts, drifts):
    for tid, (v, pos, taint) in sorted(verdicts.items()):
        if v.startswith("PROP:"):
            m = runs.meta[tid]
            key = "soft_ttl_" + (KNOWN_CODES[taint[0]] if taint and taint[0] in KNOWN_CODES else v[5:])
            chk.violation(key, f"SoftTTLCache {v} at step {pos} of trace {tid} ({m['origin']}): "
                                              f"cfg={m['cfg']} prog={m['prog']}",
                          {"family": "soft_ttl", "cfg": m["cfg"], "prog": m["prog"], "origin": m["origin"]})
    for tid, (d, pos) in sorted(drifts.items()):
        m = runs.meta[tid]
        chk.note_drift(f"soft_ttl trace {tid} ({m['origin']}): {d} at step {pos}; cfg={m['cfg']} prog={m['prog']}")


# ---------------------------------------------------------------------------
# phases called by c16.run

def submit(pool, quick):
    jobs = {}
    if quick:
        jobs["clean"] = pool.submit(job, "C16_st_clean", mc_consts(soft=1, hard=3, gaps=(0, 2), nops=(2, 1)),
                                    invariants=INVS, workers=4)
    else:
        jobs["clean"] = pool.submit(job, "C16_st_clean", mc_consts(gaps=(0, 1, 3, 5), nops=(2, 1)), invariants=INVS,
                                    workers=6, timeout=6000)
        jobs["clean_unbounded"] = pool.submit(job, "C16_st_clean_u", mc_consts(cap=0, gaps=(0, 2, 5), nops=(2, 2)),
                                              invariants=INVS, workers=6, timeout=6000)
        jobs["clean_k3"] = pool.submit(job, "C16_st_clean_k3", mc_consts(K=3, cap=2, gaps=(0, 3), nops=(2, 1),
                                                                          pre=(1, 2)),
                                       invariants=INVS, workers=6, timeout=6000)
    for dev, (inv, kw) in DEVIATIONS.items():
        jobs[f"dev_{dev}"] = pool.submit(job, f"C16_st_dev_{dev[:10]}", mc_consts(dev=[dev], **kw),
                                         invariants=INVS, workers=2, light=True)
    return jobs


def prog_from_plog(plog):
    return [[[c["kind"], c["k"], c["gap"]] for c in sc] for sc in plog]


def collect(chk, jobs, runs):
    for name, fut in jobs.items():
        res = fut.result()
        if name.startswith("clean"):
            chk.add_tlc(f"SoftTtlMC Dev={{}} {name}", res)
            chk.require(res.ok, f"SoftTtlMC {name} with Dev={{}} violates {res.violated}")
        else:
            dev = name[4:]
            chk.add_tlc(f"SoftTtlMC Dev={{{dev}}}", res, count=False, note="sensitivity run, must violate")
            chk.require(res.violated == DEVIATIONS[dev][0], f"soft-ttl deviation {dev} not caught (got {res.violated})")
            chk.sensitivity[f"soft_ttl:{dev}"] = res.violated
            plog = res.trace[-1][1].get("plog") if res.trace else None
            if plog:        # R1: the counterexample's program on the real code
                kw = dict(K=2, cap=1, soft=2, hard=4, lat=LAT0, pre=(1,))
                kw.update({k: v for k, v in DEVIATIONS[dev][1].items() if k in kw})
                runs.execute(world_cfg(K=kw["K"], cap=kw["cap"], soft=kw["soft"], hard=kw["hard"], lat=kw["lat"],
                                       pre=[100 + k if k in kw["pre"] else 0 for k in range(1, kw["K"] + 1)]),
                             prog_from_plog(plog), f"tlc_counterexample:{dev}")
                chk.replays += 1
