"""C17 -- replication: acknowledged writes are where the mode promises, replicas converge.

  1. TLC model checking of specs/repl/{PrimaryBackup,Chain,MultiLeader}.tla (contract invariants hold with
     Dev={}, each deviation alone is caught),
  2. spec -> code: every edge of small state graphs (Dev = the code as it is) becomes a timed schedule
     (one instant per model action, per-message / per-put latencies scripted so that the real engine
     reproduces exactly that interleaving) run on the real PrimaryNode/BackupNode, ChainNode, LeaderNode +
     KVStore + Network inside an unmodified Simulation; TLC counterexamples of the deviations that are open
     findings are replayed the same way,
  3. code -> spec: seeded random / adversarial scenarios beyond the model's bounds (reordering latencies,
     same-instant bursts, reads racing commits, concurrent leaders, periodic anti-entropy), recorded and
     judged by specs/repl/ReplTrace.tla (contract on observed stores at every client reply and at
     quiescence; step-by-step conformance to the impl model),
  4. known-finding classification from what fails, 5. evidence.
"""
from __future__ import annotations

import json
import os
import random
import time as _time
from concurrent.futures import ThreadPoolExecutor

from .. import tlc
from ..common import Check, load_known
from ..probe import quiet_logging
from . import c17_world as W

SPEC = tlc.SPECS / "repl"
PROP = "C17"
LBL = PROP + os.environ.get("C17_LABEL_SUFFIX", "")     # scratch-dir prefix (suffix only for concurrent dev runs)

# deviation -> (model, invariant that must catch it)
DEVIATIONS = {
    "backup_applies_in_arrival_order": ("pb", "Converge"),
    "ack_before_apply": ("pb", "AckSemi|AckSync"),
    "sync_waits_for_one": ("pb", "AckSync"),
    "chain_reorder": ("chain", "Converge"),
    "dirty_is_key_set": ("chain", "ReadCommitted"),
    "craq_read_check_before_get": ("chain", "ReadCommitted"),
    "mid_forwards_before_apply": ("chain", "AckAll"),
    "conflict_keeps_existing": ("ml", "ConvergeAE"),
    "ae_one_way": ("ml", "ConvergeAE"),
    "merged_winner_dropped": ("ml", "ConvergeAE"),
    "replica_writes_unordered": ("rs", "Converge"),
}
# known-finding key -> deviation of the impl model that is the code's behaviour
KEY_DEV = {
    "pb_backup_applies_in_arrival_order": "backup_applies_in_arrival_order",
    "chain_node_applies_in_arrival_order": "chain_reorder",
    "craq_dirty_mark_is_key_set": "dirty_is_key_set",
    "craq_dirty_check_before_get_latency": "craq_read_check_before_get",
}
MODULE = {"pb": "PrimaryBackupMC.tla", "chain": "ChainMC.tla", "ml": "MultiLeaderMC.tla", "rs": "QuorumMC.tla"}
INVS = {"pb": ["AckSync", "AckSemi", "Converge"], "chain": ["AckAll", "ReadCommitted", "Converge"],
        "ml": ["ConvergeAE"], "rs": ["Converge"]}


def as_code_dev():
    """Deviations of the impl models that describe the code as it is = those of the open C17 findings."""
    return sorted({e["deviation"] for e in load_known().get("open", [])
                   if e["property"] == PROP and e.get("deviation") in DEVIATIONS})


def devset(devs):
    return "{" + ",".join(f'"{d}"' for d in devs) + "}"


def consts(model, dev=(), **kw):
    if model == "pb":
        c = {"NB": kw.get("nb", 2), "NK": kw.get("nk", 1), "MaxW": kw.get("maxw", 2),
             "ModeSet": devset(kw.get("modes", ("async", "semi", "sync")))}
    elif model == "chain":
        c = {"N": kw.get("n", 3), "NK": kw.get("nk", 1), "MaxW": kw.get("maxw", 2), "MaxR": kw.get("maxr", 1),
             "CraqSet": "{" + ",".join("TRUE" if x else "FALSE" for x in kw.get("craq", (True,))) + "}"}
    elif model == "rs":
        c = {"N": kw.get("n", 3), "NK": kw.get("nk", 1), "MaxW": kw.get("maxw", 3)}
    else:
        c = {"N": kw.get("n", 2), "NK": kw.get("nk", 1), "MaxW": kw.get("maxw", 2), "MaxAE": kw.get("maxae", 1),
             "BurstOnly": "TRUE" if kw.get("burst") else "FALSE", "Mode": '"%s"' % kw.get("mode", "lww")}
    c["Dev"] = devset(dev)
    return c


# ---------------------------------------------------------------------------
# 1. model checking

def mc_jobs(tier):
    jobs = []

    def job(name, model, kw, dev=(), expect=None, dot=False, count=True, invs=None):
        jobs.append(dict(name=name, model=model, kw=kw, dev=tuple(dev), expect=expect, dot=dot, count=count,
                         invs=invs if invs is not None else INVS[model]))

    if tier == "quick":
        job("pb 2 backups 1 key 3 writes", "pb", dict(nb=2, nk=1, maxw=3))
        job("pb 2 backups 2 keys 2 writes", "pb", dict(nb=2, nk=2, maxw=2))
        job("chain 3 nodes craq on/off 2 writes 1 read", "chain", dict(n=3, nk=1, maxw=2, maxr=1, craq=(True, False)))
        job("chain 2 nodes craq 2 keys 2 writes 2 reads", "chain", dict(n=2, nk=2, maxw=2, maxr=2, craq=(True,)))
        job("ml 2 leaders 3 writes", "ml", dict(n=2, nk=1, maxw=3, maxae=1))
        job("ml 3 leaders 2 writes", "ml", dict(n=3, nk=1, maxw=2, maxae=3))
        job("ml merging resolver 2 leaders 3 writes", "ml", dict(n=2, nk=1, maxw=3, maxae=1, mode="merge"))
        job("ml merging resolver 3 leaders 2 writes", "ml", dict(n=3, nk=1, maxw=2, maxae=3, mode="merge"))
        job("replicated store 3 replicas 2 keys 3 puts", "rs", dict(n=3, nk=2, maxw=3))
    else:
        job("pb 2 backups 2 keys 3 writes", "pb", dict(nb=2, nk=2, maxw=3))
        job("pb 3 backups 1 key 3 writes", "pb", dict(nb=3, nk=1, maxw=3))
        job("pb 1 backup 2 keys 4 writes", "pb", dict(nb=1, nk=2, maxw=4))
        job("chain 3 nodes craq on/off 2 keys 3 writes 1 read", "chain",
            dict(n=3, nk=2, maxw=3, maxr=1, craq=(True, False)))
        job("chain 3 nodes craq 1 key 2 writes 2 reads", "chain", dict(n=3, nk=1, maxw=2, maxr=2, craq=(True,)))
        job("chain 4 nodes craq 1 key 2 writes 1 read", "chain", dict(n=4, nk=1, maxw=2, maxr=1, craq=(True,)))
        job("ml 2 leaders 2 keys 4 writes", "ml", dict(n=2, nk=2, maxw=4, maxae=1))
        job("ml 3 leaders 3 writes", "ml", dict(n=3, nk=1, maxw=3, maxae=3))
        job("ml 3 leaders 2 keys 2 writes", "ml", dict(n=3, nk=2, maxw=2, maxae=3))
        job("ml merging resolver 2 leaders 2 keys 3 writes", "ml", dict(n=2, nk=2, maxw=3, maxae=1, mode="merge"))
        job("ml merging resolver 3 leaders 3 writes", "ml", dict(n=3, nk=1, maxw=3, maxae=3, mode="merge"))
        job("replicated store 4 replicas 2 keys 4 puts", "rs", dict(n=4, nk=2, maxw=4))
    for dev, (model, inv) in DEVIATIONS.items():
        kw = {"pb": dict(nb=2, nk=1, maxw=2), "chain": dict(n=3, nk=1, maxw=2, maxr=1, craq=(True,)),
              "ml": dict(n=2, nk=1, maxw=2, maxae=1, mode="merge" if dev == "merged_winner_dropped" else "lww"),
              "rs": dict(n=2, nk=1, maxw=2)}[model]
        job(f"sensitivity {dev}", model, kw, dev=[dev], expect=inv, count=False)
    job("witness: multi-leader without anti-entropy", "ml", dict(n=2, nk=1, maxw=2, maxae=0),
        expect="WitnessNoAE", count=False, invs=["WitnessNoAE"])
    return jobs


def replay_jobs(tier, code_dev):
    """Small state graphs with Dev = the code as it is; every edge is replayed on the real objects."""
    jobs = []

    def job(name, model, kw):
        dev = [d for d in code_dev if DEVIATIONS[d][0] == model]
        jobs.append(dict(name=name, model=model, kw=kw, dev=tuple(dev), expect=None, dot=True, count=False, invs=[]))

    if tier == "quick":
        job("graph pb", "pb", dict(nb=2, nk=1, maxw=2))
        job("graph chain craq", "chain", dict(n=3, nk=1, maxw=2, maxr=1, craq=(True,)))
        job("graph ml", "ml", dict(n=2, nk=1, maxw=2, maxae=1, burst=True))
        job("graph ml merging resolver", "ml", dict(n=2, nk=1, maxw=2, maxae=1, burst=True, mode="merge"))
        job("graph replicated store", "rs", dict(n=3, nk=1, maxw=2))
    else:
        job("graph pb", "pb", dict(nb=2, nk=2, maxw=2))
        job("graph pb 3w", "pb", dict(nb=2, nk=1, maxw=3, modes=("sync",)))
        job("graph chain craq", "chain", dict(n=3, nk=1, maxw=2, maxr=1, craq=(True, False)))
        job("graph chain 2 nodes", "chain", dict(n=2, nk=2, maxw=2, maxr=2, craq=(True,)))
        job("graph ml", "ml", dict(n=2, nk=1, maxw=3, maxae=1, burst=True))
        job("graph ml 3", "ml", dict(n=3, nk=1, maxw=2, maxae=3, burst=True))
        job("graph ml merging resolver", "ml", dict(n=2, nk=1, maxw=3, maxae=1, burst=True, mode="merge"))
        job("graph ml 3 merging resolver", "ml", dict(n=3, nk=1, maxw=2, maxae=3, burst=True, mode="merge"))
        job("graph replicated store", "rs", dict(n=3, nk=2, maxw=3))
    return jobs


def run_job(j, idx, workers):
    label = f"{LBL}_mc_{idx}"
    wd = tlc.workdir(label)
    cfg = tlc.write_cfg(wd / "mc.cfg", constants=consts(j["model"], j["dev"], **j["kw"]), invariants=j["invs"])
    res = tlc.run(SPEC / MODULE[j["model"]], cfg, label=label, timeout=3000, workers=workers,
                  dump_dot=(wd / "g.dot") if j["dot"] else None, heap="3g")
    return res, wd


def run_jobs(jobs, par, workers):
    with ThreadPoolExecutor(max_workers=par) as ex:
        futs = [ex.submit(run_job, j, i, workers) for i, j in enumerate(jobs)]
        return [f.result() for f in futs]


# ---------------------------------------------------------------------------
# 2. spec -> code: a model behaviour as a timed schedule

def _rec(t):
    return dict(t) if isinstance(t, tuple) and t and isinstance(t[0], tuple) else t


class Path:
    """Adapter over one model behaviour: [(name, args, state_after)] starting from s0."""

    def __init__(self, model, s0, steps):
        self.model, self.s0, self.steps = model, s0, steps

    # node -> tuple of pending puts
    def queues(self, s):
        if self.model == "pb":
            d = {1: s["pq"]}
            for b, q in enumerate(s["bq"], start=1):
                d[b + 1] = q
            return d
        if self.model == "rs":
            return {i: tuple(o for o, p in enumerate(s["pos"], start=1) if p == i) for i in range(1, s["n"] + 1)}
        return {i: q for i, q in enumerate(s["q"], start=1)}

    def msgs(self, s):
        if self.model == "rs":
            return set()
        if self.model == "pb":
            return {("repl", b + 1, w) for (b, w) in s["msgs"]}
        if self.model == "chain":
            out = set()
            for m in s["msgs"]:
                m = _rec(m)
                out.add((m["t"], m["to"], m["w"]))
            return out
        return {("repl", to, w) for (to, w) in s["msgs"]}

    def route(self, m, s):
        t, to, w = m
        n = self.nodes(s)
        if self.model == "pb":
            return (1, to)
        if self.model == "chain":
            if t == "prop":
                return (to - 1, to)
            if t in ("wack", "commit"):
                return (n, to)
            return (_rec(s["rd"][w - 1])["at"], n)
        return (_rec(s["wr"][w - 1])["n"], to)

    def nodes(self, s):
        return s["nb"] + 1 if self.model == "pb" else s["n"]

    def gets(self, s):
        if self.model != "chain":
            return {}
        return {r: _rec(x)["at"] for r, x in enumerate(s["rd"], start=1) if _rec(x)["ph"] == "get"}


MRANK = {"prop": 0, "repl": 0, "wack": 1, "commit": 2, "read": 3}


def schedule(path: Path):
    """-> (scenario, times, groups) ; times[i] = instant of step i (0-based)."""
    model, s0 = path.model, path.s0
    n = path.nodes(s0)
    nk = s0["nk"]
    ml = model == "ml"
    sc = {"proto": model, "n": n, "nk": nk, "mode": s0.get("mode", "-"), "craq": bool(s0.get("craq", False)),
          "resolver": "vcm_union" if s0.get("mode") == "merge" else "lww",
          "base_w": 0.03125 if ml else 0.25, "base_r": 0.25, "net_default": 0.0625 if ml else 1.0,
          "ae_window": 0.4375}
    ops = []
    times = []
    put_start = {i: [] for i in range(1, n + 1)}
    put_done = {i: [] for i in range(1, n + 1)}
    get_start = {i: [] for i in range(1, n + 1)}     # per store, in starting order: [start, end or None]
    get_open = {}                                    # read -> its get in progress (a forwarded read has two gets)
    route_msgs = {}
    sent_at, deliv_at = {}, {}
    prev = s0
    t = 0.0
    prev_write_ts = None
    prev_was_write = False
    for name, args, st in path.steps:
        same = False
        if ml and name == "Write":
            ts = _rec(st["wr"][-1])["ts"]
            same = prev_was_write and prev_write_ts == ts
            prev_write_ts = ts
        if not same:
            t += 1.0
        times.append(t)
        prev_was_write = name == "Write"
        # client operations
        if name == "Write":
            ops.append([t, "w", args[0] if ml else n + 1 if model == "rs" else 1, args[1] if ml else args[0]])
        elif name == "Read":
            ops.append([t, "r", args[0], args[1]])
        elif name == "AE":
            ops.append([t, "ae", args[0], args[1]])
        # puts
        qb, qa = path.queues(prev), path.queues(st)
        for i in range(1, n + 1):
            if len(qa[i]) > len(qb[i]):
                put_start[i].append(t)
            elif len(qa[i]) < len(qb[i]):
                put_done[i].append(t)
        # gets
        gb, ga = path.gets(prev), path.gets(st)
        for r in gb:
            if r not in ga:
                get_open.pop(r)[1] = t
        for r, at in ga.items():
            if r not in gb:
                get_open[r] = [t, None]
                get_start[at].append(get_open[r])
        # messages
        mb, ma = path.msgs(prev), path.msgs(st)
        for m in sorted(ma - mb, key=lambda m: (MRANK[m[0]], m[1], m[2])):
            sent_at[m] = t
            route_msgs.setdefault(path.route(m, st), []).append(m)
        for m in mb - ma:
            deliv_at[m] = t
        if name == "AE":
            # the exchange's own messages travel on the same routes and consume script slots: request i->j,
            # and the answer j->i unless j's reconciled map equals what i sent (same Merkle root)
            i, j = args
            req = ("aereq", len(times), 0)
            sent_at[req], deliv_at[req] = t, t + sc["net_default"]
            route_msgs.setdefault((i, j), []).append(req)
            if st["ver"][j - 1] != prev["ver"][i - 1]:
                rsp = ("aersp", len(times), 0)
                sent_at[rsp], deliv_at[rsp] = t, t + sc["net_default"]
                route_msgs.setdefault((j, i), []).append(rsp)
            # ... and its reconciling puts consume slots of the stores' put scripts (plain store latency)
            answered = st["ver"][j - 1] != prev["ver"][i - 1]
            for x, theirs in ((j, prev["ver"][i - 1]), (i, st["ver"][j - 1] if answered else None)):
                for kk in range(nk):
                    if theirs is not None and theirs[kk] and ml_decide_put(prev, prev["ver"][x - 1][kk], theirs[kk]):
                        put_start[x].append(t)
                        put_done[x].append(t + sc["base_w"])
        prev = st
    tend = t + 1.0
    # puts still pending when the behaviour ends finish after it, one store at a time in starting order
    # (distinct instants: a put is "scripted extra delay + store latency", a superseded write's wait is one delay,
    # so equal completion instants would not keep the starting order)
    sc["put"] = {str(i): [(put_done[i][k] if k < len(put_done[i]) else tend + (k - len(put_done[i]) + 1) / 1024.0) - ts
                          for k, ts in enumerate(put_start[i])]
                 for i in range(1, n + 1)}
    sc["get"] = {str(i): [(te if te is not None else tend) - ts for ts, te in get_start[i]] for i in range(1, n + 1)}
    sc["net"] = {f"{a}>{b}": [deliv_at.get(m, tend) - sent_at[m] for m in ms] for (a, b), ms in route_msgs.items()}
    groups = sorted(set(times))
    for gi, gt in enumerate(groups):
        ops.append([gt + 0.5, "snap", gi])
    ops.sort(key=lambda o: o[0])
    sc["ops"] = ops
    return sc, times, groups


def ml_decide_put(s, e, x):
    """MultiLeader.tla Decide(s, e, x).put: does a leader holding version e write its store on meeting x?"""
    n = s["n"]
    wr = [_rec(r) for r in s["wr"]]

    def vc(S):
        return [max([wr[w - 1]["vc"][j] for w in S] or [0]) for j in range(n)]

    def dom(a, b):
        return all(p >= q for p, q in zip(a, b)) and any(p > q for p, q in zip(a, b))

    if not e:
        return True
    ve, vx = vc(e), vc(x)
    if dom(vx, ve):
        return True
    if dom(ve, vx):
        return False
    if s["mode"] == "merge":
        return True
    ke = (max(wr[w - 1]["ts"] for w in e), max(wr[w - 1]["n"] for w in e))
    kx = (max(wr[w - 1]["ts"] for w in x), max(wr[w - 1]["n"] for w in x))
    return kx > ke


def model_projection(model, s):
    if model == "pb":
        return {"snap": [list(s["pst"])] + [list(b) for b in s["bst"]], "acked": sorted(s["acked"])}
    if model == "chain":
        return {"snap": [list(x) for x in s["st"]], "acked": sorted(s["acked"]),
                "dirty": [sorted({d[0] for d in ds}) for ds in s["dirty"]],
                "reads": {r: _rec(x)["v"] for r, x in enumerate(s["rd"], start=1) if _rec(x)["ph"] == "done"}}
    if model == "rs":
        return {"snap": [list(x) for x in s["st"]], "acked": sorted(s["acked"])}
    cells = [[sorted(c) for c in x] for x in s["ver"]]
    return {"snap": cells, "acked": sorted(s["acked"]), "ver": cells}


def compare_replay(path: Path, world, times, groups):
    """State-checked replay: the real objects' projection at the end of every instant vs the model state."""
    snaps = {r["label"]: r for r in world.log if r["e"] == "snap"}
    last_of_group = {}
    for i, t in enumerate(times):
        last_of_group[t] = i
    checked = 0
    for gi, gt in enumerate(groups):
        r = snaps.get(gi)
        if r is None:
            return checked, f"no snapshot for instant {gt}"
        want = model_projection(path.model, path.steps[last_of_group[gt]][2])
        acked = sorted(x["ident"] for x in world.log if x["e"] == "ack" and x["t"] <= r["t"])
        got = {"snap": r["snap"], "acked": acked}
        if "dirty" in want:
            got["dirty"] = r.get("dirty")
            got["reads"] = {x["ident"]: W.enc((x["reply"] or {}).get("value")) for x in world.log
                            if x["e"] == "rr" and x["t"] <= r["t"]}
        if "ver" in want:
            got["ver"] = r.get("ver")
        for f in want:
            if want[f] != got[f]:
                name, args, _ = path.steps[last_of_group[gt]]
                return checked, f"{path.model} after step {last_of_group[gt] + 1} {name}{args}: {f} model={want[f]} code={got[f]}"
        checked += 1
    return checked, None


def paths_from_graph(model, wd, rng, cap):
    g = tlc.parse_dot(wd / "g.dot")
    paths = list(tlc.edge_tour(g, rng=random.Random(rng.random())))
    total = len(paths)
    if cap is not None and len(paths) > cap:
        paths = rng.sample(paths, cap)
    out = []
    for root, p in paths:
        steps = []
        for lab, dst in p:
            name, args = tlc.parse_action(lab)
            steps.append((name, tuple(args), g.nodes[dst]["s"]))
        out.append(Path(model, g.nodes[root]["s"], steps))
    return out, total, len(g.nodes), g.n_edges()


def path_from_trace(model, trace):
    s0 = trace[0][1]["s"]
    steps = []
    for lab, st in trace[1:]:
        name, args = tlc.parse_action(lab)
        steps.append((name, tuple(args), st["s"]))
    return Path(model, s0, steps)


# ---------------------------------------------------------------------------
# 3. code -> spec: random / adversarial scenarios

LAT = (0.001, 0.002, 0.003, 0.005, 0.008, 0.013, 0.021, 0.034, 0.055)
STORE = (0.0, 0.001, 0.002, 0.005)
STORE_HET = STORE + (0.001, 0.005, 0.02, 0.06, 0.15)      # heterogeneous replica storage speeds (slow interior nodes)


def _routes(n, star=False):
    if star:
        return [(1, i) for i in range(2, n + 1)] + [(i, 1) for i in range(2, n + 1)]
    return [(a, b) for a in range(1, n + 1) for b in range(1, n + 1) if a != b]


def _net(rng, routes, count, style):
    net = {}
    for (a, b) in routes:
        if style == "const":
            net[f"{a}>{b}"] = []
        elif style == "decreasing":            # every message overtakes its predecessor
            net[f"{a}>{b}"] = [0.08 - 0.009 * i if i < 8 else 0.004 for i in range(count)]
        else:
            net[f"{a}>{b}"] = [rng.choice(LAT) for _ in range(count)]
    return net


def _write_times(rng, m):
    style = rng.choice(("burst", "spaced", "mixed", "tight"))
    t, out = 0.0, []
    for _ in range(m):
        if style == "spaced":
            t += rng.choice((0.05, 0.1, 0.2))
        elif style == "tight":
            t += rng.choice((0.001, 0.002, 0.004))
        elif style == "mixed":
            t += rng.choice((0.0, 0.0, 0.001, 0.003, 0.02, 0.1))
        out.append(round(t, 6))
    return out


def random_pb(rng):
    n = rng.choice((2, 3, 3, 4))
    nk = rng.choice((1, 1, 2, 3))
    m = rng.randint(2, 7)
    ops = [[t, "w", 1, rng.randint(1, nk)] for t in _write_times(rng, m)]
    return {"proto": "pb", "mode": rng.choice(("async", "semi", "sync", "sync")), "n": n, "nk": nk, "ops": ops,
            "net": _net(rng, _routes(n, star=True), m, rng.choice(("rand", "rand", "decreasing", "const"))),
            "net_default": rng.choice(LAT), "base_w": [rng.choice(STORE) for _ in range(n)], "base_r": 0.001}


def random_chain(rng):
    n = rng.choice((2, 3, 3, 4))
    nk = rng.choice((1, 1, 2))
    craq = rng.random() < 0.75
    m = rng.randint(1, 6)
    wt = _write_times(rng, m)
    ops = [[t, "w", 1, rng.randint(1, nk)] for t in wt]
    horizon = wt[-1] + 0.08 * n
    for _ in range(rng.randint(1, 6)):
        t = round(rng.choice((rng.uniform(0, horizon), rng.choice(wt) + rng.choice(LAT) * rng.randint(1, 2 * n))), 6)
        ops.append([t, "r", rng.randint(1, n) if craq else n, rng.randint(1, nk)])
    ops.sort(key=lambda o: o[0])
    return {"proto": "chain", "craq": craq, "n": n, "nk": nk, "ops": ops,
            "net": _net(rng, _routes(n), 2 * m + 4, rng.choice(("rand", "rand", "decreasing", "const"))),
            "net_default": rng.choice(LAT), "base_w": [rng.choice(STORE_HET) for _ in range(n)],
            "base_r": [rng.choice(STORE) for _ in range(n)]}


def random_rs(rng):
    n = rng.choice((2, 3, 3, 4, 5))
    nk = rng.choice((1, 1, 2, 3))
    m = rng.randint(2, 7)
    ops = [[t, "w", n + 1, rng.randint(1, nk)] for t in _write_times(rng, m)]
    return {"proto": "rs", "n": n, "nk": nk, "ops": ops, "level": rng.choice(("one", "quorum", "all")),
            "base_w": [rng.choice(STORE) for _ in range(n)], "base_r": 0.001}


def _sweep(n, t0, gap, twice=False, rearm=None):
    """Sequential forced anti-entropy exchanges covering every pair, after t0.  rearm = the leaders' periodic
    interval when it is short: a forced round re-arms the initiator's periodic daemon, which is retired again
    through the public API (no peers at its next firing) so that the exchanges stay sequential."""
    pairs = [(i, j) for i in range(1, n + 1) for j in range(i + 1, n + 1)]
    ops, t = [], t0
    for rep in range(2 if twice else 1):
        for (i, j) in pairs:
            a, b = (i, j) if (rep + i + j) % 2 else (j, i)
            ops.append([round(t, 6), "ae", a, b])
            if rearm is not None:
                ops.append([round(t + 0.000001, 6), "peers", a, 0])
                ops.append([round(t + rearm + 0.000002, 6), "peers", a, 1])
            t += gap
    ops.sort(key=lambda o: o[0])
    return ops


def random_ml(rng, wild=False):
    n = rng.choice((2, 3, 3, 4)) if wild else rng.choice((2, 3, 3))
    nk = rng.choice((1, 1, 2, 3))
    m = rng.randint(2, 7)
    wt = _write_times(rng, m)
    ops = [[t, "w", rng.randint(1, n), rng.randint(1, nk)] for t in wt]
    net = _net(rng, _routes(n), 2 * m, rng.choice(("rand", "rand", "decreasing", "const")))
    sc = {"proto": "ml", "n": n, "nk": nk, "net": net, "net_default": 0.002,
          "base_w": [rng.choice(STORE[1:]) for _ in range(n)], "base_r": 0.001,
          "resolver": rng.choice(("lww", "vcm", "vcm_fn", "custom", "default", "vcm_union", "vcm_union", "custom_union")),
          "ae_window": 0.2, "rseed": rng.randrange(10 ** 6)}
    sc["mode"] = "merge" if sc["resolver"].endswith("union") else "lww"
    quiet_at = wt[-1] + 1.0
    if wild:
        sc["ae_interval"] = rng.choice((0.004, 0.01, 0.03))
        for i in range(1, n + 1):
            ops.append([round(rng.uniform(0.0005, 0.02), 6), "aestart", i])
        # the component's own periodic daemons run during the write phase; they are then retired through the
        # public API (a leader without peers does not re-arm), peers restored, and forced sequential sweeps follow
        ops.append([quiet_at, "aestop"])
        ops.append([quiet_at + 0.5, "aerestore"])
        ops.sort(key=lambda o: o[0])
        ops += _sweep(n, quiet_at + 1.0, 0.25, twice=True, rearm=sc["ae_interval"])
    else:
        ops += _sweep(n, quiet_at, 0.25, twice=n > 3)
    sc["ops"] = ops
    return sc


# ---------------------------------------------------------------------------
# 4. classification of a failing execution (key computed from what fails)

def classify(world, trace, verdict, pos, cverdict, cpos=0, code_dev=()):
    clause = verdict[5:]
    log = world.log
    proto = world.proto
    key, why = clause, ""
    if clause in ("pb_replicas_differ_at_quiescence", "chain_replicas_differ_at_quiescence"):
        end = [r for r in log if r["e"] == "end"][-1]
        wkey = {}
        for r in log:
            if r["e"] == "arr" and r["ctx"]["type"] == "Write":
                wkey[W.enc(r["ctx"].get("value"))] = r["ctx"].get("key")
        applied = {}
        for r in log:
            if r["e"] == "pd":
                applied.setdefault((r["n"], r["k"]), []).append(W.enc(r["v"]))
        only_order = True
        for k in range(1, world.nk + 1):
            ws = sorted(w for w, kk in wkey.items() if kk == W.key(k))
            for i in range(1, world.n + 1):
                seq = applied.get((i, W.key(k)), [])
                final = end["snap"][i - 1][k - 1]
                if sorted(seq) != ws or final != (seq[-1] if seq else 0):
                    only_order = False
            if ws and end["snap"][0][k - 1] != ws[-1]:
                only_order = False
        if only_order:
            key = "pb_backup_applies_in_arrival_order" if proto == "pb" else "chain_node_applies_in_arrival_order"
            why = "every replica applied every write exactly once and holds the one that arrived last"
        else:
            key = clause + ":not_only_arrival_order"
    elif clause == "chain_read_returned_value_not_committed_at_tail":
        ev = trace["ev"][pos - 1]
        rid, val = ev["w"], ev["x"]
        arr = [i for i, r in enumerate(log) if r["e"] == "gs" and (r["ctx"] or {}).get("ident") == rid]
        done = [i for i, r in enumerate(log) if r["e"] == "rr" and r["ident"] == rid]
        if arr and done:
            a, d = arr[-1], done[0]
            node, k = log[a]["n"], log[a]["k"]
            tail = world.n
            at_tail = {W.enc(r["v"]) for r in log[:a] if r["e"] == "pd" and r["n"] == tail and r["k"] == k}
            here = [W.enc(r["v"]) for r in log[:a] if r["e"] == "pd" and r["n"] == node and r["k"] == k]
            uncommitted = [w for w in here if w not in at_tail]
            during = [W.enc(r["v"]) for r in log[a:d] if r["e"] == "pd" and r["n"] == node and r["k"] == k]
            if node != tail and uncommitted and world.sc.get("craq"):
                key = "craq_dirty_mark_is_key_set"
                why = (f"node {node} served key {k} locally while its writes {uncommitted} were not yet applied at the "
                       f"tail (the commit of an earlier write to the key cleared the mark)")
            elif node != tail and val in during and world.sc.get("craq"):
                # applied during the get latency: did the node still carry its dirty mark when the get ended?
                gd = [r for r in log[a:d] if r["e"] == "gd" and (r["ctx"] or {}).get("ident") == rid and r["n"] == node]
                if gd and k not in gd[-1].get("marks", []):
                    key = "craq_dirty_mark_is_key_set"
                    why = (f"write {val} was applied at node {node} during the get latency of the read and its dirty mark "
                           f"was already cleared (by the commit of an earlier write to {k}) when the get ended, "
                           f"before the tail had it")
                else:
                    key = "craq_dirty_check_before_get_latency"
                    why = (f"key {k} was clean at node {node} when the read arrived; write {val} was applied there "
                           f"during the get latency (the key was marked dirty when the get ended) and returned before "
                           f"the tail had it")
            else:
                key = clause + ":unclassified"
    # a key that is an open finding only counts as that finding if the impl model with the open deviations
    # reproduces the execution up to the failing event (drift after it is irrelevant)
    elif clause == "ml_replicas_differ_after_anti_entropy":
        end = [r for r in log if r["e"] == "end"][-1]
        kind = "merging_resolver" if world.sc.get("mode") == "merge" else "pick_one_resolver"
        own = all(len(c) <= 1 for row in end["snap"] for c in row)
        key = f"{clause}:{kind}" + (":merged_value_never_installed" if kind == "merging_resolver" and own else "")
        why = f"resolver {world.sc.get('resolver')}; final stores {end['snap']}"
    if key in KEY_DEV and KEY_DEV[key] in code_dev and cverdict != "OK" and cpos <= pos:
        key = f"{key}:not_reproduced_by_model({cverdict})"
    return key, why


# ---------------------------------------------------------------------------

def run(tier, seed, replay=None):
    quiet_logging()
    chk = Check(PROP, tier, seed)
    rng = random.Random(seed)
    code_dev = as_code_dev()

    if replay:
        return run_replay(chk, replay, code_dev)

    quick = tier == "quick"
    par = 5
    workers = max(2, tlc.DEFAULT_WORKERS // par)

    # ---- 1. model checking (+ state graphs for the replays): TLC runs in parallel, in the background
    jobs = mc_jobs(tier) + replay_jobs(tier, code_dev)
    pool = ThreadPoolExecutor(max_workers=par)
    futs = [pool.submit(run_job, j, i, workers if j["count"] or j["dot"] else 2) for i, j in enumerate(jobs)]

    # ---- 2./3. executions of the real code
    traces, meta, nexec = [], {}, [0]

    def execute(sc, origin, conf=True):
        nexec[0] += 1
        tid = nexec[0]
        w, tr, err, notes = W.execute(sc, tid, conf)
        traces.append(tr)
        meta[tid] = {"origin": origin, "scenario": sc}
        chk.impl_steps += len(tr["ev"])
        if err:
            chk.violation(f"exception:{err.split(':')[0]}", f"real code raised {err}", {"scenario": sc})
        for nt in notes:
            chk.note_drift(f"trace {tid} ({origin}): {nt}")
        return tid, w

    batch = 10 ** 9 if quick else 5000

    def flush(force=False):
        """Validate the accumulated executions (thorough tier: in batches, to bound memory)."""
        if traces and (force or len(traces) >= batch):
            if not chk.samples:
                sample_evidence(chk, traces, meta)
            judge(chk, traces, meta, code_dev)
            for tr in traces:
                meta.pop(tr["id"], None)
            traces.clear()

    # 3. random / adversarial drivers (while TLC is running)
    n_rand = {"pb": 500, "chain": 600, "ml": 350, "mlwild": 150, "rs": 200} if quick else \
             {"pb": 5000, "chain": 7000, "ml": 4000, "mlwild": 1500, "rs": 1500}
    for _ in range(n_rand["pb"]):
        execute(random_pb(rng), "random:pb")
        flush()
    for _ in range(n_rand["chain"]):
        execute(random_chain(rng), "random:chain")
        flush()
    for _ in range(n_rand["ml"]):
        execute(random_ml(rng), "random:ml")
        flush()
    for _ in range(n_rand["rs"]):
        execute(random_rs(rng), "random:rs")
        flush()
    for _ in range(n_rand["mlwild"]):
        execute(random_ml(rng, wild=True), "random:ml_periodic_anti_entropy", conf=False)
        flush()
    t_rand = _time.time() - chk.t0

    # ---- 1. (continued) collect the TLC results
    try:
        results = [f.result() for f in futs]
    finally:
        pool.shutdown(wait=False, cancel_futures=True)
    graphs = []
    cex = []
    for j, (res, wd) in zip(jobs, results):
        chk.add_tlc(f"{MODULE[j['model']][:-4]} Dev={devset(j['dev'])} {j['name']}", res, count=j["count"],
                    note="must violate " + j["expect"] if j["expect"] else "")
        if j["dot"]:
            chk.require(res.ok, f"graph run {j['name']} failed: {res.violated}")
            graphs.append((j, wd))
        elif j["expect"]:
            chk.require(res.violated in j["expect"].split("|"),
                        f"{j['name']}: expected {j['expect']} to be violated, got {res.violated}")
            if j["dev"]:
                chk.sensitivity[j["dev"][0]] = res.violated
                if j["dev"][0] in code_dev:
                    cex.append((j, res))
            else:
                chk.extra["witness_ml_without_anti_entropy"] = res.violated
        else:
            chk.require(res.ok, f"{j['name']}: Dev={{}} violates {res.violated}")
    chk.exhaustive = True      # the Dev={} TLC runs are complete for their constants (listed in tlc_runs)
    chk.extra["exhaustive_configs"] = [{"model": j["model"], "constants": consts(j["model"], j["dev"], **j["kw"])}
                                       for j in jobs if j["count"]]
    t_mc = _time.time() - chk.t0

    # 2a. every edge of the state graphs
    cap = 400 if quick else 6000
    for j, wd in graphs:
        paths, total, nn, ne = paths_from_graph(j["model"], wd, rng, cap)
        chk.extra.setdefault("replay_graphs", []).append(
            {"graph": j["name"], "states": nn, "edges": ne, "tour_paths": total, "replayed": len(paths)})
        for p in paths:
            sc, times, groups = schedule(p)
            tid, w = execute(sc, f"tour:{j['name']}")
            chk.replays += 1
            nchk, diff = compare_replay(p, w, times, groups)
            chk.extra["replay_instants_state_checked"] = chk.extra.get("replay_instants_state_checked", 0) + nchk
            if diff:
                chk.note_drift(f"replay {tid}: {diff}")
            flush()
    # 2b. TLC counterexamples of the deviations that are open findings
    for j, res in cex:
        p = path_from_trace(j["model"], res.trace)
        sc, times, groups = schedule(p)
        execute(sc, f"counterexample:{j['dev'][0]}")
        chk.replays += 1

    t_exec = _time.time() - chk.t0
    flush(force=True)
    chk.extra["phase_wall_s"] = {"random_drivers (overlapping TLC)": round(t_rand, 1),
                                 "tlc_model_checking_done_at": round(t_mc, 1),
                                 "graph_replays_done_at": round(t_exec, 1),
                                 "trace_validation_and_classification": round(_time.time() - chk.t0 - t_exec, 1)}
    finish_evidence(chk, code_dev)
    return chk.finish()


def judge(chk, traces, meta, code_dev):
    # batches validated by parallel single-worker TLC runs
    nb = max(1, min(4, len(traces) // 400))
    size = (len(traces) + nb - 1) // nb
    parts = [traces[i:i + size] for i in range(0, len(traces), size)]

    def one(i):
        return tlc.validate_traces(SPEC / "ReplTrace.tla", parts[i], label=f"{LBL}_trace_{i}",
                                   constants={"Dev": devset(code_dev)}, chunk=4000, timeout=3000)

    with ThreadPoolExecutor(max_workers=nb) as ex:
        outs = list(ex.map(one, range(len(parts))))
    verdicts, results = {}, []
    for v, rs in outs:
        verdicts.update(v)
        results += rs
    conf = {}
    for r in results:
        chk.add_tlc(f"ReplTrace batch Dev={devset(code_dev)}", r)
        for v in r.printed:
            if isinstance(v, tuple) and len(v) >= 4 and v[0] == "C":
                conf[v[1]] = (v[2], v[3])
    chk.impl_traces += len(traces)
    stats = chk.extra.setdefault("trace_stats", {})
    for tr in traces:
        tid = tr["id"]
        verdict, pos = verdicts[tid]
        origin = meta[tid]["origin"]
        st = stats.setdefault(origin.split(":")[0] + ":" + tr["proto"], {"traces": 0, "accept": 0, "prop": 0, "drift": 0})
        st["traces"] += 1
        if verdict == "ACCEPT":
            st["accept"] += 1
            continue
        if verdict.startswith("PROP:"):
            st["prop"] += 1
            cv, cpos = conf.get(tid, ("?", 0))
            world, _, _, _ = W.execute(meta[tid]["scenario"], tid, tr["conf"])     # deterministic re-execution
            key, why = classify(world, tr, verdict, pos, cv, cpos, code_dev)
            desc = f"{verdict[5:]} at event {pos} of a {tr['proto']} execution ({origin})" + (f": {why}" if why else "")
            chk.violation(key, desc, {"scenario": meta[tid]["scenario"], "origin": origin, "verdict": verdict,
                                      "pos": pos, "conf": tr["conf"]})
        else:
            st["drift"] += 1
            chk.note_drift(f"trace {tid} ({origin}): {verdict} at event {pos}")
    return verdicts, conf


def sample_evidence(chk, traces, meta):
    seen = set()
    for tr in traces:
        if tr["proto"] not in seen:
            seen.add(tr["proto"])
            chk.sample({"origin": meta[tr["id"]]["origin"], "scenario": meta[tr["id"]]["scenario"],
                        "events": tr["ev"][:10]})


def finish_evidence(chk, code_dev):
    chk.extra["code_as_it_is_deviations"] = code_dev
    chk.assumptions = [
        "puts of one store end in the order they started (constant latency per store; the replays script "
        "per-put latencies that keep this order)",
        "'applied' at an acknowledgement = the replica executed the put of that write, or holds its value or the "
        "value of a later write to the key (the weaker of the two readings of the statement)",
        "chain reads are sent to the tail unless CRAQ is enabled (documented usage)",
        "multi-leader: 'anti-entropy having run' = after the writes stopped and all messages were delivered, every "
        "pair of leaders completed one exchange, exchanges not overlapping; link and store latencies positive",
        "the primary counts as a replica in the convergence clause",
    ]
    chk.explanation = (
        "TLC exhausts every interleaving of put completions and message deliveries (any order) of the three "
        "replication schemes at small bounds; the contract holds with Dev={} and fails for each deviation alone. "
        "Every edge of small state graphs of the model of the code as it is (Dev = open findings) is executed on "
        "the real components through the unmodified Simulation+Network by scripting one instant per model action; "
        "random schedules beyond the bounds are recorded and judged by ReplTrace.tla on observed stores only.")


def run_replay(chk, path, code_dev):
    data = json.loads(open(path).read())
    rp = data["replay"]
    w, tr, err, notes = W.execute(rp["scenario"], 1, rp.get("conf", True))
    if err:
        chk.violation(f"exception:{err.split(':')[0]}", f"real code raised {err}", rp)
        return chk.finish()
    judge(chk, [tr], {1: {"origin": rp.get("origin", "replay"), "scenario": rp["scenario"]}}, code_dev)
    return chk.finish()
